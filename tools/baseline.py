#!/usr/bin/env python3
"""Run the repository's baseline test suite (guard off) and compare with BASELINE.json's stable_pass list.
Usage: tools/baseline.py [repo_dir]   exit 0 iff every stable_pass test passed."""
import json, subprocess, sys, os
repo = sys.argv[1] if len(sys.argv) > 1 else "/repo"
base = json.load(open("/root/.vp/BASELINE.json"))
want = set(base["stable_pass"])
env = dict(os.environ, GOFLAGS="-mod=mod", GOPROXY="off", GOSUMDB="off", GOTOOLCHAIN="local")
p = subprocess.run(["go", "test", "-json", "-vet=off", "-count=1", "-timeout", "25m", "./..."], cwd=repo, env=env, stdout=subprocess.PIPE, stderr=subprocess.STDOUT)
passed, failed = set(), set()
for line in p.stdout.decode("utf-8", "replace").splitlines():
    try:
        ev = json.loads(line)
    except Exception:
        continue
    if ev.get("Test") and ev.get("Action") in ("pass", "fail"):
        name = "%s::%s" % (ev["Package"], ev["Test"])
        (passed if ev["Action"] == "pass" else failed).add(name)
missing = sorted(want - passed)
print("stable_pass=%d passed=%d failed=%d missing_from_pass=%d" % (len(want), len(passed), len(failed), len(missing)))
for m in missing[:40]:
    print("  NOT PASSING:", m, "(failed)" if m in failed else "(not run)")
sys.exit(1 if missing else 0)
