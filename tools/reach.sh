#!/bin/bash
# Reach measurement: which statements of absnfs do the simulated runs execute?
# usage: tools/reach.sh [seconds-per-property] [scratch-dir]   (scratch defaults to /root/scratch/reach; removed at the end)
set -e
export GOFLAGS=-mod=mod GOPROXY=off GOSUMDB=off GOTOOLCHAIN=local PATH=/opt/veriftools/go1.26.8/bin:$PATH
V=$(cd "$(dirname "$0")/.." && pwd); REPO=${VERIF_REPO:-/repo}; S=${1:-25}; W=${2:-/root/scratch/reach}
rm -rf "$W"; mkdir -p "$W/repo" "$W/ov" "$W/prof"
"$V/build/rewrite" -repo "$REPO" -out "$W/ov" -access "$V/sim/access/zz_verif_access.go.txt" >/dev/null
(cd "$REPO" && git ls-files -z | xargs -0 cp --parents -t "$W/repo")
python3 - "$W" "$REPO" <<'PY'
import json,shutil,os,sys
W,REPO=sys.argv[1],sys.argv[2]
for dst,src in json.load(open(W+'/ov/overlay.json'))['Replace'].items():
    t=W+'/repo/'+os.path.relpath(dst,REPO); os.makedirs(os.path.dirname(t),exist_ok=True); shutil.copy(src,t)
PY
sed "s#=> $REPO\$#=> $W/repo#; s#=> /repo\$#=> $W/repo#" "$V/sim/go.mod" > "$W/go.mod"; cp "$V/sim/go.sum" "$W/go.sum"
(cd "$V/sim" && go test -c -cover -covermode=count -coverpkg=github.com/absfs/absnfs -modfile="$W/go.mod" -tags verif -vet=off -o "$W/sim-cover.test" ./h/)
for p in $(python3 -c "import json;print(' '.join(json.loads(l)['id'] for l in open('$V/properties.jsonl')))"); do echo $p; done |
  xargs -P 5 -I{} sh -c "VERIF_PROP={} VERIF_SEED=${VERIF_SEED:-1} VERIF_RUNS=0 VERIF_BUDGET_S=$S VERIF_REPLAYS=$W/replays VERIF_KNOWN=$V/known_findings.json $W/sim-cover.test -test.run '^TestSim\$' -test.cpu 1 -test.coverprofile=$W/prof/{}.out > $W/prof/{}.log 2>&1 || true"
python3 - "$W" <<'PY'
import glob,collections,re,sys
W=sys.argv[1]; blocks={}
for f in glob.glob(W+'/prof/C*.out'):
    for l in open(f):
        m=re.match(r'(.+):(\d+)\.\d+,(\d+)\.\d+ (\d+) (\d+)$',l.strip())
        if m:
            k=(m.group(1),int(m.group(2)),int(m.group(3))); n=int(m.group(4)); c=int(m.group(5))
            blocks[k]=(n,blocks.get(k,(n,0))[1]+c)
per=collections.defaultdict(lambda:[0,0])
for (f,a,b),(n,c) in blocks.items():
    per[f][0]+=n; per[f][1]+=n if c else 0
tn=tc=0
for f,(n,c) in sorted(per.items()):
    print(f"{f.split('/')[-1]:28s} {c:5d}/{n:5d} {100*c/n:5.1f}%"); tn+=n; tc+=c
print(f"total statements reached {tc}/{tn} = {100*tc/tn:.1f}%")
PY
rm -rf "$W"
