#!/usr/bin/env python3
"""Regenerate MANIFEST.json from tools/manifest_checks.json (claimed checks) and properties.jsonl."""
import json, os
V = os.path.dirname(os.path.dirname(os.path.abspath(__file__)))
props = [json.loads(l) for l in open(os.path.join(V, "properties.jsonl"))]
claims = json.load(open(os.path.join(V, "tools", "manifest_checks.json")))
checks, na = [], []
for p in props:
    pid = p["id"]
    c = claims.get(pid)
    if not c or c.get("not_applicable"):
        na.append({"property_id": pid, "reason": (c or {}).get("not_applicable", "pending: check not built yet in this session (not a claim of inapplicability)")})
        continue
    checks.append({
        "property_id": pid,
        "quick_cmd": "./check %s --tier quick" % pid,
        "thorough_cmd": "./check %s --tier thorough" % pid,
        "evidence_file": "/verif/evidence/%s.json" % pid,
        "replay_cmd_template": "./check %s --replay {path}" % pid,
        "engine": "simrt",
        "level_claimed": {"category": c.get("level", "exploration"), "text": c["text"], "design_ref": c.get("design_ref", "DESIGN.md section 7, " + pid)},
        "level_note": c["note"],
        "technique": c.get("technique", "deterministic simulation: seeded schedule/fault search with invariant and history oracles"),
    })
m = {
    "version": 1,
    "setup_cmd": "./check setup",
    "hooks": {
        "guard": "verif",
        "enable": "./check <ID> regenerates a go build -overlay from /repo's working tree with sim/cmd/rewrite (go/ast+go/types) and compiles the harness with -tags verif; no file in /repo carries hooks",
        "baseline_off_cmd": "cd /repo && go test -vet=off -count=1 -timeout 25m ./...",
        "source_commits": [],
        "add_only": True,
    },
    "engines": [{"name": "simrt", "path": "/verif/sim", "serves_properties": [c["property_id"] for c in checks],
                 "kind_free_text": "deterministic simulator: seeded cooperative scheduler over testing/synctest bubbles, simulated network (simnet) and storage (simfs) with fault injection, independent strict NFSv3 client codec, reference models, shrinker, replay"}],
    "checks": checks,
    "notes": "See DESIGN.md. known_findings.json lists genuine defects recorded or fixed. tools/baseline.py compares the guard-off test suite with BASELINE.json.",
    "not_applicable": na,
}
json.dump(m, open(os.path.join(V, "MANIFEST.json"), "w"), indent=1)
print("checks:", len(checks), "not_applicable/pending:", len(na))
