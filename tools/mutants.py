#!/usr/bin/env python3
"""Seeded-change bookkeeping.

  mutants.py confirm <src_dir>            confirm a candidate in a scratch worktree: applies, builds, suite passes, demo fails with / passes without
  mutants.py import <src_dir> <name>      copy patch.diff, demo_test.go, meta.json to /verif/seeded/<name>/
  mutants.py eval <name> [--checks C01,C04] [--tier quick] [--budget S]
                                          git apply in a scratch worktree of /repo's HEAD, run the checks against it (VERIF_REPO/VERIF_OUTDIR), remove it;
                                          result appended to /verif/seeded/<name>/result.json
  mutants.py table                        print the catch table from all result.json files
"""
import json, os, subprocess, sys, shutil, time, re

V = os.path.dirname(os.path.dirname(os.path.abspath(__file__)))
SEEDED = os.environ.get("VERIF_SEEDED", os.path.join(V, "seeded"))  # a snapshot of /verif can evaluate into the live seeded/ directory
ENV = dict(os.environ, GOFLAGS="-mod=mod", GOPROXY="off", GOSUMDB="off")


def sh(cmd, cwd=None, timeout=3600):
    p = subprocess.run(cmd, shell=True, cwd=cwd, env=ENV, stdout=subprocess.PIPE, stderr=subprocess.STDOUT, text=True, timeout=timeout)
    return p.returncode, p.stdout


def repo_clean():
    rc, out = sh("git -C /repo status --porcelain")
    return out.strip() == ""


def confirm(src):
    wt = "/tmp/mutconfirm-%d" % os.getpid()
    sh("git -C /repo worktree remove --force %s" % wt)
    rc, out = sh("git -C /repo worktree add --detach %s HEAD -q" % wt)
    res = {"src": src}
    try:
        demo = os.path.join(src, "demo_test.go")
        patch = os.path.join(src, "patch.diff")
        touched = re.findall(r"^\+\+\+ b/(\S+)", open(patch).read(), re.M)
        res["files"] = touched
        res["touches_tests"] = any(f.endswith("_test.go") for f in touched)
        # demo on the clean tree
        shutil.copy(demo, os.path.join(wt, "zz_mutant_demo_test.go"))
        rc, out = sh("go test -vet=off -count=1 -run '^TestMutantDemo$' .", cwd=wt, timeout=1200)
        res["demo_passes_without"] = rc == 0
        res["demo_clean_tail"] = out[-400:]
        os.remove(os.path.join(wt, "zz_mutant_demo_test.go"))
        rc, out = sh("git apply %s" % patch, cwd=wt)
        if rc != 0:
            # /repo's HEAD moved (a fix: commit) since the change was written: try a 3-way apply and, when that
            # merges cleanly, keep the rebased patch (the original is kept as patch.orig.diff)
            rc3, out3 = sh("git apply -3 %s" % patch, cwd=wt)
            rcu, outu = sh("git diff --name-only --diff-filter=U", cwd=wt)
            if rc3 == 0 and not outu.strip():
                sh("git reset -q", cwd=wt)
                rcd, newdiff = sh("git diff", cwd=wt)
                shutil.copy(patch, os.path.join(src, "patch.orig.diff"))
                open(patch, "w").write(newdiff)
                res["rebased"] = True
                rc = 0
            else:
                sh("git checkout -- . && git reset -q", cwd=wt)
        res["applies"] = rc == 0
        if rc != 0:
            res["apply_err"] = out[-400:]
            return res
        rc, out = sh("go build ./...", cwd=wt)
        res["builds"] = rc == 0
        rc, out = sh("python3 %s/tools/baseline.py %s" % (V, wt), timeout=2400)
        res["suite"] = out.strip().splitlines()[-1] if out.strip() else ""
        res["suite_passes"] = "failed=0" in res["suite"] and "missing_from_pass=0" in res["suite"]
        shutil.copy(demo, os.path.join(wt, "zz_mutant_demo_test.go"))
        rc, out = sh("go test -vet=off -count=1 -run '^TestMutantDemo$' .", cwd=wt, timeout=1200)
        res["demo_fails_with_mutant"] = rc != 0
        res["demo_mut_tail"] = out[-600:]
    finally:
        sh("git -C /repo worktree remove --force %s" % wt)
        shutil.rmtree(wt, ignore_errors=True)
    return res


def do_import(src, name):
    dst = os.path.join(SEEDED, name)
    os.makedirs(dst, exist_ok=True)
    for f in ("patch.diff", "demo_test.go", "meta.json"):
        if os.path.exists(os.path.join(src, f)):
            shutil.copy(os.path.join(src, f), os.path.join(dst, f if f != "demo_test.go" else "demo_test.go.txt"))
    return dst


def evaluate(name, checks, tier, budget, procs=0):
    """Apply the change to a scratch worktree of /repo's HEAD (never to /repo itself), point the checks at it with
    VERIF_REPO and send their evidence/replays to a scratch directory with VERIF_OUTDIR; remove both afterwards."""
    d = os.path.join(SEEDED, name)
    patch = os.path.join(d, "patch.diff")
    wt = "/tmp/evalwt-%s" % name
    outdir = "/tmp/evalout-%s" % name
    sh("git -C /repo worktree remove --force %s" % wt)
    shutil.rmtree(wt, ignore_errors=True)
    shutil.rmtree(outdir, ignore_errors=True)
    rc, out = sh("git -C /repo worktree add --detach %s HEAD -q" % wt)
    if rc != 0:
        print("cannot create worktree:", out)
        sys.exit(2)
    results = []
    try:
        rc, out = sh("git apply %s" % patch, cwd=wt)
        if rc != 0:
            # /repo has moved on (a later "fix:" commit touched nearby lines): three-way merge, and the merged
            # tree must still build
            rc, out = sh("git apply -3 %s" % patch, cwd=wt)
            if rc == 0:
                rc, out = sh("go build ./...", cwd=wt)
            if rc != 0:
                print("patch does not apply:", out)
                sys.exit(2)
        os.makedirs(outdir)
        for c in checks:
            t0 = time.time()
            cmd = "VERIF_REPO=%s VERIF_OUTDIR=%s ./check %s --tier %s" % (wt, outdir, c, tier) + (" --budget %d" % budget if budget else "") + (" --procs %d" % procs if procs else "")
            rc, out = sh(cmd, cwd=V, timeout=7200)
            vio = [l for l in out.splitlines() if l.startswith("VIOLATION")]
            sigs = sorted(set(re.findall(r"violation (\S+):", out)))
            results.append({"check": c, "tier": tier, "budget": budget, "exit": rc, "caught": rc == 1 and bool(vio), "violations": vio[:5], "signatures": sigs[:12],
                            "wall_s": round(time.time() - t0, 1), "tail": out[-300:] if rc not in (0, 1) else ""})
            for l in vio[:1]:
                m = re.search(r"replay=(\S+)", l)
                if m and os.path.exists(m.group(1)):
                    shutil.copy(m.group(1), os.path.join(d, "replay-%s.json" % c))
            print(name, c, "exit", rc, "caught" if (rc == 1 and vio) else "MISSED" if rc == 0 else "INFRA", sigs[:4], flush=True)
    finally:
        sh("git -C /repo worktree remove --force %s" % wt)
        shutil.rmtree(wt, ignore_errors=True)
        shutil.rmtree(outdir, ignore_errors=True)
    rp = os.path.join(d, "result.json")
    old = json.load(open(rp)) if os.path.exists(rp) else []
    old = [r for r in old if not any(r["check"] == n["check"] and r["tier"] == n["tier"] and (r.get("budget") or 0) == (n.get("budget") or 0) for n in results)] + results
    json.dump(old, open(rp, "w"), indent=1)


def table():
    """Write seeded/TABLE.md (one row per change and check run) and splice a per-change summary into DESIGN.md."""
    rows, per = [], {}
    for name in sorted(os.listdir(SEEDED)):
        rp = os.path.join(SEEDED, name, "result.json")
        mp = os.path.join(SEEDED, name, "meta.json")
        if not os.path.exists(rp):
            continue
        title, trig = "", ""
        try:
            m = json.load(open(mp))
            title, trig = m.get("title", ""), m.get("trigger", "")
        except Exception:
            pass
        own = name.split("-")[0]
        for r in json.load(open(rp)):
            st = "caught" if r["caught"] else ("missed" if r["exit"] == 0 else "infra")
            rows.append((name, r["check"], r["tier"], st, ", ".join(r["signatures"][:2]), title))
            e = per.setdefault(name, {"title": title, "caught_by": [], "missed_by": [], "sigs": {}})
            label = r["check"] + ("" if r["tier"] == "quick" and not r.get("budget") else "(" + r["tier"] + (", %d s" % r["budget"] if r.get("budget") else "") + ")")
            (e["caught_by"] if st == "caught" else e["missed_by"]).append(label)
            if st == "caught":
                e["sigs"][r["check"]] = r["signatures"][0] if r["signatures"] else ""
    with open(os.path.join(SEEDED, "TABLE.md"), "w") as f:
        f.write("| change | check | tier | result | first signatures | what was changed |\n|---|---|---|---|---|---|\n")
        for r in rows:
            f.write("| " + " | ".join(x.replace("|", "/") for x in r) + " |\n")
    lines = ["| change | caught by (signature) | not caught by | what was changed |", "|---|---|---|---|"]
    ncaught = 0
    for name in sorted(per):
        e = per[name]
        if e["caught_by"]:
            ncaught += 1
        cb = "; ".join("%s `%s`" % (c, e["sigs"].get(c.split("(")[0], "")) for c in e["caught_by"]) or "**none**"
        lines.append("| %s | %s | %s | %s |" % (name, cb, ", ".join(e["missed_by"]) or "-", e["title"].replace("|", "/")))
    lines.append("")
    lines.append("%d of %d seeded changes are caught by at least one check at the quick tier unless marked otherwise." % (ncaught, len(per)))
    dp = os.path.join(V, "DESIGN.md")
    ds = open(dp).read()
    b, e_ = "<!-- SEEDED_TABLE_BEGIN -->", "<!-- SEEDED_TABLE_END -->"
    block = b + "\n" + "\n".join(lines) + "\n" + e_
    if "SEEDED_TABLE_PLACEHOLDER" in ds:
        ds = ds.replace("SEEDED_TABLE_PLACEHOLDER", block)
    elif b in ds:
        ds = ds[:ds.index(b)] + block + ds[ds.index(e_) + len(e_):]
    open(dp, "w").write(ds)
    print("%d rows, %d changes, %d caught" % (len(rows), len(per), ncaught))


if __name__ == "__main__":
    a = sys.argv[1:]
    if not a:
        print(__doc__)
        sys.exit(2)
    if a[0] == "confirm":
        print(json.dumps(confirm(a[1]), indent=1))
    elif a[0] == "import":
        print(do_import(a[1], a[2]))
    elif a[0] == "eval":
        name = a[1]
        checks, tier, budget, procs = None, "quick", 0, 0
        i = 2
        while i < len(a):
            if a[i] == "--checks":
                checks = a[i + 1].split(",")
                i += 2
            elif a[i] == "--tier":
                tier = a[i + 1]
                i += 2
            elif a[i] == "--budget":
                budget = int(a[i + 1])
                i += 2
            elif a[i] == "--procs":
                procs = int(a[i + 1])
                i += 2
            else:
                i += 1
        if checks is None:
            checks = [name.split("-")[0]]
        evaluate(name, checks, tier, budget, procs)
    elif a[0] == "table":
        table()
