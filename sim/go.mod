module verif/sim

go 1.26.8

require (
	github.com/absfs/absfs v1.0.0
	github.com/absfs/absnfs v0.0.0
	github.com/anishathalye/porcupine v1.3.0
	golang.org/x/tools v0.50.0
)

require (
	golang.org/x/mod v0.41.0 // indirect
	golang.org/x/sync v0.23.0 // indirect
)

replace github.com/absfs/absnfs => /repo
