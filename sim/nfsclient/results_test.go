package nfsclient

import (
	"bytes"
	"reflect"
	"strings"
	"testing"
)

var (
	tFattr = &Fattr3{Type: NF3REG, Mode: 0644, Nlink: 1, UID: 1000, GID: 100, Size: 12345, Used: 16384,
		Rdev1: 0, Rdev2: 0, Fsid: 0xabcdef, Fileid: 42, Atime: NFSTime{1, 2}, Mtime: NFSTime{3, 4}, Ctime: NFSTime{5, 6}}
	tDirAttr = &Fattr3{Type: NF3DIR, Mode: 0755, Nlink: 2, UID: 0, GID: 0, Size: 4096, Used: 4096,
		Fsid: 0xabcdef, Fileid: 2, Atime: NFSTime{7, 8}, Mtime: NFSTime{9, 10}, Ctime: NFSTime{11, 12}}
	tPre  = &WccAttr{Size: 4096, Mtime: NFSTime{9, 9}, Ctime: NFSTime{8, 8}}
	tWcc  = WccData{Before: tPre, After: tDirAttr}
	tWcc0 = WccData{}
	tFH   = []byte("fh-0123456789abcdef!") // 20 bytes
	tFH2  = []byte("fh7")                  // needs 1 pad byte
	tVerf = [8]byte{0xa, 0xb, 0xc, 0xd, 0xe, 0xf, 0x1, 0x2}
)

type sample struct {
	name string
	proc uint32
	b    []byte
	want any
}

func enc(f func(e *Enc)) []byte {
	e := &Enc{}
	f(e)
	return e.B
}

func putEntries(e *Enc, ents []DirEntry, plus bool, eof bool) {
	for _, en := range ents {
		e.Bool(true)
		e.U64(en.Fileid)
		e.String(en.Name)
		e.U64(en.Cookie)
		if plus {
			PutPostOpAttr(e, en.Attr)
			PutPostOpFH(e, en.FH)
		}
	}
	e.Bool(false)
	e.Bool(eof)
}

func nfsSamples() []sample {
	ents := []DirEntry{{Fileid: 2, Name: ".", Cookie: 1}, {Fileid: 1, Name: "..", Cookie: 2}, {Fileid: 42, Name: "hello.txt", Cookie: 3}}
	entsPlus := []DirEntry{
		{Fileid: 2, Name: ".", Cookie: 1, Attr: tDirAttr, FH: tFH},
		{Fileid: 42, Name: "hello", Cookie: 2, Attr: nil, FH: tFH2},
		{Fileid: 43, Name: "x", Cookie: 3, Attr: tFattr, FH: nil},
	}
	s := []sample{
		{"null", NFSProcNull, nil, &NullRes{}},
		{"getattr-ok", NFSProcGetattr, enc(func(e *Enc) { e.U32(NFS3_OK); tFattr.Encode(e) }), &GetattrRes{Status: 0, Attr: tFattr}},
		{"getattr-err", NFSProcGetattr, enc(func(e *Enc) { e.U32(NFS3ERR_STALE) }), &GetattrRes{Status: NFS3ERR_STALE}},
		{"setattr-ok", NFSProcSetattr, enc(func(e *Enc) { e.U32(NFS3_OK); tWcc.Encode(e) }), &SetattrRes{Status: 0, Wcc: tWcc}},
		{"setattr-err", NFSProcSetattr, enc(func(e *Enc) { e.U32(NFS3ERR_NOT_SYNC); tWcc0.Encode(e) }), &SetattrRes{Status: NFS3ERR_NOT_SYNC}},
		{"lookup-ok", NFSProcLookup, enc(func(e *Enc) {
			e.U32(NFS3_OK)
			e.Opaque(tFH2)
			PutPostOpAttr(e, tFattr)
			PutPostOpAttr(e, tDirAttr)
		}), &LookupRes{Status: 0, FH: tFH2, Attr: tFattr, DirAttr: tDirAttr}},
		{"lookup-ok-noattr", NFSProcLookup, enc(func(e *Enc) {
			e.U32(NFS3_OK)
			e.Opaque(tFH)
			PutPostOpAttr(e, nil)
			PutPostOpAttr(e, nil)
		}), &LookupRes{Status: 0, FH: tFH}},
		{"lookup-err", NFSProcLookup, enc(func(e *Enc) { e.U32(NFS3ERR_NOENT); PutPostOpAttr(e, tDirAttr) }), &LookupRes{Status: NFS3ERR_NOENT, DirAttr: tDirAttr}},
		{"access-ok", NFSProcAccess, enc(func(e *Enc) { e.U32(NFS3_OK); PutPostOpAttr(e, tFattr); e.U32(0x1f) }), &AccessRes{Status: 0, Attr: tFattr, Access: 0x1f}},
		{"access-err", NFSProcAccess, enc(func(e *Enc) { e.U32(NFS3ERR_IO); PutPostOpAttr(e, nil) }), &AccessRes{Status: NFS3ERR_IO}},
		{"readlink-ok", NFSProcReadlink, enc(func(e *Enc) { e.U32(NFS3_OK); PutPostOpAttr(e, tFattr); e.String("/a/b") }), &ReadlinkRes{Status: 0, Attr: tFattr, Target: "/a/b"}},
		{"readlink-err", NFSProcReadlink, enc(func(e *Enc) { e.U32(NFS3ERR_INVAL); PutPostOpAttr(e, tFattr) }), &ReadlinkRes{Status: NFS3ERR_INVAL, Attr: tFattr}},
		{"read-ok", NFSProcRead, enc(func(e *Enc) {
			e.U32(NFS3_OK)
			PutPostOpAttr(e, tFattr)
			e.U32(5)
			e.Bool(true)
			e.Opaque([]byte("hello"))
		}), &ReadRes{Status: 0, Attr: tFattr, Count: 5, EOF: true, Data: []byte("hello")}},
		{"read-ok-empty", NFSProcRead, enc(func(e *Enc) {
			e.U32(NFS3_OK)
			PutPostOpAttr(e, nil)
			e.U32(0)
			e.Bool(false)
			e.Opaque(nil)
		}), &ReadRes{Status: 0, Data: []byte{}}},
		{"read-err", NFSProcRead, enc(func(e *Enc) { e.U32(NFS3ERR_ACCES); PutPostOpAttr(e, tFattr) }), &ReadRes{Status: NFS3ERR_ACCES, Attr: tFattr}},
		{"write-ok", NFSProcWrite, enc(func(e *Enc) {
			e.U32(NFS3_OK)
			tWcc.Encode(e)
			e.U32(4096)
			e.U32(FileSync)
			e.Fixed(tVerf[:])
		}), &WriteRes{Status: 0, Wcc: tWcc, Count: 4096, Committed: FileSync, Verf: tVerf}},
		{"write-err", NFSProcWrite, enc(func(e *Enc) { e.U32(NFS3ERR_NOSPC); tWcc.Encode(e) }), &WriteRes{Status: NFS3ERR_NOSPC, Wcc: tWcc}},
	}
	for _, p := range []uint32{NFSProcCreate, NFSProcMkdir, NFSProcSymlink, NFSProcMknod} {
		n := NFSProcName(p)
		s = append(s,
			sample{n + "-ok", p, enc(func(e *Enc) {
				e.U32(NFS3_OK)
				PutPostOpFH(e, tFH)
				PutPostOpAttr(e, tFattr)
				tWcc.Encode(e)
			}), &CreateRes{Status: 0, FH: tFH, Attr: tFattr, DirWcc: tWcc}},
			sample{n + "-ok-nofh", p, enc(func(e *Enc) {
				e.U32(NFS3_OK)
				PutPostOpFH(e, nil)
				PutPostOpAttr(e, nil)
				tWcc0.Encode(e)
			}), &CreateRes{Status: 0}},
			sample{n + "-err", p, enc(func(e *Enc) { e.U32(NFS3ERR_EXIST); tWcc.Encode(e) }), &CreateRes{Status: NFS3ERR_EXIST, DirWcc: tWcc}},
		)
	}
	for _, p := range []uint32{NFSProcRemove, NFSProcRmdir} {
		n := NFSProcName(p)
		s = append(s,
			sample{n + "-ok", p, enc(func(e *Enc) { e.U32(NFS3_OK); tWcc.Encode(e) }), &RemoveRes{Status: 0, DirWcc: tWcc}},
			sample{n + "-err", p, enc(func(e *Enc) { e.U32(NFS3ERR_NOTEMPTY); tWcc0.Encode(e) }), &RemoveRes{Status: NFS3ERR_NOTEMPTY}},
		)
	}
	half := WccData{After: tDirAttr}
	s = append(s,
		sample{"rename-ok", NFSProcRename, enc(func(e *Enc) { e.U32(NFS3_OK); tWcc.Encode(e); half.Encode(e) }), &RenameRes{Status: 0, FromWcc: tWcc, ToWcc: half}},
		sample{"rename-err", NFSProcRename, enc(func(e *Enc) { e.U32(NFS3ERR_XDEV); tWcc0.Encode(e); tWcc0.Encode(e) }), &RenameRes{Status: NFS3ERR_XDEV}},
		sample{"link-ok", NFSProcLink, enc(func(e *Enc) { e.U32(NFS3_OK); PutPostOpAttr(e, tFattr); tWcc.Encode(e) }), &LinkRes{Status: 0, Attr: tFattr, DirWcc: tWcc}},
		sample{"link-err", NFSProcLink, enc(func(e *Enc) { e.U32(NFS3ERR_MLINK); PutPostOpAttr(e, nil); tWcc0.Encode(e) }), &LinkRes{Status: NFS3ERR_MLINK}},
		sample{"readdir-ok", NFSProcReaddir, enc(func(e *Enc) {
			e.U32(NFS3_OK)
			PutPostOpAttr(e, tDirAttr)
			e.Fixed(tVerf[:])
			putEntries(e, ents, false, true)
		}), &ReaddirRes{Status: 0, DirAttr: tDirAttr, Verf: tVerf, Entries: ents, EOF: true}},
		sample{"readdir-ok-empty", NFSProcReaddir, enc(func(e *Enc) {
			e.U32(NFS3_OK)
			PutPostOpAttr(e, nil)
			e.Fixed(tVerf[:])
			putEntries(e, nil, false, false)
		}), &ReaddirRes{Status: 0, Verf: tVerf}},
		sample{"readdir-err", NFSProcReaddir, enc(func(e *Enc) { e.U32(NFS3ERR_BAD_COOKIE); PutPostOpAttr(e, tDirAttr) }), &ReaddirRes{Status: NFS3ERR_BAD_COOKIE, DirAttr: tDirAttr}},
		sample{"readdirplus-ok", NFSProcReaddirplus, enc(func(e *Enc) {
			e.U32(NFS3_OK)
			PutPostOpAttr(e, tDirAttr)
			e.Fixed(tVerf[:])
			putEntries(e, entsPlus, true, false)
		}), &ReaddirRes{Status: 0, DirAttr: tDirAttr, Verf: tVerf, Entries: entsPlus, EOF: false}},
		sample{"readdirplus-err", NFSProcReaddirplus, enc(func(e *Enc) { e.U32(NFS3ERR_TOOSMALL); PutPostOpAttr(e, nil) }), &ReaddirRes{Status: NFS3ERR_TOOSMALL}},
		sample{"fsstat-ok", NFSProcFsstat, enc(func(e *Enc) {
			e.U32(NFS3_OK)
			PutPostOpAttr(e, tDirAttr)
			for _, v := range []uint64{100, 90, 80, 70, 60, 50} {
				e.U64(v)
			}
			e.U32(30)
		}), &FsstatRes{Status: 0, Attr: tDirAttr, Tbytes: 100, Fbytes: 90, Abytes: 80, Tfiles: 70, Ffiles: 60, Afiles: 50, Invarsec: 30}},
		sample{"fsstat-err", NFSProcFsstat, enc(func(e *Enc) { e.U32(NFS3ERR_BADHANDLE); PutPostOpAttr(e, nil) }), &FsstatRes{Status: NFS3ERR_BADHANDLE}},
		sample{"fsinfo-ok", NFSProcFsinfo, enc(func(e *Enc) {
			e.U32(NFS3_OK)
			PutPostOpAttr(e, tDirAttr)
			for _, v := range []uint32{1, 2, 3, 4, 5, 6, 7} {
				e.U32(v)
			}
			e.U64(1 << 50)
			e.U32(0)
			e.U32(1000)
			e.U32(0x1b)
		}), &FsinfoRes{Status: 0, Attr: tDirAttr, Rtmax: 1, Rtpref: 2, Rtmult: 3, Wtmax: 4, Wtpref: 5, Wtmult: 6, Dtpref: 7,
			Maxfilesize: 1 << 50, TimeDelta: NFSTime{0, 1000}, Properties: 0x1b}},
		sample{"fsinfo-err", NFSProcFsinfo, enc(func(e *Enc) { e.U32(NFS3ERR_SERVERFAULT); PutPostOpAttr(e, tDirAttr) }), &FsinfoRes{Status: NFS3ERR_SERVERFAULT, Attr: tDirAttr}},
		sample{"pathconf-ok", NFSProcPathconf, enc(func(e *Enc) {
			e.U32(NFS3_OK)
			PutPostOpAttr(e, nil)
			e.U32(32000)
			e.U32(255)
			e.Bool(true)
			e.Bool(false)
			e.Bool(false)
			e.Bool(true)
		}), &PathconfRes{Status: 0, Linkmax: 32000, NameMax: 255, NoTrunc: true, CasePreserving: true}},
		sample{"pathconf-err", NFSProcPathconf, enc(func(e *Enc) { e.U32(NFS3ERR_JUKEBOX); PutPostOpAttr(e, nil) }), &PathconfRes{Status: NFS3ERR_JUKEBOX}},
		sample{"commit-ok", NFSProcCommit, enc(func(e *Enc) { e.U32(NFS3_OK); tWcc.Encode(e); e.Fixed(tVerf[:]) }), &CommitRes{Status: 0, Wcc: tWcc, Verf: tVerf}},
		sample{"commit-err", NFSProcCommit, enc(func(e *Enc) { e.U32(NFS3ERR_IO); tWcc0.Encode(e) }), &CommitRes{Status: NFS3ERR_IO}},
	)
	return s
}

func TestDecodeNFSAccepts(t *testing.T) {
	seen := map[uint32]bool{}
	for _, s := range nfsSamples() {
		seen[s.proc] = true
		got, err := DecodeNFS(s.proc, s.b)
		if err != nil {
			t.Errorf("%s: %v", s.name, err)
			continue
		}
		if !reflect.DeepEqual(got, s.want) {
			t.Errorf("%s:\n got %+v\nwant %+v", s.name, got, s.want)
		}
	}
	for p := uint32(0); p <= NFSProcCommit; p++ {
		if !seen[p] {
			t.Errorf("no sample for proc %d", p)
		}
	}
	if _, err := DecodeNFS(22, nil); err == nil {
		t.Error("unknown proc accepted")
	}
}

// A GETATTR3resok written out byte by byte, independent of Enc.
func TestGetattrLiteral(t *testing.T) {
	b := []byte{
		0, 0, 0, 0, // NFS3_OK
		0, 0, 0, 2, // NF3DIR
		0, 0, 1, 0xed, // mode 0755
		0, 0, 0, 3, // nlink
		0, 0, 0, 10, // uid
		0, 0, 0, 20, // gid
		0, 0, 0, 1, 0, 0, 0, 0, // size 2^32
		0, 0, 0, 0, 0, 0, 0x10, 0, // used 4096
		0, 0, 0, 8, 0, 0, 0, 9, // rdev
		0, 0, 0, 0, 0, 0, 0, 7, // fsid
		0, 0, 0, 0, 0, 0, 0, 0x2a, // fileid
		0, 0, 0, 1, 0, 0, 0, 2, // atime
		0, 0, 0, 3, 0, 0, 0, 4, // mtime
		0, 0, 0, 5, 0, 0, 0, 6, // ctime
	}
	got, err := DecodeNFS(NFSProcGetattr, b)
	if err != nil {
		t.Fatal(err)
	}
	want := &GetattrRes{Attr: &Fattr3{Type: NF3DIR, Mode: 0755, Nlink: 3, UID: 10, GID: 20, Size: 1 << 32, Used: 4096,
		Rdev1: 8, Rdev2: 9, Fsid: 7, Fileid: 42, Atime: NFSTime{1, 2}, Mtime: NFSTime{3, 4}, Ctime: NFSTime{5, 6}}}
	if !reflect.DeepEqual(got, want) {
		t.Fatalf("got %+v", got.(*GetattrRes).Attr)
	}
	if len(b) != 4+Fattr3Size {
		t.Fatalf("Fattr3Size mismatch: %d", len(b)-4)
	}
}

func TestDecodeNFSRejectsPrefixesAndTrailing(t *testing.T) {
	for _, s := range nfsSamples() {
		for i := 0; i < len(s.b); i++ {
			if _, err := DecodeNFS(s.proc, s.b[:i]); err == nil {
				t.Errorf("%s: prefix of length %d/%d accepted", s.name, i, len(s.b))
			}
		}
		for _, extra := range [][]byte{{0}, {0, 0, 0, 0}, {0, 0, 0, 1}, {0, 0, 0, 0, 0, 0, 0, 0}} {
			if _, err := DecodeNFS(s.proc, append(append([]byte{}, s.b...), extra...)); err == nil {
				t.Errorf("%s: %d trailing bytes accepted", s.name, len(extra))
			} else if len(s.b) > 0 && len(extra) == 1 && !strings.Contains(err.Error(), "trailing") && !strings.Contains(err.Error(), "short buffer") {
				t.Errorf("%s: undescriptive error %v", s.name, err)
			}
		}
	}
}

func TestDecodeNFSRejectsBadStatus(t *testing.T) {
	for _, st := range []uint32{3, 4, 7, 12, 14, 23, 64, 72, 10000, 10009, 10013, 0xffffffff} {
		if ValidNFSStat(st) {
			t.Errorf("ValidNFSStat(%d) = true", st)
		}
		for _, s := range nfsSamples() {
			if len(s.b) < 4 {
				continue
			}
			b := append([]byte{}, s.b...)
			b[0], b[1], b[2], b[3] = byte(st>>24), byte(st>>16), byte(st>>8), byte(st)
			if _, err := DecodeNFS(s.proc, b); err == nil {
				t.Errorf("%s: status %d accepted", s.name, st)
			}
		}
	}
	n := 0
	for st := uint32(0); st < 20000; st++ {
		if ValidNFSStat(st) {
			n++
			if strings.HasPrefix(NFSStatName(st), "nfsstat3(") {
				t.Errorf("no name for %d", st)
			}
		}
	}
	if n != 29 {
		t.Errorf("nfsstat3 has %d members, want 29", n)
	}
	if NFSStatName(4) != "nfsstat3(4)" || NFSStatName(NFS3ERR_JUKEBOX) != "NFS3ERR_JUKEBOX" {
		t.Error("NFSStatName")
	}
}

// swapping the status word between the OK and an error value must make every
// sample whose two arms differ fail: resok body on error status and vice versa.
func TestDecodeNFSRejectsWrongArm(t *testing.T) {
	sameArms := map[uint32]bool{NFSProcSetattr: true, NFSProcRemove: true, NFSProcRmdir: true, NFSProcRename: true, NFSProcLink: true}
	for _, s := range nfsSamples() {
		if len(s.b) < 4 || sameArms[s.proc] {
			continue
		}
		b := append([]byte{}, s.b...)
		if b[0]|b[1]|b[2]|b[3] == 0 {
			b[3] = NFS3ERR_IO // resok body on error status
		} else {
			b[0], b[1], b[2], b[3] = 0, 0, 0, 0 // resfail body on NFS3_OK
		}
		if _, err := DecodeNFS(s.proc, b); err == nil {
			t.Errorf("%s: wrong union arm accepted", s.name)
		}
	}
}

// mutate every 4-byte word of every sample to probe bool / enum / padding
// strictness systematically: setting a bool word to 2 must always fail.
func TestDecodeNFSRejectsBadBoolEnumPad(t *testing.T) {
	type mut struct {
		name string
		proc uint32
		b    []byte
	}
	word := func(v uint32) []byte { return []byte{byte(v >> 24), byte(v >> 16), byte(v >> 8), byte(v)} }
	var muts []mut
	add := func(name string, proc uint32, f func(e *Enc)) { muts = append(muts, mut{name, proc, enc(f)}) }

	add("post_op_attr bool 2", NFSProcAccess, func(e *Enc) { e.U32(NFS3ERR_IO); e.U32(2) })
	add("pre_op_attr bool 2", NFSProcSetattr, func(e *Enc) { e.U32(0); e.U32(2); e.U32(0) })
	add("wcc after bool 7", NFSProcSetattr, func(e *Enc) { e.U32(0); e.U32(0); e.U32(7) })
	add("read eof 2", NFSProcRead, func(e *Enc) { e.U32(0); e.Bool(false); e.U32(0); e.U32(2); e.Opaque(nil) })
	add("handle_follows 2", NFSProcCreate, func(e *Enc) { e.U32(0); e.U32(2); e.Bool(false); tWcc0.Encode(e) })
	add("readdir value_follows 2", NFSProcReaddir, func(e *Enc) { e.U32(0); e.Bool(false); e.Fixed(tVerf[:]); e.U32(2); e.Bool(true) })
	add("readdir eof 2", NFSProcReaddir, func(e *Enc) { e.U32(0); e.Bool(false); e.Fixed(tVerf[:]); e.Bool(false); e.U32(2) })
	add("pathconf no_trunc 2", NFSProcPathconf, func(e *Enc) {
		e.U32(0)
		e.Bool(false)
		e.U32(1)
		e.U32(1)
		e.U32(2)
		e.Bool(false)
		e.Bool(false)
		e.Bool(false)
	})
	add("pathconf case_preserving 0x100", NFSProcPathconf, func(e *Enc) {
		e.U32(0)
		e.Bool(false)
		e.U32(1)
		e.U32(1)
		e.Bool(false)
		e.Bool(false)
		e.Bool(false)
		e.U32(0x100)
	})
	bt := *tFattr
	bt.Type = 0
	add("ftype 0", NFSProcGetattr, func(e *Enc) { e.U32(0); bt.Encode(e) })
	bt8 := *tFattr
	bt8.Type = 8
	add("ftype 8", NFSProcGetattr, func(e *Enc) { e.U32(0); bt8.Encode(e) })
	add("ftype 8 in post_op_attr", NFSProcAccess, func(e *Enc) { e.U32(0); PutPostOpAttr(e, &bt8); e.U32(0) })
	add("committed 3", NFSProcWrite, func(e *Enc) { e.U32(0); tWcc0.Encode(e); e.U32(1); e.U32(3); e.Fixed(tVerf[:]) })
	add("fh 65 bytes", NFSProcLookup, func(e *Enc) { e.U32(0); e.Opaque(make([]byte, 65)); e.Bool(false); e.Bool(false) })
	add("post_op_fh3 68 bytes", NFSProcMkdir, func(e *Enc) { e.U32(0); e.Bool(true); e.Opaque(make([]byte, 68)); e.Bool(false); tWcc0.Encode(e) })
	add("fh padding", NFSProcLookup, func(e *Enc) { e.U32(0); e.Raw(word(3)); e.Raw([]byte{1, 2, 3, 4}); e.Bool(false); e.Bool(false) })
	add("readlink padding", NFSProcReadlink, func(e *Enc) { e.U32(0); e.Bool(false); e.Raw(word(1)); e.Raw([]byte{'a', 0, 0, 1}) })
	add("read data padding", NFSProcRead, func(e *Enc) {
		e.U32(0)
		e.Bool(false)
		e.U32(2)
		e.Bool(true)
		e.Raw(word(2))
		e.Raw([]byte{1, 2, 0xff, 0})
	})
	add("entry name padding", NFSProcReaddir, func(e *Enc) {
		e.U32(0)
		e.Bool(false)
		e.Fixed(tVerf[:])
		e.Bool(true)
		e.U64(1)
		e.Raw(word(1))
		e.Raw([]byte{'a', 'b', 0, 0})
		e.U64(1)
		e.Bool(false)
		e.Bool(true)
	})
	add("name too long", NFSProcReaddir, func(e *Enc) {
		e.U32(0)
		e.Bool(false)
		e.Fixed(tVerf[:])
		e.Bool(true)
		e.U64(1)
		e.String(strings.Repeat("n", MaxNameDecode+1))
		e.U64(1)
		e.Bool(false)
		e.Bool(true)
	})
	add("data length beyond buffer", NFSProcRead, func(e *Enc) { e.U32(0); e.Bool(false); e.U32(0); e.Bool(true); e.U32(0x7fffffff) })
	add("getattr err with attrs", NFSProcGetattr, func(e *Enc) { e.U32(NFS3ERR_NOENT); tFattr.Encode(e) })
	add("null with body", NFSProcNull, func(e *Enc) { e.U32(0) })
	add("plus entry in plain readdir", NFSProcReaddir, func(e *Enc) {
		e.U32(0)
		e.Bool(false)
		e.Fixed(tVerf[:])
		putEntries(e, []DirEntry{{Fileid: 1, Name: "a", Cookie: 1, Attr: tFattr, FH: tFH}}, true, true)
	})
	add("plain entry in readdirplus", NFSProcReaddirplus, func(e *Enc) {
		e.U32(0)
		e.Bool(false)
		e.Fixed(tVerf[:])
		putEntries(e, []DirEntry{{Fileid: 1, Name: "a", Cookie: 1}}, false, true)
	})
	for _, m := range muts {
		_, err := DecodeNFS(m.proc, m.b)
		if err == nil {
			t.Errorf("%s: accepted", m.name)
		}
	}
	// a 4096-byte name is still accepted and its length is visible.
	okLong := enc(func(e *Enc) {
		e.U32(0)
		e.Bool(false)
		e.Fixed(tVerf[:])
		putEntries(e, []DirEntry{{Fileid: 1, Name: strings.Repeat("n", MaxNameDecode), Cookie: 1}}, false, true)
	})
	r, err := DecodeNFS(NFSProcReaddir, okLong)
	if err != nil || len(r.(*ReaddirRes).Entries[0].Name) != MaxNameDecode {
		t.Errorf("4096-byte name: %v", err)
	}
	// 64-byte handle is the maximum legal
	ok64 := enc(func(e *Enc) { e.U32(0); e.Opaque(make([]byte, 64)); e.Bool(false); e.Bool(false) })
	if _, err := DecodeNFS(NFSProcLookup, ok64); err != nil {
		t.Errorf("64-byte fh: %v", err)
	}

	// systematic: set each 0/1 word of each valid sample to 2. A lax bool
	// decoder would treat 2 like 1 (or 0) and produce the very same value;
	// a plain integer field keeps the numeric difference. So an accepted
	// mutation must decode to something different from both the 0 and the
	// 1 variant.
	for _, s := range nfsSamples() {
		for off := 4; off+4 <= len(s.b); off += 4 {
			w := s.b[off : off+4]
			if w[0] != 0 || w[1] != 0 || w[2] != 0 || w[3] > 1 {
				continue
			}
			b := append([]byte{}, s.b...)
			b[off+3] = 2
			got2, err := DecodeNFS(s.proc, b)
			if err != nil {
				continue
			}
			for v := byte(0); v <= 1; v++ {
				b[off+3] = v
				gotv, errv := DecodeNFS(s.proc, b)
				if errv == nil && reflect.DeepEqual(got2, gotv) {
					t.Errorf("%s: word at offset %d: value 2 decodes like %d (lax bool)", s.name, off, v)
				}
			}
		}
	}
}

func TestReaddirEncodedSize(t *testing.T) {
	for _, s := range nfsSamples() {
		if s.proc != NFSProcReaddir && s.proc != NFSProcReaddirplus {
			continue
		}
		r := s.want.(*ReaddirRes)
		if r.Status != NFS3_OK {
			continue
		}
		plus := s.proc == NFSProcReaddirplus
		total, dirBytes := r.EncodedSize(plus)
		if total != len(s.b)-4 {
			t.Errorf("%s: EncodedSize total %d, wire resok %d", s.name, total, len(s.b)-4)
		}
		want := 0
		for _, en := range r.Entries {
			want += 8 + 4 + (len(en.Name)+3)/4*4 + 8
		}
		if dirBytes != want {
			t.Errorf("%s: dirBytes %d want %d", s.name, dirBytes, want)
		}
	}
	// hand-computed: no dir attrs, one entry "abcde" (8 bytes padded)
	r := &ReaddirRes{Entries: []DirEntry{{Fileid: 1, Name: "abcde", Cookie: 1}}}
	total, dirBytes := r.EncodedSize(false)
	if total != 4+8+(4+8+12+8)+4+4 || dirBytes != 28 {
		t.Errorf("plain: %d %d", total, dirBytes)
	}
	r.Entries[0].Attr = tFattr
	r.Entries[0].FH = []byte{1, 2, 3, 4, 5}
	total, dirBytes = r.EncodedSize(true)
	if total != 4+8+(4+8+12+8+(4+84)+(4+4+8))+4+4 || dirBytes != 28 {
		t.Errorf("plus: %d %d", total, dirBytes)
	}
}

// ---------------------------------------------------------------------------
// MOUNT
// ---------------------------------------------------------------------------

type vsample struct {
	name       string
	vers, proc uint32
	b          []byte
	want       any
}

func mountSamples() []vsample {
	fh32 := bytes.Repeat([]byte{0x5a}, 32)
	return []vsample{
		{"null", 3, MountProcNull, nil, &NullRes{}},
		{"umnt", 3, MountProcUmnt, nil, &NullRes{}},
		{"umntall", 3, MountProcUmntAll, nil, &NullRes{}},
		{"mnt-ok", 3, MountProcMnt, enc(func(e *Enc) { e.U32(0); e.Opaque(tFH2); e.U32(2); e.U32(AuthFlavorSys); e.U32(AuthFlavorNone) }),
			&MntRes{Status: 0, FH: tFH2, Flavors: []uint32{1, 0}}},
		{"mnt-ok-noflavors", 3, MountProcMnt, enc(func(e *Enc) { e.U32(0); e.Opaque(tFH); e.U32(0) }),
			&MntRes{Status: 0, FH: tFH, Flavors: []uint32{}}},
		{"mnt-err", 3, MountProcMnt, enc(func(e *Enc) { e.U32(MNT3ERR_ACCES) }), &MntRes{Status: MNT3ERR_ACCES}},
		{"dump", 3, MountProcDump, enc(func(e *Enc) {
			e.Bool(true)
			e.String("client1")
			e.String("/export")
			e.Bool(true)
			e.String("c2")
			e.String("/e/2")
			e.Bool(false)
		}), []MountEntry{{"client1", "/export"}, {"c2", "/e/2"}}},
		{"dump-empty", 3, MountProcDump, enc(func(e *Enc) { e.Bool(false) }), []MountEntry{}},
		{"export", 3, MountProcExport, enc(func(e *Enc) {
			e.Bool(true)
			e.String("/export")
			e.Bool(true)
			e.String("10.0.0.0/8")
			e.Bool(true)
			e.String("host")
			e.Bool(false)
			e.Bool(true)
			e.String("/pub")
			e.Bool(false)
			e.Bool(false)
		}), []ExportEntry{{"/export", []string{"10.0.0.0/8", "host"}}, {"/pub", nil}}},
		{"export-empty", 1, MountProcExport, enc(func(e *Enc) { e.Bool(false) }), []ExportEntry{}},
		{"v1-mnt-ok", 1, MountProcMnt, enc(func(e *Enc) { e.U32(0); e.Fixed(fh32) }), &MntRes{Status: 0, FH: fh32}},
		{"v1-mnt-err", 1, MountProcMnt, enc(func(e *Enc) { e.U32(13) }), &MntRes{Status: 13}},
		{"v1-mnt-errno", 1, MountProcMnt, enc(func(e *Enc) { e.U32(4) }), &MntRes{Status: 4}},
	}
}

func TestDecodeMount(t *testing.T) {
	for _, s := range mountSamples() {
		got, err := DecodeMount(s.vers, s.proc, s.b)
		if err != nil {
			t.Errorf("%s: %v", s.name, err)
			continue
		}
		if !reflect.DeepEqual(got, s.want) {
			t.Errorf("%s:\n got %#v\nwant %#v", s.name, got, s.want)
		}
		for i := 0; i < len(s.b); i++ {
			if _, err := DecodeMount(s.vers, s.proc, s.b[:i]); err == nil {
				t.Errorf("%s: prefix %d accepted", s.name, i)
			}
		}
		if _, err := DecodeMount(s.vers, s.proc, append(append([]byte{}, s.b...), 0, 0, 0, 0)); err == nil {
			t.Errorf("%s: trailing accepted", s.name)
		}
	}
	bad := []vsample{
		{"status 4", 3, MountProcMnt, enc(func(e *Enc) { e.U32(4) }), nil},
		{"status 10001", 3, MountProcMnt, enc(func(e *Enc) { e.U32(10001) }), nil},
		{"err with body", 3, MountProcMnt, enc(func(e *Enc) { e.U32(MNT3ERR_NOENT); e.Opaque(tFH); e.U32(0) }), nil},
		{"ok without body", 3, MountProcMnt, enc(func(e *Enc) { e.U32(0) }), nil},
		{"fh 65", 3, MountProcMnt, enc(func(e *Enc) { e.U32(0); e.Opaque(make([]byte, 65)); e.U32(0) }), nil},
		{"fh pad", 3, MountProcMnt, enc(func(e *Enc) { e.U32(0); e.Raw([]byte{0, 0, 0, 1, 9, 0, 9, 0}); e.U32(0) }), nil},
		{"flavor count huge", 3, MountProcMnt, enc(func(e *Enc) { e.U32(0); e.Opaque(tFH); e.U32(0x40000001); e.U32(1) }), nil},
		{"flavor count short", 3, MountProcMnt, enc(func(e *Enc) { e.U32(0); e.Opaque(tFH); e.U32(2); e.U32(1) }), nil},
		{"dump bool 2", 3, MountProcDump, enc(func(e *Enc) { e.U32(2) }), nil},
		{"dump name 256", 3, MountProcDump, enc(func(e *Enc) { e.Bool(true); e.String(strings.Repeat("h", 256)); e.String("/"); e.Bool(false) }), nil},
		{"export path 1025", 3, MountProcExport, enc(func(e *Enc) { e.Bool(true); e.String(strings.Repeat("p", 1025)); e.Bool(false); e.Bool(false) }), nil},
		{"export group bool 3", 3, MountProcExport, enc(func(e *Enc) { e.Bool(true); e.String("/"); e.U32(3); e.Bool(false) }), nil},
		{"v1 ok short fh", 1, MountProcMnt, enc(func(e *Enc) { e.U32(0); e.Fixed(make([]byte, 28)) }), nil},
		{"v1 err with fh", 1, MountProcMnt, enc(func(e *Enc) { e.U32(2); e.Fixed(make([]byte, 32)) }), nil},
		{"null body", 3, MountProcNull, []byte{0, 0, 0, 0}, nil},
		{"umnt body", 3, MountProcUmnt, []byte{0, 0, 0, 0}, nil},
		{"bad proc", 3, 6, nil, nil},
		{"bad vers", 4, MountProcNull, nil, nil},
		{"vers 0", 0, MountProcNull, nil, nil},
	}
	for _, s := range bad {
		if _, err := DecodeMount(s.vers, s.proc, s.b); err == nil {
			t.Errorf("%s: accepted", s.name)
		}
	}
	for _, st := range []uint32{0, 1, 2, 5, 13, 20, 22, 63, 10004, 10006} {
		if !ValidMountStat(st) || strings.HasPrefix(MountStatName(st), "mountstat3(") {
			t.Errorf("mountstat3 %d", st)
		}
	}
	n := 0
	for st := uint32(0); st < 20000; st++ {
		if ValidMountStat(st) {
			n++
		}
	}
	if n != 10 {
		t.Errorf("mountstat3 has %d members", n)
	}
}

// ---------------------------------------------------------------------------
// portmap / rpcbind
// ---------------------------------------------------------------------------

func portmapSamples() []vsample {
	return []vsample{
		{"v2 null", 2, PmapProcNull, nil, &NullRes{}},
		{"v2 set true", 2, PmapProcSet, []byte{0, 0, 0, 1}, true},
		{"v2 unset false", 2, PmapProcUnset, []byte{0, 0, 0, 0}, false},
		{"v2 getport", 2, PmapProcGetport, []byte{0, 0, 8, 1}, uint32(2049)},
		{"v2 dump", 2, PmapProcDump, enc(func(e *Enc) {
			e.Bool(true)
			e.Raw(ArgsMapping(Mapping{ProgPortmap, 2, IPProtoTCP, 111}))
			e.Bool(true)
			e.Raw(ArgsMapping(Mapping{ProgNFS, 3, IPProtoUDP, 2049}))
			e.Bool(false)
		}), []Mapping{{ProgPortmap, 2, 6, 111}, {ProgNFS, 3, 17, 2049}}},
		{"v2 dump empty", 2, PmapProcDump, []byte{0, 0, 0, 0}, []Mapping{}},
		{"v2 callit", 2, PmapProcCallit, enc(func(e *Enc) { e.U32(2049); e.Opaque([]byte{1, 2, 3}) }), &CallitRes{Port: 2049, Res: []byte{1, 2, 3}}},
		{"v3 null", 3, RpcbProcNull, nil, &NullRes{}},
		{"v4 set", 4, RpcbProcSet, []byte{0, 0, 0, 1}, true},
		{"v3 unset", 3, RpcbProcUnset, []byte{0, 0, 0, 0}, false},
		{"v4 getaddr", 4, RpcbProcGetaddr, enc(func(e *Enc) { e.String("127.0.0.1.8.1") }), "127.0.0.1.8.1"},
		{"v3 getaddr empty", 3, RpcbProcGetaddr, enc(func(e *Enc) { e.String("") }), ""},
		{"v3 dump", 3, RpcbProcDump, enc(func(e *Enc) {
			e.Bool(true)
			e.Raw(ArgsRpcb(RpcbEntry{ProgNFS, 3, "tcp", "0.0.0.0.8.1", "superuser"}))
			e.Bool(true)
			e.Raw(ArgsRpcb(RpcbEntry{ProgMount, 3, "udp6", "::.3.9", ""}))
			e.Bool(false)
		}), []RpcbEntry{{ProgNFS, 3, "tcp", "0.0.0.0.8.1", "superuser"}, {ProgMount, 3, "udp6", "::.3.9", ""}}},
		{"v4 dump empty", 4, RpcbProcDump, []byte{0, 0, 0, 0}, []RpcbEntry{}},
	}
}

func TestDecodePortmap(t *testing.T) {
	for _, s := range portmapSamples() {
		got, err := DecodePortmap(s.vers, s.proc, s.b)
		if err != nil {
			t.Errorf("%s: %v", s.name, err)
			continue
		}
		if !reflect.DeepEqual(got, s.want) {
			t.Errorf("%s:\n got %#v\nwant %#v", s.name, got, s.want)
		}
		for i := 0; i < len(s.b); i++ {
			if _, err := DecodePortmap(s.vers, s.proc, s.b[:i]); err == nil {
				t.Errorf("%s: prefix %d accepted", s.name, i)
			}
		}
		if _, err := DecodePortmap(s.vers, s.proc, append(append([]byte{}, s.b...), 0, 0, 0, 0)); err == nil {
			t.Errorf("%s: trailing accepted", s.name)
		}
	}
	bad := []vsample{
		{"set 2", 2, PmapProcSet, []byte{0, 0, 0, 2}, nil},
		{"rpcb set 2", 4, RpcbProcSet, []byte{0, 0, 0, 2}, nil},
		{"dump bool 2", 2, PmapProcDump, []byte{0, 0, 0, 2}, nil},
		{"dump unterminated", 2, PmapProcDump, enc(func(e *Enc) { e.Bool(true); e.Raw(ArgsMapping(Mapping{1, 2, 3, 4})) }), nil},
		{"getaddr pad", 3, RpcbProcGetaddr, []byte{0, 0, 0, 1, 'x', 1, 0, 0}, nil},
		{"rpcb dump pad", 3, RpcbProcDump, enc(func(e *Enc) {
			e.Bool(true)
			e.U32(1)
			e.U32(1)
			e.Raw([]byte{0, 0, 0, 3, 't', 'c', 'p', 'X'})
			e.String("")
			e.String("")
			e.Bool(false)
		}), nil},
		{"null body", 2, PmapProcNull, []byte{0, 0, 0, 0}, nil},
		{"v1", 1, PmapProcNull, nil, nil},
		{"v5", 5, PmapProcNull, nil, nil},
		{"v2 proc 6", 2, 6, nil, nil},
		{"v3 proc 5", 3, 5, nil, nil},
	}
	for _, s := range bad {
		if _, err := DecodePortmap(s.vers, s.proc, s.b); err == nil {
			t.Errorf("%s: accepted", s.name)
		}
	}
}
