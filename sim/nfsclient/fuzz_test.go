package nfsclient

import (
	"bytes"
	"math/rand"
	"testing"
)

// decodeAll feeds b to every top-level decoder and fails the test (with the
// offending input) if any of them panics. It also checks cheap invariants on
// accepted inputs.
func decodeAll(t *testing.T, b []byte) {
	t.Helper()
	defer func() {
		if r := recover(); r != nil {
			t.Fatalf("panic %v on input % x", r, b)
		}
	}()
	if r, err := DecodeReply(b); err == nil {
		if !(r.Stat == MsgAccepted && r.AcceptStat == Success) && len(r.Results) != 0 {
			t.Fatalf("non-success reply with results: % x", b)
		}
	}
	for proc := uint32(0); proc <= NFSProcCommit+1; proc++ {
		v, err := DecodeNFS(proc, b)
		if err != nil {
			continue
		}
		if len(b)%4 != 0 {
			t.Fatalf("NFS proc %d accepted %d bytes (not a multiple of 4): % x", proc, len(b), b)
		}
		if rd, ok := v.(*ReaddirRes); ok && rd.Status == NFS3_OK {
			if total, _ := rd.EncodedSize(proc == NFSProcReaddirplus); total != len(b)-4 {
				t.Fatalf("proc %d: EncodedSize %d != wire %d: % x", proc, total, len(b)-4, b)
			}
		}
	}
	for _, vers := range []uint32{0, 1, 2, 3, 4} {
		for proc := uint32(0); proc <= 6; proc++ {
			_, _ = DecodeMount(vers, proc, b)
		}
	}
	for _, vers := range []uint32{1, 2, 3, 4, 5} {
		for proc := uint32(0); proc <= 6; proc++ {
			_, _ = DecodePortmap(vers, proc, b)
		}
	}
	_, _ = DecodeAuthSys(b)
	_, _ = ReadRecord(bytes.NewReader(b), 64)
}

func TestFuzzRandomNoPanic(t *testing.T) {
	rng := rand.New(rand.NewSource(0x5eed1813))
	accepted := 0
	for i := 0; i < 20000; i++ {
		n := rng.Intn(240)
		b := make([]byte, n)
		switch i % 3 {
		case 0: // uniformly random bytes
			rng.Read(b)
		case 1: // word-structured: mostly small values so decoders go deep
			for off := 0; off+4 <= n; off += 4 {
				switch rng.Intn(8) {
				case 0:
					rng.Read(b[off : off+4])
				case 1:
					b[off+3] = byte(rng.Intn(80))
				case 2:
					b[off+2], b[off+3] = 0x27, byte(0x10+rng.Intn(12)) // 1000x
				default:
					b[off+3] = byte(rng.Intn(3))
				}
			}
		case 2: // only 0/1 words, random tail
			for off := 0; off+4 <= n; off += 4 {
				b[off+3] = byte(rng.Intn(2))
			}
			if n%4 != 0 {
				rng.Read(b[n-n%4:])
			}
		}
		decodeAll(t, b)
		if _, err := DecodeNFS(uint32(rng.Intn(22)), b); err == nil {
			accepted++
		}
	}
	t.Logf("random inputs accepted by a random NFS decoder: %d / 20000", accepted)
}

func TestFuzzMutatedNoPanic(t *testing.T) {
	rng := rand.New(rand.NewSource(42))
	var corpus [][]byte
	for _, s := range nfsSamples() {
		corpus = append(corpus, s.b)
	}
	for _, s := range mountSamples() {
		corpus = append(corpus, s.b)
	}
	for _, s := range portmapSamples() {
		corpus = append(corpus, s.b)
	}
	rep := replyHdr(7, MsgAccepted)
	rep.U32(AuthFlavorNone)
	rep.Opaque(nil)
	rep.U32(Success)
	rep.Raw(corpus[1])
	corpus = append(corpus, rep.B)
	for i := 0; i < 20000; i++ {
		src := corpus[rng.Intn(len(corpus))]
		b := append([]byte{}, src...)
		for k := rng.Intn(4); k >= 0 && len(b) > 0; k-- {
			switch rng.Intn(5) {
			case 0:
				b[rng.Intn(len(b))] ^= 1 << uint(rng.Intn(8))
			case 1:
				b[rng.Intn(len(b))] = byte(rng.Intn(256))
			case 2:
				b = b[:rng.Intn(len(b)+1)]
			case 3:
				b = append(b, byte(rng.Intn(3)))
			case 4: // overwrite a whole word with an extreme value
				if len(b) >= 4 {
					off := rng.Intn(len(b)/4) * 4
					copy(b[off:off+4], [][]byte{{0xff, 0xff, 0xff, 0xff}, {0x7f, 0xff, 0xff, 0xff}, {0x80, 0, 0, 0}, {0, 0, 0, 2}}[rng.Intn(4)])
				}
			}
		}
		decodeAll(t, b)
	}
}

// Native fuzz target (runs its seed corpus under plain `go test`).
func FuzzDecoders(f *testing.F) {
	for _, s := range nfsSamples() {
		f.Add(s.b)
	}
	for _, s := range mountSamples() {
		f.Add(s.b)
	}
	for _, s := range portmapSamples() {
		f.Add(s.b)
	}
	f.Fuzz(func(t *testing.T, b []byte) { decodeAll(t, b) })
}
