package nfsclient

import (
	"encoding/binary"
	"errors"
	"fmt"
	"io"
)

// Program numbers.
const (
	ProgPortmap = 100000
	ProgNFS     = 100003
	ProgMount   = 100005
)

// Authentication flavors (RFC 5531 section 8.2).
const (
	AuthFlavorNone  = 0
	AuthFlavorSys   = 1
	AuthFlavorShort = 2
	AuthFlavorDH    = 3
	AuthFlavorGSS   = 6
)

// MaxAuthBody is the maximum length of an opaque_auth body.
const MaxAuthBody = 400

// msg_type
const (
	msgCall  = 0
	msgReply = 1
)

// reply_stat
const (
	MsgAccepted = 0
	MsgDenied   = 1
)

// accept_stat
const (
	Success      = 0
	ProgUnavail  = 1
	ProgMismatch = 2
	ProcUnavail  = 3
	GarbageArgs  = 4
	SystemErr    = 5
)

// reject_stat
const (
	RPCMismatch = 0
	AuthError   = 1
)

// auth_stat (RFC 5531 section 9).
const (
	AuthOK               = 0
	AuthBadCred          = 1
	AuthRejectedCred     = 2
	AuthBadVerf          = 3
	AuthRejectedVerf     = 4
	AuthTooWeak          = 5
	AuthInvalidResp      = 6
	AuthFailed           = 7
	AuthKerbGeneric      = 8
	AuthTimeExpire       = 9
	AuthTktFile          = 10
	AuthDecode           = 11
	AuthNetAddr          = 12
	RPCSecGSSCredProblem = 13
	RPCSecGSSCtxProblem  = 14
)

// ValidAcceptStat reports whether s is a member of accept_stat.
func ValidAcceptStat(s uint32) bool { return s <= SystemErr }

// ValidRejectStat reports whether s is a member of reject_stat.
func ValidRejectStat(s uint32) bool { return s <= AuthError }

// ValidAuthStat reports whether s is a member of auth_stat (RFC 5531: 0..14).
func ValidAuthStat(s uint32) bool { return s <= RPCSecGSSCtxProblem }

// ValidReplyStat reports whether s is a member of reply_stat.
func ValidReplyStat(s uint32) bool { return s <= MsgDenied }

// AcceptStatName returns the RFC name of an accept_stat value.
func AcceptStatName(s uint32) string {
	switch s {
	case Success:
		return "SUCCESS"
	case ProgUnavail:
		return "PROG_UNAVAIL"
	case ProgMismatch:
		return "PROG_MISMATCH"
	case ProcUnavail:
		return "PROC_UNAVAIL"
	case GarbageArgs:
		return "GARBAGE_ARGS"
	case SystemErr:
		return "SYSTEM_ERR"
	}
	return fmt.Sprintf("accept_stat(%d)", s)
}

// Auth is an opaque_auth structure.
type Auth struct {
	Flavor uint32
	Body   []byte
}

// AuthNone returns the AUTH_NONE opaque_auth (empty body).
func AuthNone() Auth { return Auth{Flavor: AuthFlavorNone} }

// AuthSys returns an AUTH_SYS opaque_auth whose body is the XDR encoding of
// authsys_parms. No limit is enforced on len(gids) or len(machine): the
// caller may exceed the RFC limits (16 gids, 255 bytes) on purpose.
func AuthSys(stamp uint32, machine string, uid, gid uint32, gids []uint32) Auth {
	var e Enc
	e.U32(stamp)
	e.String(machine)
	e.U32(uid)
	e.U32(gid)
	e.U32(uint32(len(gids)))
	for _, g := range gids {
		e.U32(g)
	}
	return Auth{Flavor: AuthFlavorSys, Body: e.B}
}

// Encode appends the opaque_auth to e (no length limit enforced).
func (a Auth) Encode(e *Enc) {
	e.U32(a.Flavor)
	e.Opaque(a.Body)
}

func (d *Dec) auth(name string) Auth {
	defer d.named(name)()
	var a Auth
	a.Flavor = d.nU32("flavor")
	a.Body = d.nOpaque("body", MaxAuthBody)
	return a
}

// Call is an RPC call message.
type Call struct {
	XID, RPCVers, Prog, Vers, Proc uint32 // RPCVers 0 means 2
	Cred, Verf                     Auth
	Args                           []byte
}

// Encode returns the rpc_msg bytes of the call (without record marking).
func (c *Call) Encode() []byte {
	var e Enc
	e.U32(c.XID)
	e.U32(msgCall)
	rv := c.RPCVers
	if rv == 0 {
		rv = 2
	}
	e.U32(rv)
	e.U32(c.Prog)
	e.U32(c.Vers)
	e.U32(c.Proc)
	c.Cred.Encode(&e)
	c.Verf.Encode(&e)
	e.Raw(c.Args)
	return e.B
}

const lastFragBit = 0x80000000

// MaxFragment is the largest fragment length expressible in a record mark.
const MaxFragment = 0x7fffffff

// Frame applies RFC 1831 section 10 record marking to msg. With a nil
// fragSizes the message is sent as one last-fragment. Otherwise msg is split
// into non-last fragments of the given sizes (0 = empty fragment; sizes are
// clamped to what remains), and the remaining bytes go into a final
// last-fragment (which may be empty).
func Frame(msg []byte, fragSizes []int) []byte {
	out := make([]byte, 0, len(msg)+4*(len(fragSizes)+1))
	rest := msg
	for _, s := range fragSizes {
		if s < 0 {
			s = 0
		}
		if s > len(rest) {
			s = len(rest)
		}
		out = binary.BigEndian.AppendUint32(out, uint32(s))
		out = append(out, rest[:s]...)
		rest = rest[s:]
	}
	out = binary.BigEndian.AppendUint32(out, lastFragBit|uint32(len(rest)))
	out = append(out, rest...)
	return out
}

// maxFragments bounds the number of fragments ReadRecord accepts in one
// record, so that an endless stream of empty fragments terminates.
const maxFragments = 1 << 20

// ReadRecord reads record-marked fragments from r until one with the
// last-fragment bit and returns the reassembled record. It fails if the total
// exceeds maxRecord. A clean EOF before the first header yields io.EOF; EOF
// anywhere else yields io.ErrUnexpectedEOF.
func ReadRecord(r io.Reader, maxRecord int) ([]byte, error) {
	if maxRecord < 0 {
		maxRecord = 0
	}
	rec := []byte{}
	var hdr [4]byte
	for i := 0; ; i++ {
		if i >= maxFragments {
			return nil, fmt.Errorf("rpc record: more than %d fragments", maxFragments)
		}
		if _, err := io.ReadFull(r, hdr[:]); err != nil {
			if err == io.EOF && i > 0 {
				err = io.ErrUnexpectedEOF
			}
			if err == io.EOF || err == io.ErrUnexpectedEOF {
				return nil, err
			}
			return nil, fmt.Errorf("rpc record: reading fragment header: %w", err)
		}
		h := binary.BigEndian.Uint32(hdr[:])
		n := int64(h &^ lastFragBit)
		if int64(len(rec))+n > int64(maxRecord) {
			return nil, fmt.Errorf("rpc record: size %d exceeds maximum %d", int64(len(rec))+n, maxRecord)
		}
		start := len(rec)
		rec = append(rec, make([]byte, int(n))...)
		if _, err := io.ReadFull(r, rec[start:]); err != nil {
			if err == io.EOF {
				err = io.ErrUnexpectedEOF
			}
			if err == io.ErrUnexpectedEOF {
				return nil, err
			}
			return nil, fmt.Errorf("rpc record: reading fragment body: %w", err)
		}
		if h&lastFragBit != 0 {
			return rec, nil
		}
	}
}

// Reply is a decoded RPC reply message.
type Reply struct {
	XID        uint32
	Stat       uint32 // MsgAccepted / MsgDenied
	Verf       Auth   // accepted only
	AcceptStat uint32 // accepted only
	Low, High  uint32 // PROG_MISMATCH (accepted) or RPC_MISMATCH (denied)
	RejectStat uint32 // denied only
	AuthStat   uint32 // denied + AUTH_ERROR only
	Results    []byte // accepted + SUCCESS: procedure results; empty otherwise
}

// ErrNotReply is wrapped by DecodeReply when msg_type is not REPLY.
var ErrNotReply = errors.New("rpc message is not a REPLY")

// DecodeReply strictly decodes an rpc_msg whose body must be a reply_body.
func DecodeReply(b []byte) (*Reply, error) {
	d := NewDec(b)
	r := &Reply{}
	r.XID = d.nU32("xid")
	mtOff := d.Off
	mt := d.nU32("msg_type")
	if d.Err == nil && mt != msgReply {
		if mt == msgCall {
			return nil, fmt.Errorf("rpc reply: msg_type %d at offset %d: %w", mt, mtOff, ErrNotReply)
		}
		d.failf(mtOff, "value %d is not a member of enum msg_type", mt)
		d.label("msg_type")
	}
	r.Stat = d.nEnum("reply_stat", "reply_stat", ValidReplyStat)
	if d.Err == nil {
		switch r.Stat {
		case MsgAccepted:
			r.Verf = d.auth("verf")
			r.AcceptStat = d.nEnum("accept_stat", "accept_stat", ValidAcceptStat)
			if d.Err == nil {
				switch r.AcceptStat {
				case Success:
					r.Results = make([]byte, d.Remaining())
					copy(r.Results, d.B[d.Off:])
					d.Off = len(d.B)
				case ProgMismatch:
					r.Low = d.nU32("mismatch_info.low")
					r.High = d.nU32("mismatch_info.high")
				default:
					// void
				}
			}
		case MsgDenied:
			r.RejectStat = d.nEnum("reject_stat", "reject_stat", ValidRejectStat)
			if d.Err == nil {
				switch r.RejectStat {
				case RPCMismatch:
					r.Low = d.nU32("mismatch_info.low")
					r.High = d.nU32("mismatch_info.high")
				case AuthError:
					r.AuthStat = d.nEnum("auth_stat", "auth_stat", ValidAuthStat)
				}
			}
		}
	}
	if err := d.Done(); err != nil {
		return nil, fmt.Errorf("rpc reply: %w", err)
	}
	return r, nil
}

// AuthSysParms is a decoded authsys_parms body (useful for self-checks).
type AuthSysParms struct {
	Stamp    uint32
	Machine  string
	UID, GID uint32
	GIDs     []uint32
}

// DecodeAuthSys strictly decodes an authsys_parms body (machinename <= 255,
// at most 16 gids).
func DecodeAuthSys(body []byte) (*AuthSysParms, error) {
	d := NewDec(body)
	p := &AuthSysParms{}
	p.Stamp = d.nU32("stamp")
	p.Machine = d.nString("machinename", 255)
	p.UID = d.nU32("uid")
	p.GID = d.nU32("gid")
	off := d.Off
	n := d.nU32("gids.len")
	if d.Err == nil && n > 16 {
		d.failf(off, "gids count %d exceeds maximum 16", n)
	}
	for i := uint32(0); i < n && d.Err == nil; i++ {
		p.GIDs = append(p.GIDs, d.nU32("gids"))
	}
	if err := d.Done(); err != nil {
		return nil, fmt.Errorf("authsys_parms: %w", err)
	}
	return p, nil
}
