package nfsclient

import "fmt"

// MOUNT procedure numbers (identical for versions 1 and 3).
const (
	MountProcNull    = 0
	MountProcMnt     = 1
	MountProcDump    = 2
	MountProcUmnt    = 3
	MountProcUmntAll = 4
	MountProcExport  = 5
)

// MOUNT protocol limits (RFC 1813 section 5.1.1 / RFC 1094 appendix A).
const (
	MntPathLen = 1024
	MntNamLen  = 255
	FHSize3    = 64
	FHSize1    = 32
)

// mountstat3
const (
	MNT3_OK             = 0
	MNT3ERR_PERM        = 1
	MNT3ERR_NOENT       = 2
	MNT3ERR_IO          = 5
	MNT3ERR_ACCES       = 13
	MNT3ERR_NOTDIR      = 20
	MNT3ERR_INVAL       = 22
	MNT3ERR_NAMETOOLONG = 63
	MNT3ERR_NOTSUPP     = 10004
	MNT3ERR_SERVERFAULT = 10006
)

// ValidMountStat reports whether s is a member of mountstat3.
func ValidMountStat(s uint32) bool {
	switch s {
	case MNT3_OK, MNT3ERR_PERM, MNT3ERR_NOENT, MNT3ERR_IO, MNT3ERR_ACCES,
		MNT3ERR_NOTDIR, MNT3ERR_INVAL, MNT3ERR_NAMETOOLONG, MNT3ERR_NOTSUPP,
		MNT3ERR_SERVERFAULT:
		return true
	}
	return false
}

// MountStatName returns the RFC name of a mountstat3 value.
func MountStatName(s uint32) string {
	switch s {
	case MNT3_OK:
		return "MNT3_OK"
	case MNT3ERR_PERM:
		return "MNT3ERR_PERM"
	case MNT3ERR_NOENT:
		return "MNT3ERR_NOENT"
	case MNT3ERR_IO:
		return "MNT3ERR_IO"
	case MNT3ERR_ACCES:
		return "MNT3ERR_ACCES"
	case MNT3ERR_NOTDIR:
		return "MNT3ERR_NOTDIR"
	case MNT3ERR_INVAL:
		return "MNT3ERR_INVAL"
	case MNT3ERR_NAMETOOLONG:
		return "MNT3ERR_NAMETOOLONG"
	case MNT3ERR_NOTSUPP:
		return "MNT3ERR_NOTSUPP"
	case MNT3ERR_SERVERFAULT:
		return "MNT3ERR_SERVERFAULT"
	}
	return fmt.Sprintf("mountstat3(%d)", s)
}

// ArgsMountPath encodes a dirpath argument (MNT, UMNT).
func ArgsMountPath(path string) []byte {
	var e Enc
	e.String(path)
	return e.B
}

// MntRes is mountres3 (version 3) or fhstatus (version 1, Flavors nil).
type MntRes struct {
	Status  uint32
	FH      []byte
	Flavors []uint32
}

// MountEntry is one mountbody of the DUMP list.
type MountEntry struct{ Host, Dir string }

// ExportEntry is one exportnode of the EXPORT list.
type ExportEntry struct {
	Dir    string
	Groups []string
}

func (d *Dec) mntRes3() *MntRes {
	r := &MntRes{}
	r.Status = d.nEnum("fhs_status", "mountstat3", ValidMountStat)
	if d.Err != nil || r.Status != MNT3_OK {
		return r
	}
	defer d.named("mountinfo")()
	r.FH = d.nOpaque("fhandle", FHSize3)
	off := d.Off
	n := d.nU32("auth_flavors.len")
	if d.Err != nil {
		return r
	}
	if uint64(n)*4 > uint64(d.Remaining()) {
		d.failf(off, "auth_flavors count %d exceeds remaining %d bytes", n, d.Remaining())
		d.label("auth_flavors")
		return r
	}
	r.Flavors = make([]uint32, 0, n)
	for i := uint32(0); i < n && d.Err == nil; i++ {
		r.Flavors = append(r.Flavors, d.nU32("auth_flavors"))
	}
	return r
}

func (d *Dec) mntRes1() *MntRes {
	r := &MntRes{}
	r.Status = d.nU32("fhs_status") // a UNIX errno: not an enumeration
	if d.Err == nil && r.Status == 0 {
		defer d.named("fhs_fhandle")()
		r.FH = d.Fixed(FHSize1)
	}
	return r
}

func (d *Dec) mountList() []MountEntry {
	defer d.named("mountlist")()
	out := []MountEntry{}
	for i := 0; ; i++ {
		if !d.nBool("value_follows") || d.Err != nil {
			break
		}
		var m MountEntry
		m.Host = d.nString("ml_hostname", MntNamLen)
		m.Dir = d.nString("ml_directory", MntPathLen)
		if d.Err != nil {
			d.label(fmt.Sprintf("[%d]", i))
			break
		}
		out = append(out, m)
	}
	return out
}

func (d *Dec) exportList() []ExportEntry {
	defer d.named("exports")()
	out := []ExportEntry{}
	for i := 0; ; i++ {
		if !d.nBool("value_follows") || d.Err != nil {
			break
		}
		var x ExportEntry
		x.Dir = d.nString("ex_dir", MntPathLen)
		for j := 0; ; j++ {
			if !d.nBool("ex_groups.value_follows") || d.Err != nil {
				break
			}
			g := d.nString("gr_name", MntNamLen)
			if d.Err != nil {
				d.label(fmt.Sprintf("ex_groups[%d]", j))
				break
			}
			x.Groups = append(x.Groups, g)
		}
		if d.Err != nil {
			d.label(fmt.Sprintf("[%d]", i))
			break
		}
		out = append(out, x)
	}
	return out
}

// DecodeMount strictly decodes the results of MOUNT procedure proc.
//
// vers 3: MNT -> *MntRes; DUMP -> []MountEntry; EXPORT -> []ExportEntry;
// NULL/UMNT/UMNTALL -> *NullRes (results must be empty).
// vers 1 (and 2, identical for these procedures): MNT returns fhstatus
// (status + 32-byte fixed handle iff status is 0) as *MntRes with nil Flavors;
// the other procedures are as in version 3.
func DecodeMount(vers, proc uint32, res []byte) (any, error) {
	if vers < 1 || vers > 3 {
		return nil, fmt.Errorf("mount: unsupported version %d", vers)
	}
	d := NewDec(res)
	var out any
	switch proc {
	case MountProcNull, MountProcUmnt, MountProcUmntAll:
		out = &NullRes{}
	case MountProcMnt:
		if vers == 3 {
			out = d.mntRes3()
		} else {
			out = d.mntRes1()
		}
	case MountProcDump:
		out = d.mountList()
	case MountProcExport:
		out = d.exportList()
	default:
		return nil, fmt.Errorf("mount v%d: unknown procedure %d", vers, proc)
	}
	if err := d.Done(); err != nil {
		return nil, fmt.Errorf("mount v%d proc %d: %w", vers, proc, err)
	}
	return out, nil
}
