package nfsclient

import (
	"bytes"
	"errors"
	"io"
	"reflect"
	"strings"
	"testing"
)

// ---------------------------------------------------------------------------
// XDR
// ---------------------------------------------------------------------------

func TestEncGolden(t *testing.T) {
	var e Enc
	e.U32(0x01020304)
	e.U64(0x0102030405060708)
	e.Bool(true)
	e.Bool(false)
	e.Opaque([]byte{0xaa, 0xbb, 0xcc, 0xdd, 0xee})
	e.Fixed([]byte{1, 2})
	e.String("abc")
	e.Raw([]byte{9})
	want := []byte{
		1, 2, 3, 4,
		1, 2, 3, 4, 5, 6, 7, 8,
		0, 0, 0, 1,
		0, 0, 0, 0,
		0, 0, 0, 5, 0xaa, 0xbb, 0xcc, 0xdd, 0xee, 0, 0, 0,
		1, 2, 0, 0,
		0, 0, 0, 3, 'a', 'b', 'c', 0,
		9,
	}
	if !bytes.Equal(e.B, want) {
		t.Fatalf("got % x\nwant % x", e.B, want)
	}
	d := NewDec(e.B[:len(e.B)-1])
	if d.U32() != 0x01020304 || d.U64() != 0x0102030405060708 || !d.Bool() || d.Bool() {
		t.Fatal("scalar decode mismatch")
	}
	if !bytes.Equal(d.Opaque(5), []byte{0xaa, 0xbb, 0xcc, 0xdd, 0xee}) {
		t.Fatal("opaque")
	}
	if !bytes.Equal(d.Fixed(2), []byte{1, 2}) {
		t.Fatal("fixed")
	}
	if d.String(3) != "abc" {
		t.Fatal("string")
	}
	if err := d.Done(); err != nil {
		t.Fatal(err)
	}
}

func TestDecStrict(t *testing.T) {
	cases := []struct {
		name string
		in   []byte
		f    func(d *Dec)
		want string
	}{
		{"short u32", []byte{0, 0, 0}, func(d *Dec) { d.U32() }, "short buffer"},
		{"short u64", []byte{0, 0, 0, 0, 0, 0, 0}, func(d *Dec) { d.U64() }, "short buffer"},
		{"bool 2", []byte{0, 0, 0, 2}, func(d *Dec) { d.Bool() }, "invalid XDR bool"},
		{"bool high", []byte{1, 0, 0, 0}, func(d *Dec) { d.Bool() }, "invalid XDR bool"},
		{"opaque too long", []byte{0, 0, 0, 5, 1, 2, 3, 4, 5, 0, 0, 0}, func(d *Dec) { d.Opaque(4) }, "exceeds maximum"},
		{"opaque pad", []byte{0, 0, 0, 1, 1, 0, 0, 7}, func(d *Dec) { d.Opaque(4) }, "non-zero padding"},
		{"opaque short", []byte{0, 0, 0, 5, 1, 2, 3, 4, 5, 0, 0}, func(d *Dec) { d.Opaque(-1) }, "short buffer"},
		{"opaque huge", []byte{0xff, 0xff, 0xff, 0xff, 1}, func(d *Dec) { d.Opaque(-1) }, "exceeds remaining"},
		{"string pad", []byte{0, 0, 0, 2, 'a', 'b', 0, 1}, func(d *Dec) { _ = d.String(10) }, "non-zero padding"},
		{"fixed pad", []byte{1, 2, 3, 9}, func(d *Dec) { d.Fixed(3) }, "non-zero padding"},
		{"fixed short", []byte{1, 2, 3}, func(d *Dec) { d.Fixed(3) }, "short buffer"},
		{"fixed negative", []byte{1, 2, 3, 4}, func(d *Dec) { d.Fixed(-1) }, "negative length"},
		{"trailing", []byte{0, 0, 0, 0, 0}, func(d *Dec) { d.U32() }, "trailing bytes"},
		{"bad offset", []byte{0, 0, 0, 0}, func(d *Dec) { d.Off = 9; d.U32() }, "out of range"},
		{"neg offset", []byte{0, 0, 0, 0}, func(d *Dec) { d.Off = -1; d.Fixed(1) }, "out of range"},
	}
	for _, c := range cases {
		d := NewDec(c.in)
		c.f(d)
		err := d.Done()
		if err == nil || !strings.Contains(err.Error(), c.want) {
			t.Errorf("%s: err=%v, want containing %q", c.name, err, c.want)
		}
	}
	// sticky error: subsequent reads return zero and do not move.
	d := NewDec([]byte{0, 0, 0, 2, 0, 0, 0, 7})
	d.Bool()
	off := d.Off
	if d.U32() != 0 || d.U64() != 0 || d.Opaque(8) != nil || d.Fixed(1) != nil || d.String(1) != "" || d.Bool() || d.Off != off {
		t.Error("sticky error not honoured")
	}
	var de *DecodeError
	if !errors.As(d.Done(), &de) {
		t.Error("error is not a *DecodeError")
	}
}

// ---------------------------------------------------------------------------
// RPC
// ---------------------------------------------------------------------------

func TestCallEncodeGolden(t *testing.T) {
	c := Call{XID: 0x11223344, Prog: ProgNFS, Vers: 3, Proc: NFSProcGetattr,
		Cred: AuthSys(7, "host", 1000, 100, []uint32{4, 5}), Verf: AuthNone(),
		Args: []byte{0, 0, 0, 0}}
	want := []byte{
		0x11, 0x22, 0x33, 0x44, // xid
		0, 0, 0, 0, // CALL
		0, 0, 0, 2, // rpcvers
		0, 1, 0x86, 0xa3, // 100003
		0, 0, 0, 3,
		0, 0, 0, 1,
		0, 0, 0, 1, // AUTH_SYS
		0, 0, 0, 32, // body length
		0, 0, 0, 7, // stamp
		0, 0, 0, 4, 'h', 'o', 's', 't',
		0, 0, 3, 0xe8, // uid
		0, 0, 0, 100, // gid
		0, 0, 0, 2, 0, 0, 0, 4, 0, 0, 0, 5,
		0, 0, 0, 0, 0, 0, 0, 0, // verf AUTH_NONE
		0, 0, 0, 0, // args
	}
	if got := c.Encode(); !bytes.Equal(got, want) {
		t.Fatalf("got % x\nwant % x", got, want)
	}
	c.RPCVers = 3
	if got := c.Encode(); got[11] != 3 {
		t.Fatalf("rpcvers override not encoded: % x", got[8:12])
	}
	p, err := DecodeAuthSys(c.Cred.Body)
	if err != nil {
		t.Fatal(err)
	}
	if p.Stamp != 7 || p.Machine != "host" || p.UID != 1000 || p.GID != 100 || !reflect.DeepEqual(p.GIDs, []uint32{4, 5}) {
		t.Fatalf("authsys roundtrip: %+v", p)
	}
	// 17 gids can be encoded on purpose, and the strict decoder refuses them.
	a := AuthSys(0, "", 0, 0, make([]uint32, 17))
	if len(a.Body) != 4+4+4+4+4+17*4 {
		t.Fatalf("17-gid body length %d", len(a.Body))
	}
	if _, err := DecodeAuthSys(a.Body); err == nil {
		t.Fatal("17 gids accepted")
	}
}

func TestFrameAndReadRecord(t *testing.T) {
	msg := []byte("0123456789")
	if got, want := Frame(msg, nil), append([]byte{0x80, 0, 0, 10}, msg...); !bytes.Equal(got, want) {
		t.Fatalf("single: % x", got)
	}
	got := Frame(msg, []int{3, 0, 4})
	want := []byte{0, 0, 0, 3, '0', '1', '2', 0, 0, 0, 0, 0, 0, 0, 4, '3', '4', '5', '6', 0x80, 0, 0, 3, '7', '8', '9'}
	if !bytes.Equal(got, want) {
		t.Fatalf("multi: % x", got)
	}
	if got := Frame(msg, []int{10}); !bytes.Equal(got[len(got)-4:], []byte{0x80, 0, 0, 0}) {
		t.Fatalf("empty last fragment: % x", got)
	}
	if got := Frame(msg, []int{50, -1}); !bytes.Equal(got, append(append([]byte{0, 0, 0, 10}, msg...), 0, 0, 0, 0, 0x80, 0, 0, 0)) {
		t.Fatalf("clamped: % x", got)
	}
	for _, fs := range [][]int{nil, {}, {1}, {3, 0, 4}, {10}, {0, 0, 0}, {1, 1, 1, 1, 1, 1, 1, 1, 1, 1, 1}} {
		r := bytes.NewReader(append(Frame(msg, fs), Frame([]byte("xy"), nil)...))
		rec, err := ReadRecord(r, 10)
		if err != nil || !bytes.Equal(rec, msg) {
			t.Fatalf("frag %v: %q %v", fs, rec, err)
		}
		rec, err = ReadRecord(r, 10)
		if err != nil || string(rec) != "xy" {
			t.Fatalf("second record: %q %v", rec, err)
		}
		if _, err = ReadRecord(r, 10); err != io.EOF {
			t.Fatalf("want io.EOF, got %v", err)
		}
	}
	if _, err := ReadRecord(bytes.NewReader(Frame(msg, []int{5})), 9); err == nil {
		t.Fatal("oversized record accepted")
	}
	if _, err := ReadRecord(bytes.NewReader([]byte{0xff, 0xff, 0xff, 0xff}), 1<<20); err == nil {
		t.Fatal("huge fragment accepted")
	}
	full := Frame(msg, []int{4})
	for i := 1; i < len(full); i++ {
		if _, err := ReadRecord(bytes.NewReader(full[:i]), 100); err != io.ErrUnexpectedEOF {
			t.Fatalf("prefix %d: err=%v", i, err)
		}
	}
	if rec, err := ReadRecord(bytes.NewReader(Frame(nil, nil)), 0); err != nil || len(rec) != 0 {
		t.Fatalf("empty record: %v %v", rec, err)
	}
}

func replyHdr(xid, stat uint32) *Enc {
	e := &Enc{}
	e.U32(xid)
	e.U32(1)
	e.U32(stat)
	return e
}

func TestDecodeReply(t *testing.T) {
	// accepted SUCCESS, literal bytes
	ok := []byte{0, 0, 0, 9, 0, 0, 0, 1, 0, 0, 0, 0, 0, 0, 0, 0, 0, 0, 0, 0, 0, 0, 0, 0, 0xde, 0xad, 0xbe, 0xef}
	r, err := DecodeReply(ok)
	if err != nil {
		t.Fatal(err)
	}
	if r.XID != 9 || r.Stat != MsgAccepted || r.AcceptStat != Success || !bytes.Equal(r.Results, []byte{0xde, 0xad, 0xbe, 0xef}) {
		t.Fatalf("%+v", r)
	}

	accepted := func(stat uint32, tail ...uint32) []byte {
		e := replyHdr(1, MsgAccepted)
		e.U32(AuthFlavorNone)
		e.Opaque(nil)
		e.U32(stat)
		for _, v := range tail {
			e.U32(v)
		}
		return e.B
	}
	denied := func(tail ...uint32) []byte {
		e := replyHdr(1, MsgDenied)
		for _, v := range tail {
			e.U32(v)
		}
		return e.B
	}
	good := map[string][]byte{
		"prog_unavail":  accepted(ProgUnavail),
		"prog_mismatch": accepted(ProgMismatch, 2, 4),
		"proc_unavail":  accepted(ProcUnavail),
		"garbage_args":  accepted(GarbageArgs),
		"system_err":    accepted(SystemErr),
		"rpc_mismatch":  denied(RPCMismatch, 2, 2),
		"auth_error":    denied(AuthError, AuthTooWeak),
		"auth_error_14": denied(AuthError, RPCSecGSSCtxProblem),
	}
	for name, b := range good {
		r, err := DecodeReply(b)
		if err != nil {
			t.Errorf("%s: %v", name, err)
			continue
		}
		if len(r.Results) != 0 {
			t.Errorf("%s: results not empty", name)
		}
		for i := 0; i < len(b); i++ {
			if _, err := DecodeReply(b[:i]); err == nil {
				t.Errorf("%s: prefix %d accepted", name, i)
			}
		}
		if _, err := DecodeReply(append(append([]byte{}, b...), 0, 0, 0, 0)); err == nil {
			t.Errorf("%s: trailing bytes accepted", name)
		}
	}
	if r, _ := DecodeReply(good["prog_mismatch"]); r == nil || r.Low != 2 || r.High != 4 {
		t.Errorf("prog_mismatch: %+v", r)
	}
	if r, _ := DecodeReply(good["rpc_mismatch"]); r == nil || r.Stat != MsgDenied || r.RejectStat != RPCMismatch || r.Low != 2 || r.High != 2 {
		t.Errorf("rpc_mismatch: %+v", r)
	}
	if r, _ := DecodeReply(good["auth_error"]); r == nil || r.RejectStat != AuthError || r.AuthStat != AuthTooWeak {
		t.Errorf("auth_error: %+v", r)
	}
	// the header of a SUCCESS reply must be complete
	for i := 0; i < 24; i++ {
		if _, err := DecodeReply(ok[:i]); err == nil {
			t.Errorf("success header prefix %d accepted", i)
		}
	}

	bigVerf := replyHdr(1, MsgAccepted)
	bigVerf.U32(AuthFlavorSys)
	bigVerf.Opaque(make([]byte, 404))
	bigVerf.U32(Success)
	padVerf := replyHdr(1, MsgAccepted)
	padVerf.U32(AuthFlavorNone)
	padVerf.Raw([]byte{0, 0, 0, 1, 5, 0, 1, 0})
	padVerf.U32(Success)
	call := &Enc{}
	call.U32(1)
	call.U32(0)
	bad := map[string][]byte{
		"accept_stat 6":   accepted(6),
		"reply_stat 2":    replyHdr(1, 2).B,
		"reject_stat 2":   denied(2),
		"auth_stat 15":    denied(AuthError, 15),
		"msg_type CALL":   call.B,
		"msg_type 2":      {0, 0, 0, 1, 0, 0, 0, 2, 0, 0, 0, 0},
		"verf too long":   bigVerf.B,
		"verf bad pad":    padVerf.B,
		"void with extra": accepted(GarbageArgs, 0),
		"mismatch short":  accepted(ProgMismatch, 2),
		"denied extra":    denied(AuthError, AuthBadCred, 0),
	}
	for name, b := range bad {
		if _, err := DecodeReply(b); err == nil {
			t.Errorf("%s: accepted", name)
		}
	}
	if _, err := DecodeReply(call.B); !errors.Is(err, ErrNotReply) {
		t.Errorf("CALL: err=%v", err)
	}
	// a 400-byte verifier is the largest legal one
	maxVerf := replyHdr(1, MsgAccepted)
	maxVerf.U32(AuthFlavorSys)
	maxVerf.Opaque(make([]byte, 400))
	maxVerf.U32(Success)
	if r, err := DecodeReply(maxVerf.B); err != nil || len(r.Verf.Body) != 400 || r.Verf.Flavor != AuthFlavorSys {
		t.Errorf("400-byte verifier: %v", err)
	}
}

// ---------------------------------------------------------------------------
// Argument encoders: golden bytes and reference decode
// ---------------------------------------------------------------------------

func u32p(v uint32) *uint32 { return &v }
func u64p(v uint64) *uint64 { return &v }

// refSattr is a local reference decoder of sattr3.
func refSattr(d *Dec) Sattr3 {
	var s Sattr3
	opt := func() *uint32 {
		if d.Bool() {
			return u32p(d.U32())
		}
		return nil
	}
	s.Mode, s.UID, s.GID = opt(), opt(), opt()
	if d.Bool() {
		s.Size = u64p(d.U64())
	}
	tm := func() SetTime {
		st := SetTime{How: d.Enum("time_how", ValidTimeHow)}
		if st.How == SetToClientTime {
			st.T = NFSTime{d.U32(), d.U32()}
		}
		return st
	}
	s.Atime, s.Mtime = tm(), tm()
	return s
}

func TestArgsGolden(t *testing.T) {
	fh := []byte{1, 2, 3, 4, 5}
	got := ArgsDirOp(fh, "ab")
	want := []byte{0, 0, 0, 5, 1, 2, 3, 4, 5, 0, 0, 0, 0, 0, 0, 2, 'a', 'b', 0, 0}
	if !bytes.Equal(got, want) {
		t.Fatalf("diropargs: % x", got)
	}
	got = ArgsRead(fh, 0x100000002, 7)
	want = []byte{0, 0, 0, 5, 1, 2, 3, 4, 5, 0, 0, 0, 0, 0, 0, 1, 0, 0, 0, 2, 0, 0, 0, 7}
	if !bytes.Equal(got, want) {
		t.Fatalf("read: % x", got)
	}
	var e Enc
	Sattr3{Mode: u32p(0644), Size: u64p(3), Atime: SetTime{How: SetToServerTime}, Mtime: SetTime{How: SetToClientTime, T: NFSTime{5, 6}}}.Encode(&e)
	want = []byte{
		0, 0, 0, 1, 0, 0, 1, 0xa4,
		0, 0, 0, 0,
		0, 0, 0, 0,
		0, 0, 0, 1, 0, 0, 0, 0, 0, 0, 0, 3,
		0, 0, 0, 1,
		0, 0, 0, 2, 0, 0, 0, 5, 0, 0, 0, 6,
	}
	if !bytes.Equal(e.B, want) {
		t.Fatalf("sattr3: % x", e.B)
	}
	if got := UAddr("10.1.2.3", 2049); got != "10.1.2.3.8.1" {
		t.Fatalf("uaddr %q", got)
	}
	if ip, port, err := ParseUAddr("10.1.2.3.8.1"); err != nil || ip != "10.1.2.3" || port != 2049 {
		t.Fatalf("parse uaddr: %q %d %v", ip, port, err)
	}
	for _, s := range []string{"", "1.2", ".8.1", "h.256.1", "h.08.1", "h.8.", "h.8.x"} {
		if _, _, err := ParseUAddr(s); err == nil {
			t.Errorf("ParseUAddr(%q) accepted", s)
		}
	}
}

func TestArgsRoundTrip(t *testing.T) {
	fh := []byte("handle-0123456789")
	fh2 := bytes.Repeat([]byte{0xee}, 64)
	sa := Sattr3{Mode: u32p(0755), UID: u32p(10), GID: u32p(20), Size: u64p(1 << 40),
		Atime: SetTime{How: SetToClientTime, T: NFSTime{11, 12}}, Mtime: SetTime{How: SetToServerTime}}
	verf := [8]byte{1, 2, 3, 4, 5, 6, 7, 8}
	type tc struct {
		name string
		b    []byte
		ref  func(d *Dec) []any
		want []any
	}
	fhr := func(d *Dec) []byte { return d.Opaque(64) }
	cases := []tc{
		{"fh", ArgsFH(fh), func(d *Dec) []any { return []any{fhr(d)} }, []any{fh}},
		{"setattr-guard", ArgsSetattr(fh, sa, &NFSTime{3, 4}),
			func(d *Dec) []any { return []any{fhr(d), refSattr(d), d.Bool(), d.U32(), d.U32()} },
			[]any{fh, sa, true, uint32(3), uint32(4)}},
		{"setattr-noguard", ArgsSetattr(fh, Sattr3{}, nil),
			func(d *Dec) []any { return []any{fhr(d), refSattr(d), d.Bool()} },
			[]any{fh, Sattr3{}, false}},
		{"dirop", ArgsDirOp(fh, "name"), func(d *Dec) []any { return []any{fhr(d), d.String(255)} }, []any{fh, "name"}},
		{"access", ArgsAccess(fh, 0x3f), func(d *Dec) []any { return []any{fhr(d), d.U32()} }, []any{fh, uint32(0x3f)}},
		{"read", ArgsRead(fh, 1<<33, 4096), func(d *Dec) []any { return []any{fhr(d), d.U64(), d.U32()} }, []any{fh, uint64(1 << 33), uint32(4096)}},
		{"write", ArgsWrite(fh, 9, 99, FileSync, []byte("hello")),
			func(d *Dec) []any { return []any{fhr(d), d.U64(), d.U32(), d.U32(), d.Opaque(-1)} },
			[]any{fh, uint64(9), uint32(99), uint32(FileSync), []byte("hello")}},
		{"create-unchecked", ArgsCreate(fh, "f", Unchecked, sa, verf),
			func(d *Dec) []any { return []any{fhr(d), d.String(255), d.U32(), refSattr(d)} },
			[]any{fh, "f", uint32(Unchecked), sa}},
		{"create-guarded", ArgsCreate(fh, "f", Guarded, sa, verf),
			func(d *Dec) []any { return []any{fhr(d), d.String(255), d.U32(), refSattr(d)} },
			[]any{fh, "f", uint32(Guarded), sa}},
		{"create-exclusive", ArgsCreate(fh, "f", Exclusive, sa, verf),
			func(d *Dec) []any { return []any{fhr(d), d.String(255), d.U32(), d.Fixed(8)} },
			[]any{fh, "f", uint32(Exclusive), verf[:]}},
		{"create-badmode", ArgsCreate(fh, "f", 3, sa, verf),
			func(d *Dec) []any { return []any{fhr(d), d.String(255), d.U32()} },
			[]any{fh, "f", uint32(3)}},
		{"mkdir", ArgsMkdir(fh, "d", sa), func(d *Dec) []any { return []any{fhr(d), d.String(255), refSattr(d)} }, []any{fh, "d", sa}},
		{"symlink", ArgsSymlink(fh, "l", sa, "/a/b/c"),
			func(d *Dec) []any { return []any{fhr(d), d.String(255), refSattr(d), d.String(1024)} },
			[]any{fh, "l", sa, "/a/b/c"}},
		{"mknod-chr", ArgsMknod(fh, "n", NF3CHR, sa, 8, 9),
			func(d *Dec) []any { return []any{fhr(d), d.String(255), d.U32(), refSattr(d), d.U32(), d.U32()} },
			[]any{fh, "n", uint32(NF3CHR), sa, uint32(8), uint32(9)}},
		{"mknod-blk", ArgsMknod(fh, "n", NF3BLK, sa, 8, 9),
			func(d *Dec) []any { return []any{fhr(d), d.String(255), d.U32(), refSattr(d), d.U32(), d.U32()} },
			[]any{fh, "n", uint32(NF3BLK), sa, uint32(8), uint32(9)}},
		{"mknod-fifo", ArgsMknod(fh, "n", NF3FIFO, sa, 8, 9),
			func(d *Dec) []any { return []any{fhr(d), d.String(255), d.U32(), refSattr(d)} },
			[]any{fh, "n", uint32(NF3FIFO), sa}},
		{"mknod-sock", ArgsMknod(fh, "n", NF3SOCK, sa, 8, 9),
			func(d *Dec) []any { return []any{fhr(d), d.String(255), d.U32(), refSattr(d)} },
			[]any{fh, "n", uint32(NF3SOCK), sa}},
		{"mknod-reg", ArgsMknod(fh, "n", NF3REG, sa, 8, 9),
			func(d *Dec) []any { return []any{fhr(d), d.String(255), d.U32()} },
			[]any{fh, "n", uint32(NF3REG)}},
		{"rename", ArgsRename(fh, "a", fh2, "bb"),
			func(d *Dec) []any { return []any{fhr(d), d.String(255), fhr(d), d.String(255)} },
			[]any{fh, "a", fh2, "bb"}},
		{"link", ArgsLink(fh, fh2, "ln"),
			func(d *Dec) []any { return []any{fhr(d), fhr(d), d.String(255)} },
			[]any{fh, fh2, "ln"}},
		{"readdir", ArgsReaddir(fh, 77, verf, 8192),
			func(d *Dec) []any { return []any{fhr(d), d.U64(), d.Fixed(8), d.U32()} },
			[]any{fh, uint64(77), verf[:], uint32(8192)}},
		{"readdirplus", ArgsReaddirplus(fh, 77, verf, 512, 8192),
			func(d *Dec) []any { return []any{fhr(d), d.U64(), d.Fixed(8), d.U32(), d.U32()} },
			[]any{fh, uint64(77), verf[:], uint32(512), uint32(8192)}},
		{"commit", ArgsCommit(fh, 5, 6), func(d *Dec) []any { return []any{fhr(d), d.U64(), d.U32()} }, []any{fh, uint64(5), uint32(6)}},
		{"mountpath", ArgsMountPath("/export/x"), func(d *Dec) []any { return []any{d.String(1024)} }, []any{"/export/x"}},
		{"mapping", ArgsMapping(Mapping{ProgNFS, 3, IPProtoTCP, 2049}),
			func(d *Dec) []any { return []any{d.U32(), d.U32(), d.U32(), d.U32()} },
			[]any{uint32(ProgNFS), uint32(3), uint32(6), uint32(2049)}},
		{"rpcb", ArgsRpcb(RpcbEntry{ProgNFS, 3, "tcp", "1.2.3.4.8.1", "root"}),
			func(d *Dec) []any { return []any{d.U32(), d.U32(), d.String(16), d.String(64), d.String(16)} },
			[]any{uint32(ProgNFS), uint32(3), "tcp", "1.2.3.4.8.1", "root"}},
	}
	for _, c := range cases {
		if len(c.b)%4 != 0 {
			t.Errorf("%s: length %d not a multiple of 4", c.name, len(c.b))
		}
		d := NewDec(c.b)
		got := c.ref(d)
		if err := d.Done(); err != nil {
			t.Errorf("%s: reference decode: %v", c.name, err)
			continue
		}
		if !reflect.DeepEqual(got, c.want) {
			t.Errorf("%s:\n got %#v\nwant %#v", c.name, got, c.want)
		}
	}
}
