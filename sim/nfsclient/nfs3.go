package nfsclient

import "fmt"

// NFSv3 program version.
const NFSVers3 = 3

// Size limits (RFC 1813 section 2.4) and decode-side tolerances.
const (
	NFS3FHSize         = 64
	NFS3CookieVerfSize = 8
	NFS3CreateVerfSize = 8
	NFS3WriteVerfSize  = 8
	// MaxNameDecode is the longest filename3 / nfspath3 accepted on decode.
	// RFC 1813 puts no XDR bound on these strings; callers check len().
	MaxNameDecode = 4096
)

// NFSv3 procedure numbers.
const (
	NFSProcNull        = 0
	NFSProcGetattr     = 1
	NFSProcSetattr     = 2
	NFSProcLookup      = 3
	NFSProcAccess      = 4
	NFSProcReadlink    = 5
	NFSProcRead        = 6
	NFSProcWrite       = 7
	NFSProcCreate      = 8
	NFSProcMkdir       = 9
	NFSProcSymlink     = 10
	NFSProcMknod       = 11
	NFSProcRemove      = 12
	NFSProcRmdir       = 13
	NFSProcRename      = 14
	NFSProcLink        = 15
	NFSProcReaddir     = 16
	NFSProcReaddirplus = 17
	NFSProcFsstat      = 18
	NFSProcFsinfo      = 19
	NFSProcPathconf    = 20
	NFSProcCommit      = 21
)

var nfsProcNames = [...]string{
	"NULL", "GETATTR", "SETATTR", "LOOKUP", "ACCESS", "READLINK", "READ",
	"WRITE", "CREATE", "MKDIR", "SYMLINK", "MKNOD", "REMOVE", "RMDIR",
	"RENAME", "LINK", "READDIR", "READDIRPLUS", "FSSTAT", "FSINFO",
	"PATHCONF", "COMMIT",
}

// NFSProcName returns the RFC name of an NFSv3 procedure number.
func NFSProcName(p uint32) string {
	if p < uint32(len(nfsProcNames)) {
		return nfsProcNames[p]
	}
	return fmt.Sprintf("NFSPROC3(%d)", p)
}

// nfsstat3
const (
	NFS3_OK             = 0
	NFS3ERR_PERM        = 1
	NFS3ERR_NOENT       = 2
	NFS3ERR_IO          = 5
	NFS3ERR_NXIO        = 6
	NFS3ERR_ACCES       = 13
	NFS3ERR_EXIST       = 17
	NFS3ERR_XDEV        = 18
	NFS3ERR_NODEV       = 19
	NFS3ERR_NOTDIR      = 20
	NFS3ERR_ISDIR       = 21
	NFS3ERR_INVAL       = 22
	NFS3ERR_FBIG        = 27
	NFS3ERR_NOSPC       = 28
	NFS3ERR_ROFS        = 30
	NFS3ERR_MLINK       = 31
	NFS3ERR_NAMETOOLONG = 63
	NFS3ERR_NOTEMPTY    = 66
	NFS3ERR_DQUOT       = 69
	NFS3ERR_STALE       = 70
	NFS3ERR_REMOTE      = 71
	NFS3ERR_BADHANDLE   = 10001
	NFS3ERR_NOT_SYNC    = 10002
	NFS3ERR_BAD_COOKIE  = 10003
	NFS3ERR_NOTSUPP     = 10004
	NFS3ERR_TOOSMALL    = 10005
	NFS3ERR_SERVERFAULT = 10006
	NFS3ERR_BADTYPE     = 10007
	NFS3ERR_JUKEBOX     = 10008
)

var nfsStatNames = map[uint32]string{
	NFS3_OK:             "NFS3_OK",
	NFS3ERR_PERM:        "NFS3ERR_PERM",
	NFS3ERR_NOENT:       "NFS3ERR_NOENT",
	NFS3ERR_IO:          "NFS3ERR_IO",
	NFS3ERR_NXIO:        "NFS3ERR_NXIO",
	NFS3ERR_ACCES:       "NFS3ERR_ACCES",
	NFS3ERR_EXIST:       "NFS3ERR_EXIST",
	NFS3ERR_XDEV:        "NFS3ERR_XDEV",
	NFS3ERR_NODEV:       "NFS3ERR_NODEV",
	NFS3ERR_NOTDIR:      "NFS3ERR_NOTDIR",
	NFS3ERR_ISDIR:       "NFS3ERR_ISDIR",
	NFS3ERR_INVAL:       "NFS3ERR_INVAL",
	NFS3ERR_FBIG:        "NFS3ERR_FBIG",
	NFS3ERR_NOSPC:       "NFS3ERR_NOSPC",
	NFS3ERR_ROFS:        "NFS3ERR_ROFS",
	NFS3ERR_MLINK:       "NFS3ERR_MLINK",
	NFS3ERR_NAMETOOLONG: "NFS3ERR_NAMETOOLONG",
	NFS3ERR_NOTEMPTY:    "NFS3ERR_NOTEMPTY",
	NFS3ERR_DQUOT:       "NFS3ERR_DQUOT",
	NFS3ERR_STALE:       "NFS3ERR_STALE",
	NFS3ERR_REMOTE:      "NFS3ERR_REMOTE",
	NFS3ERR_BADHANDLE:   "NFS3ERR_BADHANDLE",
	NFS3ERR_NOT_SYNC:    "NFS3ERR_NOT_SYNC",
	NFS3ERR_BAD_COOKIE:  "NFS3ERR_BAD_COOKIE",
	NFS3ERR_NOTSUPP:     "NFS3ERR_NOTSUPP",
	NFS3ERR_TOOSMALL:    "NFS3ERR_TOOSMALL",
	NFS3ERR_SERVERFAULT: "NFS3ERR_SERVERFAULT",
	NFS3ERR_BADTYPE:     "NFS3ERR_BADTYPE",
	NFS3ERR_JUKEBOX:     "NFS3ERR_JUKEBOX",
}

// ValidNFSStat reports whether s is a member of the nfsstat3 enumeration.
func ValidNFSStat(s uint32) bool { _, ok := nfsStatNames[s]; return ok }

// NFSStatName returns the RFC name of an nfsstat3 value.
func NFSStatName(s uint32) string {
	if n, ok := nfsStatNames[s]; ok {
		return n
	}
	return fmt.Sprintf("nfsstat3(%d)", s)
}

// ftype3
const (
	NF3REG  = 1
	NF3DIR  = 2
	NF3BLK  = 3
	NF3CHR  = 4
	NF3LNK  = 5
	NF3SOCK = 6
	NF3FIFO = 7
)

// ValidFtype3 reports whether t is a member of ftype3.
func ValidFtype3(t uint32) bool { return t >= NF3REG && t <= NF3FIFO }

// stable_how
const (
	Unstable = 0
	DataSync = 1
	FileSync = 2
)

// ValidStableHow reports whether v is a member of stable_how.
func ValidStableHow(v uint32) bool { return v <= FileSync }

// time_how
const (
	DontChange      = 0
	SetToServerTime = 1
	SetToClientTime = 2
)

// ValidTimeHow reports whether v is a member of time_how.
func ValidTimeHow(v uint32) bool { return v <= SetToClientTime }

// createmode3
const (
	Unchecked = 0
	Guarded   = 1
	Exclusive = 2
)

// ACCESS3 bits.
const (
	Access3Read    = 0x01
	Access3Lookup  = 0x02
	Access3Modify  = 0x04
	Access3Extend  = 0x08
	Access3Delete  = 0x10
	Access3Execute = 0x20
)

// FSINFO properties bits.
const (
	FSFLink        = 0x01
	FSFSymlink     = 0x02
	FSFHomogeneous = 0x08
	FSFCanSetTime  = 0x10
)

// ---------------------------------------------------------------------------
// Basic types
// ---------------------------------------------------------------------------

// NFSTime is nfstime3.
type NFSTime struct{ Sec, Nsec uint32 }

// Encode appends the nfstime3.
func (t NFSTime) Encode(e *Enc) { e.U32(t.Sec); e.U32(t.Nsec) }

// Fattr3 is fattr3.
type Fattr3 struct {
	Type, Mode, Nlink, UID, GID uint32
	Size, Used                  uint64
	Rdev1, Rdev2                uint32
	Fsid, Fileid                uint64
	Atime, Mtime, Ctime         NFSTime
}

// Fattr3Size is the fixed XDR size of fattr3.
const Fattr3Size = 84

// Encode appends the fattr3.
func (f *Fattr3) Encode(e *Enc) {
	e.U32(f.Type)
	e.U32(f.Mode)
	e.U32(f.Nlink)
	e.U32(f.UID)
	e.U32(f.GID)
	e.U64(f.Size)
	e.U64(f.Used)
	e.U32(f.Rdev1)
	e.U32(f.Rdev2)
	e.U64(f.Fsid)
	e.U64(f.Fileid)
	f.Atime.Encode(e)
	f.Mtime.Encode(e)
	f.Ctime.Encode(e)
}

// WccAttr is wcc_attr.
type WccAttr struct {
	Size         uint64
	Mtime, Ctime NFSTime
}

// Encode appends the wcc_attr.
func (w *WccAttr) Encode(e *Enc) {
	e.U64(w.Size)
	w.Mtime.Encode(e)
	w.Ctime.Encode(e)
}

// WccData is wcc_data; nil members mean attributes_follow FALSE.
type WccData struct {
	Before *WccAttr
	After  *Fattr3
}

// Encode appends the wcc_data.
func (w WccData) Encode(e *Enc) {
	if w.Before != nil {
		e.Bool(true)
		w.Before.Encode(e)
	} else {
		e.Bool(false)
	}
	PutPostOpAttr(e, w.After)
}

// PutPostOpAttr appends a post_op_attr (nil = attributes_follow FALSE).
func PutPostOpAttr(e *Enc, a *Fattr3) {
	if a == nil {
		e.Bool(false)
		return
	}
	e.Bool(true)
	a.Encode(e)
}

// PutPostOpFH appends a post_op_fh3 (nil = handle_follows FALSE).
func PutPostOpFH(e *Enc, fh []byte) {
	if fh == nil {
		e.Bool(false)
		return
	}
	e.Bool(true)
	e.Opaque(fh)
}

// SetTime is set_atime / set_mtime.
type SetTime struct {
	How uint32 // 0 DONT_CHANGE, 1 SET_TO_SERVER_TIME, 2 SET_TO_CLIENT_TIME
	T   NFSTime
}

// Sattr3 is sattr3; nil members mean "do not set".
type Sattr3 struct {
	Mode, UID, GID *uint32
	Size           *uint64
	Atime, Mtime   SetTime
}

func putOptU32(e *Enc, p *uint32) {
	if p == nil {
		e.Bool(false)
		return
	}
	e.Bool(true)
	e.U32(*p)
}

func (t SetTime) encode(e *Enc) {
	e.U32(t.How)
	if t.How == SetToClientTime {
		t.T.Encode(e)
	}
}

// Encode appends the sattr3.
func (s Sattr3) Encode(e *Enc) {
	putOptU32(e, s.Mode)
	putOptU32(e, s.UID)
	putOptU32(e, s.GID)
	if s.Size == nil {
		e.Bool(false)
	} else {
		e.Bool(true)
		e.U64(*s.Size)
	}
	s.Atime.encode(e)
	s.Mtime.encode(e)
}

// ---------------------------------------------------------------------------
// Argument encoders
// ---------------------------------------------------------------------------

func putDirOp(e *Enc, dir []byte, name string) {
	e.Opaque(dir)
	e.String(name)
}

// ArgsFH encodes a lone nfs_fh3 (GETATTR, READLINK, FSSTAT, FSINFO, PATHCONF).
func ArgsFH(fh []byte) []byte {
	var e Enc
	e.Opaque(fh)
	return e.B
}

// ArgsSetattr encodes SETATTR3args; guard nil means check FALSE.
func ArgsSetattr(fh []byte, sa Sattr3, guard *NFSTime) []byte {
	var e Enc
	e.Opaque(fh)
	sa.Encode(&e)
	if guard == nil {
		e.Bool(false)
	} else {
		e.Bool(true)
		guard.Encode(&e)
	}
	return e.B
}

// ArgsDirOp encodes diropargs3 (LOOKUP, REMOVE, RMDIR).
func ArgsDirOp(dir []byte, name string) []byte {
	var e Enc
	putDirOp(&e, dir, name)
	return e.B
}

// ArgsAccess encodes ACCESS3args.
func ArgsAccess(fh []byte, mask uint32) []byte {
	var e Enc
	e.Opaque(fh)
	e.U32(mask)
	return e.B
}

// ArgsRead encodes READ3args.
func ArgsRead(fh []byte, off uint64, count uint32) []byte {
	var e Enc
	e.Opaque(fh)
	e.U64(off)
	e.U32(count)
	return e.B
}

// ArgsWrite encodes WRITE3args; count is sent as given.
func ArgsWrite(fh []byte, off uint64, count uint32, stable uint32, data []byte) []byte {
	var e Enc
	e.Opaque(fh)
	e.U64(off)
	e.U32(count)
	e.U32(stable)
	e.Opaque(data)
	return e.B
}

// ArgsCreate encodes CREATE3args. mode 0 UNCHECKED / 1 GUARDED carry sa,
// mode 2 EXCLUSIVE carries verf; any other mode carries nothing (malformed
// on purpose).
func ArgsCreate(dir []byte, name string, mode uint32, sa Sattr3, verf [8]byte) []byte {
	var e Enc
	putDirOp(&e, dir, name)
	e.U32(mode)
	switch mode {
	case Unchecked, Guarded:
		sa.Encode(&e)
	case Exclusive:
		e.Fixed(verf[:])
	}
	return e.B
}

// ArgsMkdir encodes MKDIR3args.
func ArgsMkdir(dir []byte, name string, sa Sattr3) []byte {
	var e Enc
	putDirOp(&e, dir, name)
	sa.Encode(&e)
	return e.B
}

// ArgsSymlink encodes SYMLINK3args.
func ArgsSymlink(dir []byte, name string, sa Sattr3, target string) []byte {
	var e Enc
	putDirOp(&e, dir, name)
	sa.Encode(&e)
	e.String(target)
	return e.B
}

// ArgsMknod encodes MKNOD3args. NF3CHR/NF3BLK carry sa + specdata3,
// NF3SOCK/NF3FIFO carry sa, every other type carries nothing.
func ArgsMknod(dir []byte, name string, ftype uint32, sa Sattr3, major, minor uint32) []byte {
	var e Enc
	putDirOp(&e, dir, name)
	e.U32(ftype)
	switch ftype {
	case NF3CHR, NF3BLK:
		sa.Encode(&e)
		e.U32(major)
		e.U32(minor)
	case NF3SOCK, NF3FIFO:
		sa.Encode(&e)
	}
	return e.B
}

// ArgsRename encodes RENAME3args.
func ArgsRename(fromDir []byte, fromName string, toDir []byte, toName string) []byte {
	var e Enc
	putDirOp(&e, fromDir, fromName)
	putDirOp(&e, toDir, toName)
	return e.B
}

// ArgsLink encodes LINK3args.
func ArgsLink(fh []byte, dir []byte, name string) []byte {
	var e Enc
	e.Opaque(fh)
	putDirOp(&e, dir, name)
	return e.B
}

// ArgsReaddir encodes READDIR3args.
func ArgsReaddir(dir []byte, cookie uint64, verf [8]byte, count uint32) []byte {
	var e Enc
	e.Opaque(dir)
	e.U64(cookie)
	e.Fixed(verf[:])
	e.U32(count)
	return e.B
}

// ArgsReaddirplus encodes READDIRPLUS3args.
func ArgsReaddirplus(dir []byte, cookie uint64, verf [8]byte, dircount, maxcount uint32) []byte {
	var e Enc
	e.Opaque(dir)
	e.U64(cookie)
	e.Fixed(verf[:])
	e.U32(dircount)
	e.U32(maxcount)
	return e.B
}

// ArgsCommit encodes COMMIT3args.
func ArgsCommit(fh []byte, off uint64, count uint32) []byte {
	var e Enc
	e.Opaque(fh)
	e.U64(off)
	e.U32(count)
	return e.B
}

// ---------------------------------------------------------------------------
// Result types
// ---------------------------------------------------------------------------

// NullRes is the (void) result of a NULL procedure.
type NullRes struct{}

type GetattrRes struct {
	Status uint32
	Attr   *Fattr3
}

type SetattrRes struct {
	Status uint32
	Wcc    WccData
}

type LookupRes struct {
	Status  uint32
	FH      []byte
	Attr    *Fattr3
	DirAttr *Fattr3
}

type AccessRes struct {
	Status uint32
	Attr   *Fattr3
	Access uint32
}

type ReadlinkRes struct {
	Status uint32
	Attr   *Fattr3
	Target string
}

// ReadRes: Count is the wire count field; Data is the opaque as received
// (the caller compares len(Data) with Count).
type ReadRes struct {
	Status uint32
	Attr   *Fattr3
	Count  uint32
	EOF    bool
	Data   []byte
}

type WriteRes struct {
	Status    uint32
	Wcc       WccData
	Count     uint32
	Committed uint32
	Verf      [8]byte
}

// CreateRes is used for CREATE, MKDIR, SYMLINK and MKNOD.
type CreateRes struct {
	Status uint32
	FH     []byte // nil if handle_follows is FALSE
	Attr   *Fattr3
	DirWcc WccData
}

// RemoveRes is used for REMOVE and RMDIR.
type RemoveRes struct {
	Status uint32
	DirWcc WccData
}

type RenameRes struct {
	Status         uint32
	FromWcc, ToWcc WccData
}

type LinkRes struct {
	Status uint32
	Attr   *Fattr3
	DirWcc WccData
}

// DirEntry is entry3 / entryplus3 (Attr and FH only for READDIRPLUS).
type DirEntry struct {
	Fileid uint64
	Name   string
	Cookie uint64
	Attr   *Fattr3
	FH     []byte
}

// ReaddirRes is used for READDIR and READDIRPLUS.
type ReaddirRes struct {
	Status  uint32
	DirAttr *Fattr3
	Verf    [8]byte
	Entries []DirEntry
	EOF     bool
}

type FsstatRes struct {
	Status                                         uint32
	Attr                                           *Fattr3
	Tbytes, Fbytes, Abytes, Tfiles, Ffiles, Afiles uint64
	Invarsec                                       uint32
}

type FsinfoRes struct {
	Status                                               uint32
	Attr                                                 *Fattr3
	Rtmax, Rtpref, Rtmult, Wtmax, Wtpref, Wtmult, Dtpref uint32
	Maxfilesize                                          uint64
	TimeDelta                                            NFSTime
	Properties                                           uint32
}

type PathconfRes struct {
	Status                                                    uint32
	Attr                                                      *Fattr3
	Linkmax, NameMax                                          uint32
	NoTrunc, ChownRestricted, CaseInsensitive, CasePreserving bool
}

type CommitRes struct {
	Status uint32
	Wcc    WccData
	Verf   [8]byte
}

// ---------------------------------------------------------------------------
// Component decoders
// ---------------------------------------------------------------------------

func (d *Dec) nfsTime(name string) NFSTime {
	defer d.named(name)()
	var t NFSTime
	t.Sec = d.nU32("seconds")
	t.Nsec = d.nU32("nseconds")
	return t
}

func (d *Dec) fattr3() Fattr3 {
	defer d.named("fattr3")()
	var f Fattr3
	f.Type = d.nEnum("type", "ftype3", ValidFtype3)
	f.Mode = d.nU32("mode")
	f.Nlink = d.nU32("nlink")
	f.UID = d.nU32("uid")
	f.GID = d.nU32("gid")
	f.Size = d.nU64("size")
	f.Used = d.nU64("used")
	f.Rdev1 = d.nU32("rdev.specdata1")
	f.Rdev2 = d.nU32("rdev.specdata2")
	f.Fsid = d.nU64("fsid")
	f.Fileid = d.nU64("fileid")
	f.Atime = d.nfsTime("atime")
	f.Mtime = d.nfsTime("mtime")
	f.Ctime = d.nfsTime("ctime")
	return f
}

func (d *Dec) postOpAttr(name string) *Fattr3 {
	defer d.named(name)()
	if !d.nBool("attributes_follow") || d.Err != nil {
		return nil
	}
	f := d.fattr3()
	if d.Err != nil {
		return nil
	}
	return &f
}

func (d *Dec) preOpAttr(name string) *WccAttr {
	defer d.named(name)()
	if !d.nBool("attributes_follow") || d.Err != nil {
		return nil
	}
	var w WccAttr
	w.Size = d.nU64("size")
	w.Mtime = d.nfsTime("mtime")
	w.Ctime = d.nfsTime("ctime")
	if d.Err != nil {
		return nil
	}
	return &w
}

func (d *Dec) wccData(name string) WccData {
	defer d.named(name)()
	var w WccData
	w.Before = d.preOpAttr("before")
	w.After = d.postOpAttr("after")
	return w
}

func (d *Dec) fh3(name string) []byte { return d.nOpaque(name, NFS3FHSize) }

func (d *Dec) postOpFH(name string) []byte {
	defer d.named(name)()
	if !d.nBool("handle_follows") || d.Err != nil {
		return nil
	}
	return d.fh3("handle")
}

func (d *Dec) nfsStatus() uint32 {
	return d.nEnum("status", "nfsstat3", ValidNFSStat)
}

// ---------------------------------------------------------------------------
// Result decoders
// ---------------------------------------------------------------------------

func (d *Dec) getattrRes() *GetattrRes {
	r := &GetattrRes{Status: d.nfsStatus()}
	if d.Err == nil && r.Status == NFS3_OK {
		f := d.fattr3()
		if d.Err == nil {
			r.Attr = &f
		}
	}
	return r
}

func (d *Dec) setattrRes() *SetattrRes {
	r := &SetattrRes{Status: d.nfsStatus()}
	r.Wcc = d.wccData("obj_wcc")
	return r
}

func (d *Dec) lookupRes() *LookupRes {
	r := &LookupRes{Status: d.nfsStatus()}
	if d.Err != nil {
		return r
	}
	if r.Status == NFS3_OK {
		r.FH = d.fh3("object")
		r.Attr = d.postOpAttr("obj_attributes")
	}
	r.DirAttr = d.postOpAttr("dir_attributes")
	return r
}

func (d *Dec) accessRes() *AccessRes {
	r := &AccessRes{Status: d.nfsStatus()}
	r.Attr = d.postOpAttr("obj_attributes")
	if d.Err == nil && r.Status == NFS3_OK {
		r.Access = d.nU32("access")
	}
	return r
}

func (d *Dec) readlinkRes() *ReadlinkRes {
	r := &ReadlinkRes{Status: d.nfsStatus()}
	r.Attr = d.postOpAttr("symlink_attributes")
	if d.Err == nil && r.Status == NFS3_OK {
		r.Target = d.nString("data", MaxNameDecode)
	}
	return r
}

func (d *Dec) readRes() *ReadRes {
	r := &ReadRes{Status: d.nfsStatus()}
	r.Attr = d.postOpAttr("file_attributes")
	if d.Err == nil && r.Status == NFS3_OK {
		r.Count = d.nU32("count")
		r.EOF = d.nBool("eof")
		r.Data = d.nOpaque("data", -1)
	}
	return r
}

func (d *Dec) writeRes() *WriteRes {
	r := &WriteRes{Status: d.nfsStatus()}
	r.Wcc = d.wccData("file_wcc")
	if d.Err == nil && r.Status == NFS3_OK {
		r.Count = d.nU32("count")
		r.Committed = d.nEnum("committed", "stable_how", ValidStableHow)
		r.Verf = d.fixed8("verf")
	}
	return r
}

func (d *Dec) createRes() *CreateRes {
	r := &CreateRes{Status: d.nfsStatus()}
	if d.Err != nil {
		return r
	}
	if r.Status == NFS3_OK {
		r.FH = d.postOpFH("obj")
		r.Attr = d.postOpAttr("obj_attributes")
	}
	r.DirWcc = d.wccData("dir_wcc")
	return r
}

func (d *Dec) removeRes() *RemoveRes {
	r := &RemoveRes{Status: d.nfsStatus()}
	r.DirWcc = d.wccData("dir_wcc")
	return r
}

func (d *Dec) renameRes() *RenameRes {
	r := &RenameRes{Status: d.nfsStatus()}
	r.FromWcc = d.wccData("fromdir_wcc")
	r.ToWcc = d.wccData("todir_wcc")
	return r
}

func (d *Dec) linkRes() *LinkRes {
	r := &LinkRes{Status: d.nfsStatus()}
	r.Attr = d.postOpAttr("file_attributes")
	r.DirWcc = d.wccData("linkdir_wcc")
	return r
}

func (d *Dec) readdirRes(plus bool) *ReaddirRes {
	r := &ReaddirRes{Status: d.nfsStatus()}
	r.DirAttr = d.postOpAttr("dir_attributes")
	if d.Err != nil || r.Status != NFS3_OK {
		return r
	}
	r.Verf = d.fixed8("cookieverf")
	func() {
		defer d.named("reply")()
		for i := 0; ; i++ {
			if !d.nBool("entries.value_follows") || d.Err != nil {
				break
			}
			var en DirEntry
			en.Fileid = d.nU64("fileid")
			en.Name = d.nString("name", MaxNameDecode)
			en.Cookie = d.nU64("cookie")
			if plus {
				en.Attr = d.postOpAttr("name_attributes")
				en.FH = d.postOpFH("name_handle")
			}
			if d.Err != nil {
				d.label(fmt.Sprintf("entries[%d]", i))
				break
			}
			r.Entries = append(r.Entries, en)
		}
		r.EOF = d.nBool("eof")
	}()
	return r
}

func (d *Dec) fsstatRes() *FsstatRes {
	r := &FsstatRes{Status: d.nfsStatus()}
	r.Attr = d.postOpAttr("obj_attributes")
	if d.Err == nil && r.Status == NFS3_OK {
		r.Tbytes = d.nU64("tbytes")
		r.Fbytes = d.nU64("fbytes")
		r.Abytes = d.nU64("abytes")
		r.Tfiles = d.nU64("tfiles")
		r.Ffiles = d.nU64("ffiles")
		r.Afiles = d.nU64("afiles")
		r.Invarsec = d.nU32("invarsec")
	}
	return r
}

func (d *Dec) fsinfoRes() *FsinfoRes {
	r := &FsinfoRes{Status: d.nfsStatus()}
	r.Attr = d.postOpAttr("obj_attributes")
	if d.Err == nil && r.Status == NFS3_OK {
		r.Rtmax = d.nU32("rtmax")
		r.Rtpref = d.nU32("rtpref")
		r.Rtmult = d.nU32("rtmult")
		r.Wtmax = d.nU32("wtmax")
		r.Wtpref = d.nU32("wtpref")
		r.Wtmult = d.nU32("wtmult")
		r.Dtpref = d.nU32("dtpref")
		r.Maxfilesize = d.nU64("maxfilesize")
		r.TimeDelta = d.nfsTime("time_delta")
		r.Properties = d.nU32("properties")
	}
	return r
}

func (d *Dec) pathconfRes() *PathconfRes {
	r := &PathconfRes{Status: d.nfsStatus()}
	r.Attr = d.postOpAttr("obj_attributes")
	if d.Err == nil && r.Status == NFS3_OK {
		r.Linkmax = d.nU32("linkmax")
		r.NameMax = d.nU32("name_max")
		r.NoTrunc = d.nBool("no_trunc")
		r.ChownRestricted = d.nBool("chown_restricted")
		r.CaseInsensitive = d.nBool("case_insensitive")
		r.CasePreserving = d.nBool("case_preserving")
	}
	return r
}

func (d *Dec) commitRes() *CommitRes {
	r := &CommitRes{Status: d.nfsStatus()}
	r.Wcc = d.wccData("file_wcc")
	if d.Err == nil && r.Status == NFS3_OK {
		r.Verf = d.fixed8("verf")
	}
	return r
}

// DecodeNFS strictly decodes the results of NFSv3 procedure proc (the bytes
// in Reply.Results) into the matching *XxxRes. NULL yields *NullRes and
// requires empty results. Unknown procedure numbers are an error.
func DecodeNFS(proc uint32, res []byte) (any, error) {
	d := NewDec(res)
	var out any
	switch proc {
	case NFSProcNull:
		out = &NullRes{}
	case NFSProcGetattr:
		out = d.getattrRes()
	case NFSProcSetattr:
		out = d.setattrRes()
	case NFSProcLookup:
		out = d.lookupRes()
	case NFSProcAccess:
		out = d.accessRes()
	case NFSProcReadlink:
		out = d.readlinkRes()
	case NFSProcRead:
		out = d.readRes()
	case NFSProcWrite:
		out = d.writeRes()
	case NFSProcCreate, NFSProcMkdir, NFSProcSymlink, NFSProcMknod:
		out = d.createRes()
	case NFSProcRemove, NFSProcRmdir:
		out = d.removeRes()
	case NFSProcRename:
		out = d.renameRes()
	case NFSProcLink:
		out = d.linkRes()
	case NFSProcReaddir:
		out = d.readdirRes(false)
	case NFSProcReaddirplus:
		out = d.readdirRes(true)
	case NFSProcFsstat:
		out = d.fsstatRes()
	case NFSProcFsinfo:
		out = d.fsinfoRes()
	case NFSProcPathconf:
		out = d.pathconfRes()
	case NFSProcCommit:
		out = d.commitRes()
	default:
		return nil, fmt.Errorf("nfs3: unknown procedure %d", proc)
	}
	if err := d.Done(); err != nil {
		return nil, fmt.Errorf("nfs3 %s3res: %w", NFSProcName(proc), err)
	}
	return out, nil
}

// EncodedSize returns the XDR size in bytes of the READDIR3resok
// (plus=false) or READDIRPLUS3resok (plus=true) structure for this result,
// i.e. everything after the status word: dir_attributes, cookieverf, the
// entry list with its value-follows markers and terminator, and eof. This is
// the quantity bounded by READDIR count / READDIRPLUS maxcount. dirBytes is
// the READDIRPLUS "dircount" measure: the sum over entries of the XDR sizes
// of fileid + name + cookie.
func (r *ReaddirRes) EncodedSize(plus bool) (total int, dirBytes int) {
	postOp := func(a *Fattr3) int {
		if a == nil {
			return 4
		}
		return 4 + Fattr3Size
	}
	total = postOp(r.DirAttr) + NFS3CookieVerfSize
	for i := range r.Entries {
		en := &r.Entries[i]
		base := 8 + xdrLen(len(en.Name)) + 8
		dirBytes += base
		total += 4 + base
		if plus {
			total += postOp(en.Attr)
			if en.FH == nil {
				total += 4
			} else {
				total += 4 + xdrLen(len(en.FH))
			}
		}
	}
	total += 4 // list terminator
	total += 4 // eof
	return total, dirBytes
}
