package nfsclient

import (
	"fmt"
	"strconv"
	"strings"
)

// Portmap v2 procedure numbers.
const (
	PmapProcNull    = 0
	PmapProcSet     = 1
	PmapProcUnset   = 2
	PmapProcGetport = 3
	PmapProcDump    = 4
	PmapProcCallit  = 5
)

// rpcbind v3/v4 procedure numbers.
const (
	RpcbProcNull    = 0
	RpcbProcSet     = 1
	RpcbProcUnset   = 2
	RpcbProcGetaddr = 3
	RpcbProcDump    = 4
)

// IP protocol numbers used in portmap mappings.
const (
	IPProtoTCP = 6
	IPProtoUDP = 17
)

// maxRpcbString bounds netid / uaddr / owner strings on decode (RFC 1833
// declares them string<>; this is a sanity bound, not an RFC limit).
const maxRpcbString = 4096

// Mapping is the portmap v2 "mapping" structure.
type Mapping struct{ Prog, Vers, Prot, Port uint32 }

// RpcbEntry is the rpcbind v3/v4 "rpcb" structure.
type RpcbEntry struct {
	Prog, Vers         uint32
	Netid, Addr, Owner string
}

// CallitRes is the portmap v2 call_result structure.
type CallitRes struct {
	Port uint32
	Res  []byte
}

// ArgsMapping encodes a mapping (v2 SET / UNSET / GETPORT).
func ArgsMapping(m Mapping) []byte {
	var e Enc
	e.U32(m.Prog)
	e.U32(m.Vers)
	e.U32(m.Prot)
	e.U32(m.Port)
	return e.B
}

// ArgsRpcb encodes an rpcb (v3/v4 SET / UNSET / GETADDR).
func ArgsRpcb(r RpcbEntry) []byte {
	var e Enc
	e.U32(r.Prog)
	e.U32(r.Vers)
	e.String(r.Netid)
	e.String(r.Addr)
	e.String(r.Owner)
	return e.B
}

func (d *Dec) pmapList() []Mapping {
	defer d.named("pmaplist")()
	out := []Mapping{}
	for i := 0; ; i++ {
		if !d.nBool("value_follows") || d.Err != nil {
			break
		}
		var m Mapping
		m.Prog = d.nU32("prog")
		m.Vers = d.nU32("vers")
		m.Prot = d.nU32("prot")
		m.Port = d.nU32("port")
		if d.Err != nil {
			d.label(fmt.Sprintf("[%d]", i))
			break
		}
		out = append(out, m)
	}
	return out
}

func (d *Dec) rpcbList() []RpcbEntry {
	defer d.named("rpcblist")()
	out := []RpcbEntry{}
	for i := 0; ; i++ {
		if !d.nBool("value_follows") || d.Err != nil {
			break
		}
		var r RpcbEntry
		r.Prog = d.nU32("r_prog")
		r.Vers = d.nU32("r_vers")
		r.Netid = d.nString("r_netid", maxRpcbString)
		r.Addr = d.nString("r_addr", maxRpcbString)
		r.Owner = d.nString("r_owner", maxRpcbString)
		if d.Err != nil {
			d.label(fmt.Sprintf("[%d]", i))
			break
		}
		out = append(out, r)
	}
	return out
}

// DecodePortmap strictly decodes the results of portmap/rpcbind procedure
// proc of program 100000.
//
// vers 2: NULL -> *NullRes (empty); SET/UNSET -> bool; GETPORT -> uint32;
// DUMP -> []Mapping; CALLIT -> *CallitRes.
// vers 3/4: NULL -> *NullRes; SET/UNSET -> bool; GETADDR -> string;
// DUMP -> []RpcbEntry. Other procedures are not supported.
func DecodePortmap(vers, proc uint32, res []byte) (any, error) {
	d := NewDec(res)
	var out any
	switch vers {
	case 2:
		switch proc {
		case PmapProcNull:
			out = &NullRes{}
		case PmapProcSet, PmapProcUnset:
			out = d.nBool("result")
		case PmapProcGetport:
			out = d.nU32("port")
		case PmapProcDump:
			out = d.pmapList()
		case PmapProcCallit:
			c := &CallitRes{}
			c.Port = d.nU32("call_result.port")
			c.Res = d.nOpaque("call_result.res", -1)
			out = c
		default:
			return nil, fmt.Errorf("portmap v2: unsupported procedure %d", proc)
		}
	case 3, 4:
		switch proc {
		case RpcbProcNull:
			out = &NullRes{}
		case RpcbProcSet, RpcbProcUnset:
			out = d.nBool("result")
		case RpcbProcGetaddr:
			out = d.nString("uaddr", maxRpcbString)
		case RpcbProcDump:
			out = d.rpcbList()
		default:
			return nil, fmt.Errorf("rpcbind v%d: unsupported procedure %d", vers, proc)
		}
	default:
		return nil, fmt.Errorf("portmap: unsupported version %d", vers)
	}
	if err := d.Done(); err != nil {
		return nil, fmt.Errorf("portmap v%d proc %d: %w", vers, proc, err)
	}
	return out, nil
}

// UAddr returns the universal address "h1.h2.h3.h4.p1.p2" for ip and port
// (p1 = port / 256, p2 = port % 256). It also works for IPv6 literals.
func UAddr(ip string, port uint32) string {
	return ip + "." + strconv.FormatUint(uint64(port>>8&0xff), 10) + "." + strconv.FormatUint(uint64(port&0xff), 10)
}

// ParseUAddr splits a universal address into host and port. It is strict:
// the last two dot-separated components must be canonical decimal numbers
// in 0..255.
func ParseUAddr(s string) (ip string, port uint32, err error) {
	i2 := strings.LastIndexByte(s, '.')
	if i2 < 0 {
		return "", 0, fmt.Errorf("uaddr %q: missing port components", s)
	}
	i1 := strings.LastIndexByte(s[:i2], '.')
	if i1 < 0 {
		return "", 0, fmt.Errorf("uaddr %q: missing port components", s)
	}
	octet := func(t string) (uint32, error) {
		if t == "" || len(t) > 3 || (len(t) > 1 && t[0] == '0') {
			return 0, fmt.Errorf("uaddr %q: bad port component %q", s, t)
		}
		v, e := strconv.ParseUint(t, 10, 32)
		if e != nil || v > 255 {
			return 0, fmt.Errorf("uaddr %q: bad port component %q", s, t)
		}
		return uint32(v), nil
	}
	p1, err := octet(s[i1+1 : i2])
	if err != nil {
		return "", 0, err
	}
	p2, err := octet(s[i2+1:])
	if err != nil {
		return "", 0, err
	}
	if i1 == 0 {
		return "", 0, fmt.Errorf("uaddr %q: empty host", s)
	}
	return s[:i1], p1<<8 | p2, nil
}
