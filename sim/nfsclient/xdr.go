// Package nfsclient is an independent, strict, client-side codec for
// ONC RPC (RFC 1831 / RFC 5531), XDR (RFC 4506), NFSv3 and MOUNTv3 (RFC 1813),
// portmap v2 and rpcbind v3/v4 (RFC 1833).
//
// It is written from the RFCs and is meant to be used as a conformance oracle
// against a server implementation: every decoder is strict (exact consumption,
// strict bools, strict enums, zero padding, bounded opaques, matching union
// arms) and never panics on arbitrary input.
package nfsclient

import (
	"encoding/binary"
	"fmt"
)

// ---------------------------------------------------------------------------
// Encoder
// ---------------------------------------------------------------------------

// Enc is an append-only XDR encoder.
type Enc struct{ B []byte }

// U32 appends a 32-bit big-endian unsigned integer.
func (e *Enc) U32(v uint32) { e.B = binary.BigEndian.AppendUint32(e.B, v) }

// U64 appends a 64-bit big-endian unsigned integer (XDR hyper).
func (e *Enc) U64(v uint64) { e.B = binary.BigEndian.AppendUint64(e.B, v) }

// Bool appends an XDR bool (0 or 1).
func (e *Enc) Bool(v bool) {
	if v {
		e.U32(1)
	} else {
		e.U32(0)
	}
}

func (e *Enc) pad(n int) {
	for n%4 != 0 {
		e.B = append(e.B, 0)
		n++
	}
}

// Opaque appends a variable-length opaque: length, bytes, zero pad to 4.
func (e *Enc) Opaque(b []byte) {
	e.U32(uint32(len(b)))
	e.B = append(e.B, b...)
	e.pad(len(b))
}

// Fixed appends a fixed-length opaque: bytes, zero pad to 4.
func (e *Enc) Fixed(b []byte) {
	e.B = append(e.B, b...)
	e.pad(len(b))
}

// String appends an XDR string (same wire form as Opaque).
func (e *Enc) String(s string) {
	e.U32(uint32(len(s)))
	e.B = append(e.B, s...)
	e.pad(len(s))
}

// Raw appends b verbatim.
func (e *Enc) Raw(b []byte) { e.B = append(e.B, b...) }

// ---------------------------------------------------------------------------
// Decoder
// ---------------------------------------------------------------------------

// DecodeError describes a strict-decoding failure.
type DecodeError struct {
	Off   int    // byte offset in the buffer at which the problem was detected
	Field string // dotted path of the field being decoded (may be empty)
	Msg   string
}

func (e *DecodeError) Error() string {
	if e.Field != "" {
		return fmt.Sprintf("xdr: %s: %s (offset %d)", e.Field, e.Msg, e.Off)
	}
	return fmt.Sprintf("xdr: %s (offset %d)", e.Msg, e.Off)
}

// Dec is a strict XDR decoder with a sticky error: once Err is non-nil every
// read returns a zero value and consumes nothing.
type Dec struct {
	B   []byte
	Off int
	Err error
}

// NewDec returns a decoder positioned at the start of b.
func NewDec(b []byte) *Dec { return &Dec{B: b} }

func (d *Dec) failf(off int, format string, args ...any) {
	if d.Err == nil {
		d.Err = &DecodeError{Off: off, Msg: fmt.Sprintf(format, args...)}
	}
}

// Remaining returns the number of undecoded bytes (0 if the offset is invalid).
func (d *Dec) Remaining() int {
	if d.Off < 0 || d.Off > len(d.B) {
		return 0
	}
	return len(d.B) - d.Off
}

// need checks that n more bytes are available. what names the item for errors.
func (d *Dec) need(n int, what string) bool {
	if d.Err != nil {
		return false
	}
	if d.Off < 0 || d.Off > len(d.B) {
		d.failf(d.Off, "decoder offset %d out of range [0,%d]", d.Off, len(d.B))
		return false
	}
	if n < 0 || len(d.B)-d.Off < n {
		d.failf(d.Off, "short buffer: need %d bytes for %s, have %d", n, what, len(d.B)-d.Off)
		return false
	}
	return true
}

// U32 reads a 32-bit unsigned integer.
func (d *Dec) U32() uint32 {
	if !d.need(4, "uint32") {
		return 0
	}
	v := binary.BigEndian.Uint32(d.B[d.Off : d.Off+4])
	d.Off += 4
	return v
}

// U64 reads a 64-bit unsigned integer.
func (d *Dec) U64() uint64 {
	if !d.need(8, "uint64") {
		return 0
	}
	v := binary.BigEndian.Uint64(d.B[d.Off : d.Off+8])
	d.Off += 8
	return v
}

// Bool reads a strict XDR bool: the value must be 0 or 1.
func (d *Dec) Bool() bool {
	off := d.Off
	v := d.U32()
	if d.Err != nil {
		return false
	}
	switch v {
	case 0:
		return false
	case 1:
		return true
	}
	d.failf(off, "invalid XDR bool value %d (must be 0 or 1)", v)
	return false
}

// body reads n data bytes plus zero padding up to a multiple of 4 and returns
// a copy of the data bytes.
func (d *Dec) body(n int, what string) []byte {
	if !d.need(0, what) {
		return nil
	}
	if n < 0 {
		d.failf(d.Off, "negative length %d for %s", n, what)
		return nil
	}
	padded := (int64(n) + 3) &^ 3
	if padded > int64(d.Remaining()) {
		d.failf(d.Off, "short buffer: need %d bytes (%d + padding) for %s, have %d", padded, n, what, d.Remaining())
		return nil
	}
	if !d.need(int(padded), what) {
		return nil
	}
	start := d.Off
	for i := start + n; i < start+int(padded); i++ {
		if d.B[i] != 0 {
			d.failf(i, "non-zero padding byte 0x%02x after %s of length %d", d.B[i], what, n)
			return nil
		}
	}
	out := make([]byte, n)
	copy(out, d.B[start:start+n])
	d.Off = start + int(padded)
	return out
}

// Opaque reads a variable-length opaque with length <= max (max < 0 means no
// limit other than the buffer) and strict zero padding. It returns a copy
// (non-nil, possibly empty) or nil on error.
func (d *Dec) Opaque(max int) []byte {
	off := d.Off
	n := d.U32()
	if d.Err != nil {
		return nil
	}
	if max >= 0 && uint64(n) > uint64(max) {
		d.failf(off, "opaque/string length %d exceeds maximum %d", n, max)
		return nil
	}
	if uint64(n) > uint64(d.Remaining()) {
		d.failf(off, "opaque/string length %d exceeds remaining %d bytes", n, d.Remaining())
		return nil
	}
	return d.body(int(n), "opaque/string")
}

// Fixed reads a fixed-length opaque of n bytes with strict zero padding.
func (d *Dec) Fixed(n int) []byte { return d.body(n, "fixed opaque") }

// String reads an XDR string (same rules as Opaque).
func (d *Dec) String(max int) string {
	b := d.Opaque(max)
	if d.Err != nil {
		return ""
	}
	return string(b)
}

// Done returns d.Err, or an error if undecoded bytes remain.
func (d *Dec) Done() error {
	if d.Err != nil {
		return d.Err
	}
	if d.Off < 0 || d.Off > len(d.B) {
		d.failf(d.Off, "decoder offset %d out of range [0,%d]", d.Off, len(d.B))
		return d.Err
	}
	if r := len(d.B) - d.Off; r != 0 {
		d.failf(d.Off, "%d trailing bytes after complete value", r)
		return d.Err
	}
	return nil
}

// Enum reads a uint32 and checks it with valid; kind names the enumeration.
func (d *Dec) Enum(kind string, valid func(uint32) bool) uint32 {
	off := d.Off
	v := d.U32()
	if d.Err != nil {
		return 0
	}
	if !valid(v) {
		d.failf(off, "value %d is not a member of enum %s", v, kind)
		return 0
	}
	return v
}

// ---------------------------------------------------------------------------
// Field labelling helpers (for descriptive errors).
// ---------------------------------------------------------------------------

// label prepends name to the field path of a pending DecodeError.
func (d *Dec) label(name string) {
	if de, ok := d.Err.(*DecodeError); ok {
		if de.Field == "" {
			de.Field = name
		} else {
			de.Field = name + "." + de.Field
		}
	}
}

// named is used as `defer d.named("x")()`: if an error first appears while
// the enclosing function runs, its field path is prefixed with name.
func (d *Dec) named(name string) func() {
	if d.Err != nil {
		return func() {}
	}
	return func() {
		if d.Err != nil {
			d.label(name)
		}
	}
}

func (d *Dec) nU32(name string) uint32 {
	defer d.named(name)()
	return d.U32()
}

func (d *Dec) nU64(name string) uint64 {
	defer d.named(name)()
	return d.U64()
}

func (d *Dec) nBool(name string) bool {
	defer d.named(name)()
	return d.Bool()
}

func (d *Dec) nOpaque(name string, max int) []byte {
	defer d.named(name)()
	return d.Opaque(max)
}

func (d *Dec) nString(name string, max int) string {
	defer d.named(name)()
	return d.String(max)
}

func (d *Dec) nEnum(name, kind string, valid func(uint32) bool) uint32 {
	defer d.named(name)()
	return d.Enum(kind, valid)
}

// fixed8 reads an 8-byte fixed opaque (cookieverf3 / writeverf3 / createverf3).
func (d *Dec) fixed8(name string) [8]byte {
	defer d.named(name)()
	var v [8]byte
	b := d.Fixed(8)
	if d.Err == nil {
		copy(v[:], b)
	}
	return v
}

// xdrLen returns the encoded size of a variable-length opaque/string of n bytes.
func xdrLen(n int) int { return 4 + (n+3)&^3 }
