package h

import (
	"fmt"
	"sort"
	"strings"
	"testing"

	"github.com/absfs/absnfs"

	"verif/sim/simrt"
)

// Direct-drive family for C05/C06: the real FileHandleMap driven by several tasks
// under the seeded scheduler (the table is shared by all request goroutines).

type HOp struct {
	Op   string `json:"op"`             // alloc get release releaseall
	Path int    `json:"path,omitempty"` // alloc: which of the paths
	Idx  int    `json:"idx,omitempty"`  // get/release: which of the task's own handles
}

type HandleScn struct {
	Max     int      `json:"max"`
	Paths   int      `json:"paths"`
	Threads [][]HOp  `json:"threads"`
	Sched   SchedCfg `json:"sched"`
}

type hShared struct {
	released []uint64 // handle values that were released at least once (or ReleaseAll happened: 0)
	allocs   simrt.Counter
}

//go:norace
func (s *hShared) noteRelease(h uint64) { s.released = append(s.released, h) }

//go:norace
func (s *hShared) wasReleased(h uint64) bool {
	for _, x := range s.released {
		if x == h || x == 0 {
			return true
		}
	}
	return false
}

func checkHandleSnapshot(o *Outcome, fm *absnfs.FileHandleMap, where, kind string) {
	hs, ph, max := absnfs.VerifHandleSnapshot(fm)
	o.Tick()
	if max > 0 && len(hs) > max {
		o.Vio("C05.table-exceeds-limit", "direct", "%s: %d live handles, limit %d", where, len(hs), max)
	}
	var ids []uint64
	for id := range hs {
		ids = append(ids, id)
	}
	sort.Slice(ids, func(i, j int) bool { return ids[i] < ids[j] })
	seen := map[string]uint64{}
	for _, id := range ids {
		p := hs[id]
		if other, dup := seen[p]; dup {
			o.Vio("C05.two-handles-one-path", "direct", "%s: path %s has live handles %d and %d", where, p, other, id)
		}
		seen[p] = id
		if ph[p] != id {
			o.Vio("C05.handle-table-inconsistent", "direct,kind=path-index-disagrees", "%s: handle %d denotes %s but the path index maps %s to %d", where, id, p, p, ph[p])
		}
	}
	var ps []string
	for p := range ph {
		ps = append(ps, p)
	}
	sort.Strings(ps)
	for _, p := range ps {
		if got, ok := hs[ph[p]]; !ok || got != p {
			o.Vio("C05.handle-table-inconsistent", "direct,kind=dangling-path-index", "%s: the path index maps %s to handle %d, which denotes %q (live=%v)", where, p, ph[p], got, ok)
		}
	}
	_ = kind
}

func runHandleDirect(t *testing.T, sc *SeqScn, trace bool, owners []string) *Outcome {
	d := sc.Direct
	o := &Outcome{HorizonOK: true}
	total := 0
	res := Bubble(t, d.Sched.config(trace), nil, func() {
		simrt.Event("scenario %x", simrt.Hash(hashBytes(mustJSON(sc))))
		if len(d.Threads) == 1 {
			simrt.Probe("run_class.direct_long_history")
		} else {
			simrt.Probe("run_class.direct_concurrent")
		}
		w := NewWorld(o)
		view := w.FS.View()
		fm := absnfs.VerifNewFileHandleMap(d.Max)
		sh := &hShared{}
		paths := make([]string, d.Paths)
		for i := range paths {
			paths[i] = fmt.Sprintf("/p%d", i)
		}
		done := make(chan int, len(d.Threads))
		for ti, ops := range d.Threads {
			ti, ops := ti, ops
			simrt.Go(fmt.Sprintf("handle-task-%d", ti), func() {
				defer simrt.Send("task.done", done, ti)
				type own struct {
					h    uint64
					path string
				}
				var mine []own
				for oi, op := range ops {
					where := fmt.Sprintf("task %d op %d %s", ti, oi, op.Op)
					switch op.Op {
					case "alloc":
						p := paths[op.Path%len(paths)]
						sh.allocs.Add(1) // counted when it STARTS: from then on it may have evicted somebody's handle
						h := fm.Allocate(absnfs.VerifNewNode(view, p, 0o644))
						mine = append(mine, own{h, p})
						// right after issue the value denotes the path it was issued for, unless someone released it meanwhile or the table may have overflowed (eviction frees the value for reuse: the C06 known finding)
						hs, _, _ := absnfs.VerifHandleSnapshot(fm)
						o.Tick()
						if got, live := hs[h]; len(d.Threads) == 1 && (!live || got != p) {
							// one task only: nothing can have happened between the return and this look
							o.Vio("C05.dead-on-issue", "direct", "%s: Allocate(%s) returned %d, which is not live or denotes another path right after issue (live=%v, denotes %q; limit %d)", where, p, h, live, got, d.Max)
						} else if live && got != p && !sh.wasReleased(h) && int(sh.allocs.Load()) <= d.Max {
							o.Vio("C05.issued-handle-resolves-elsewhere", "direct", "%s: Allocate(%s) returned %d, which denotes %s", where, p, h, got)
						}
					case "get":
						if len(mine) == 0 {
							continue
						}
						m := mine[op.Idx%len(mine)]
						f, ok := fm.Get(m.h)
						o.Tick()
						if ok && absnfs.VerifNodePath(f) != m.path && !sh.wasReleased(m.h) && int(sh.allocs.Load()) <= d.Max {
							o.Vio("C06.served-against-other-path", "direct,cause=other", "%s: handle %d issued for %s now denotes %s although it was never released and nothing was evicted", where, m.h, m.path, absnfs.VerifNodePath(f))
						}
					case "release":
						if len(mine) == 0 {
							continue
						}
						m := mine[op.Idx%len(mine)]
						sh.noteRelease(m.h)
						fm.Release(m.h)
					case "releaseall":
						sh.noteRelease(0)
						fm.ReleaseAll()
					}
					checkHandleSnapshot(o, fm, where, sc.Kind)
				}
			})
		}
		for range d.Threads {
			simrt.Recv("tasks.wait", done)
		}
		checkHandleSnapshot(o, fm, "at the end", sc.Kind)
	})
	o.finish(res, sc.Kind)
	for _, th := range d.Threads {
		total += len(th)
	}
	o.NonTrivial = total >= 4 && (len(d.Threads) >= 2 || total >= 20)
	if res != nil {
		for _, p := range res.Panics {
			o.Vio("C05.panic", "direct,"+panicFacts(p), "%s", firstLines(p, 12))
		}
		for _, l := range res.Leaked {
			if contains(l, "handle-task-") {
				o.Vio("C05.deadlock", "direct", "a task is still blocked at the end: %s", l)
			}
		}
	}
	kept := o.Violations[:0]
	for _, v := range o.Violations {
		for _, own := range owners {
			if strings.HasPrefix(v.Signature, own) {
				kept = append(kept, v)
				break
			}
		}
	}
	o.Violations = kept
	return o
}

// genHandleLong: one task, a long allocation history that overflows the table many times over, with
// releases in between so that freed ids are reused while evictions go on.
func genHandleLong(r *simrt.Rand, kind string) *SeqScn {
	max := []int{1, 2, 3, 5, 10, 16, 20, 25, 32, 50}[r.Int(10)]
	d := &HandleScn{Max: max, Paths: 2*max + 5 + r.Int(20), Sched: SeqSched(r.Uint64())}
	n := 3*max + 20 + r.Int(5*max+20)
	var ops []HOp
	for i := 0; i < n; i++ {
		switch r.Pick([]int{78, 8, 13, 1}) {
		case 0:
			ops = append(ops, HOp{Op: "alloc", Path: r.Int(d.Paths)})
		case 1:
			ops = append(ops, HOp{Op: "get", Idx: r.Int(1000)})
		case 2:
			ops = append(ops, HOp{Op: "release", Idx: r.Int(1000)})
		case 3:
			ops = append(ops, HOp{Op: "releaseall"})
		}
	}
	d.Threads = [][]HOp{ops}
	return &SeqScn{Kind: kind, Direct: d, Sched: d.Sched}
}

func genHandleDirect(r *simrt.Rand, kind string) *SeqScn {
	if r.Pct(35) {
		return genHandleLong(r, kind)
	}
	d := &HandleScn{Max: []int{1, 2, 3, 5, 100}[r.Int(5)], Paths: 1 + r.Int(4), Sched: RandSched(r)}
	d.Sched.HorizonS = 600
	nt := 2 + r.Int(3)
	for t := 0; t < nt; t++ {
		var ops []HOp
		n := 2 + r.Int(6)
		for i := 0; i < n; i++ {
			switch r.Pick([]int{55, 20, 20, 5}) {
			case 0:
				ops = append(ops, HOp{Op: "alloc", Path: r.Int(4)})
			case 1:
				ops = append(ops, HOp{Op: "get", Idx: r.Int(4)})
			case 2:
				ops = append(ops, HOp{Op: "release", Idx: r.Int(4)})
			case 3:
				ops = append(ops, HOp{Op: "releaseall"})
			}
		}
		d.Threads = append(d.Threads, ops)
	}
	return &SeqScn{Kind: kind, Direct: d, Sched: d.Sched}
}

func shrinkHandleDirect(sc *SeqScn) []any {
	var out []any
	d := sc.Direct
	cp := func() *SeqScn {
		c := *sc
		nd := *d
		nd.Threads = make([][]HOp, len(d.Threads))
		for i := range d.Threads {
			nd.Threads[i] = append([]HOp(nil), d.Threads[i]...)
		}
		c.Direct = &nd
		return &c
	}
	for i := range d.Threads {
		if len(d.Threads) > 2 {
			c := cp()
			c.Direct.Threads = append(c.Direct.Threads[:i], c.Direct.Threads[i+1:]...)
			out = append(out, c)
		}
		for j := range d.Threads[i] {
			c := cp()
			c.Direct.Threads[i] = append(c.Direct.Threads[i][:j], c.Direct.Threads[i][j+1:]...)
			out = append(out, c)
		}
	}
	return out
}
