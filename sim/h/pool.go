package h

import (
	"fmt"
	"testing"
	"time"

	"github.com/absfs/absnfs"

	"verif/sim/simrt"
)

// C20: worker pool driven directly under the seeded scheduler.

type PoolOp struct {
	Op      string `json:"op"` // submit submitwait exec stop resize start sleep
	N       int    `json:"n,omitempty"`
	WorkUs  int    `json:"work_us,omitempty"`  // simulated duration of the task body
	SleepUs int    `json:"sleep_us,omitempty"` // pause before the operation
}

type PoolScn struct {
	Workers int        `json:"workers"`
	Actors  [][]PoolOp `json:"actors"`
	Sched   SchedCfg   `json:"sched"`
}

type taskRec struct {
	id       int64
	kind     string
	execs    simrt.Counter
	accepted bool
	resolved bool
}

func runPool(t *testing.T, scAny any, trace bool) *Outcome {
	sc := scAny.(*PoolScn)
	o := &Outcome{HorizonOK: true}
	led := &ledgerT{}
	var lastAdmin simrt.Str
	lastAdmin.Store("none")
	res := Bubble(t, sc.Sched.config(trace), nil, func() {
		simrt.Event("scenario %x", simrt.Hash(hashBytes(mustJSON(sc))))
		w := NewWorld(o)
		nfs, err := absnfs.New(w.FS.View(), absnfs.ExportOptions{MaxWorkers: sc.Workers})
		if err != nil {
			o.Inconclusive = err.Error()
			return
		}
		pool := absnfs.VerifWorkerPool(nfs)
		var running, nextID simrt.Counter
		// The bound. Resizes by several actors take effect in the order the pool serialises them, which need not
		// be the order in which they are called or return, so the harness cannot know THE configured size. It
		// knows which sizes are possibly in force: the target of every Resize that is in progress or has returned
		// and is not certainly superseded - i.e. no other Resize was called after it returned and has itself
		// returned. Tasks may run concurrently up to the largest of those.
		const maxRz = 64
		var rzInv, rzRet, rzN [maxRz]simrt.Counter
		var rzCount simrt.Counter
		rzN[0].Store(int64(sc.Workers))
		rzInv[0].Store(1)
		rzRet[0].Store(2)
		rzCount.Store(1)
		boundNow := func() int64 {
			n := int(rzCount.Load())
			var b int64
			for k := 0; k < n; k++ {
				rk := rzRet[k].Load()
				superseded := false
				if rk != 0 {
					for j := 0; j < n; j++ {
						if j != k && rzInv[j].Load() > rk && rzRet[j].Load() != 0 {
							superseded = true
							break
						}
					}
				}
				if !superseded && rzN[k].Load() > b {
					b = rzN[k].Load()
				}
			}
			return b
		}
		newTask := func(kind string, workUs int) (*taskRec, func() interface{}) {
			rec := &taskRec{id: nextID.Add(1), kind: kind}
			led.add(rec)
			return rec, func() interface{} {
				n := rec.execs.Add(1)
				o.Tick()
				if n > 1 {
					o.Vio("C20.task-executed-twice", "kind="+kind+",after="+lastAdmin.Load(), "task %d (%s) executed %d times", rec.id, kind, n)
				}
				inPool := contains(simrt.SelfID(), "worker_pool.go") // executed by a worker goroutine (not by the caller itself)
				if inPool {
					r := running.Add(1)
					if b := boundNow(); r > b {
						simrt.Probe("concurrency_above_bound_candidate")
						o.Vio("C20.concurrency-exceeds-pool-size", "after="+lastAdmin.Load(), "%d tasks executing concurrently, pool size bound %d", r, b)
					}
				}
				if workUs > 0 {
					simrt.Sleep(time.Duration(workUs) * time.Microsecond)
				} else {
					simrt.Yield(simrt.ClassMisc, "task.body")
				}
				if inPool {
					running.Add(-1)
				}
				return rec.id
			}
		}
		done := make(chan int, len(sc.Actors))
		for ai, ops := range sc.Actors {
			ai, ops := ai, ops
			simrt.Go(fmt.Sprintf("actor-%d", ai), func() {
				defer simrt.Send("actor.done", done, ai)
				for _, op := range ops {
					if op.SleepUs > 0 {
						simrt.Sleep(time.Duration(op.SleepUs) * time.Microsecond)
					}
					switch op.Op {
					case "submit":
						rec, fn := newTask("submit", op.WorkUs)
						ch := pool.Submit(fn)
						if ch == nil {
							rec.resolved = true // told: not accepted
							continue
						}
						rec.accepted = true
						simrt.Event("actor %d waits for task %d", ai, rec.id)
						v, ok := simrt.Recv2("result.wait", ch)
						rec.resolved = true
						judgeResult(o, rec, v, ok, lastAdmin.Load())
					case "submitwait":
						rec, fn := newTask("submitwait", op.WorkUs)
						simrt.Event("actor %d SubmitWait task %d", ai, rec.id)
						v, ok := pool.SubmitWait(fn)
						rec.resolved = true
						rec.accepted = ok
						judgeResult(o, rec, v, ok, lastAdmin.Load())
					case "exec":
						rec, fn := newTask("exec", op.WorkUs)
						simrt.Event("actor %d ExecuteWithWorker task %d", ai, rec.id)
						v := nfs.ExecuteWithWorker(fn)
						rec.resolved = true
						o.Tick()
						if id, isID := v.(int64); !isID || id != rec.id {
							o.Vio("C20.request-lost", "after="+lastAdmin.Load(), "ExecuteWithWorker returned %v for task %d: the request's result is lost", v, rec.id)
						}
						if n := rec.execs.Load(); n != 1 {
							o.Vio("C20.request-not-executed-once", fmt.Sprintf("execs=%d,after=%s", n, lastAdmin.Load()), "ExecuteWithWorker executed task %d %d times", rec.id, n)
						}
					case "stop":
						lastAdmin.Store("Stop")
						simrt.Event("actor %d Stop", ai)
						pool.Stop()
					case "start":
						simrt.Event("actor %d Start", ai)
						pool.Start()
						lastAdmin.Store("Start")
					case "resize":
						n := int64(op.N)
						if n <= 0 {
							n = 1
						}
						slot := int(rzCount.Add(1)) - 1
						if slot >= maxRz {
							o.Inconclusive = "too many resizes for the harness"
							return
						}
						rzN[slot].Store(n)
						rzInv[slot].Store(simrt.Stamp())
						lastAdmin.Store("Resize")
						simrt.Event("actor %d Resize %d", ai, op.N)
						pool.Resize(op.N)
						rzRet[slot].Store(simrt.Stamp())
					}
				}
			})
		}
		for range sc.Actors {
			simrt.Recv("actors.wait", done)
		}
		pool.Stop()
		nfs.Close()
	})
	o.finish(res, "C20")
	if res != nil {
		// bounded liveness: once everything has quiesced no submitter may still be waiting
		for _, l := range res.Leaked {
			if contains(l, "actor-") {
				o.Vio("C20.submitter-blocked-forever", "after="+lastAdmin.Load()+","+blockedWhere(l), "at quiescence a submitter is still blocked: %s (every accepted task must be resolved)", l)
			}
		}
		for _, p := range res.Panics {
			o.Vio("C20.panic", "after="+lastAdmin.Load()+","+panicFacts(p), "%s", firstLines(p, 12))
		}
		if len(res.Leaked) > 0 && o.Inconclusive != "" && res.HorizonHit {
			o.Inconclusive = "" // the horizon is the liveness signal here
		}
	}
	total, executed := 0, 0
	for _, rec := range led.recs {
		total++
		if rec.execs.Load() > 0 {
			executed++
		}
	}
	o.NonTrivial = total >= 2 && executed >= 1
	return o
}

type ledgerT struct{ recs []*taskRec }

//go:norace
func (l *ledgerT) add(r *taskRec) {
	simrt.RaceOff()
	l.recs = append(l.recs, r)
	simrt.RaceOn()
}

func judgeResult(o *Outcome, rec *taskRec, v interface{}, ok bool, after string) {
	o.Tick()
	n := rec.execs.Load()
	switch {
	case ok:
		id, isID := v.(int64)
		if !isID {
			o.Vio("C20.nil-result-with-ok", "after="+after, "task %d: submitter got (%v, ok=true): neither the task's result nor a 'not executed' signal (executions so far: %d)", rec.id, v, n)
		} else if id != rec.id {
			o.Vio("C20.foreign-result", "after="+after, "task %d: submitter got the result of task %d", rec.id, id)
		} else if n != 1 {
			o.Vio("C20.result-without-single-execution", "after="+after, "task %d: result delivered, executions=%d", rec.id, n)
		}
	default:
		// told "not executed": the submitter may run it itself, so it must not have run and must never run
		if n != 0 {
			o.Vio("C20.reported-unexecuted-but-ran", "after="+after, "task %d: submitter was told it did not run, but it was executed %d time(s)", rec.id, n)
		}
		rec.accepted = false
	}
}

func contains(s, sub string) bool {
	for i := 0; i+len(sub) <= len(s); i++ {
		if s[i:i+len(sub)] == sub {
			return true
		}
	}
	return false
}

func blockedWhere(l string) string {
	for i := 0; i < len(l); i++ {
		if l[i] == '@' {
			return "at=" + sanitize(l[i+2:])
		}
	}
	return "at=unknown"
}

func firstLines(s string, n int) string {
	out, lines := "", 0
	for i := 0; i < len(s); i++ {
		out += string(s[i])
		if s[i] == '\n' {
			lines++
			if lines >= n {
				break
			}
		}
	}
	return out
}

// panicFacts extracts the panic message (first line after "panic: ").
func panicFacts(p string) string {
	msg := firstLines(p, 1)
	for i := 0; i+7 <= len(msg); i++ {
		if msg[i:i+7] == "panic: " {
			msg = msg[i+7:]
			break
		}
	}
	if len(msg) > 60 {
		msg = msg[:60]
	}
	return "msg=" + sanitize(msg)
}

func genC20(r *simrt.Rand, tier string) any {
	sc := &PoolScn{Workers: 1 + r.Int(3), Sched: RandSched(r)}
	sc.Sched.HorizonS = 600
	na := 2 + r.Int(3)
	adminDone := false
	longTasks := r.Pct(20) // swarm: in a fifth of the cases some task bodies last 6-20 simulated seconds
	for a := 0; a < na; a++ {
		var ops []PoolOp
		n := 1 + r.Int(5)
		for i := 0; i < n; i++ {
			op := PoolOp{WorkUs: []int{0, 0, 10, 1000, 60000, 200000}[r.Int(6)], SleepUs: []int{0, 0, 0, 5, 500, 70000}[r.Int(6)]}
			if longTasks && r.Pct(35) {
				op.WorkUs = []int{6000000, 8000000, 20000000}[r.Int(3)] // a request stuck in the backend for seconds
			}
			switch r.Pick([]int{30, 30, 20, 6, 10, 0}) {
			case 0:
				op.Op = "submit"
			case 1:
				op.Op = "submitwait"
			case 2:
				op.Op = "exec"
			case 3:
				op.Op = "stop"
				if adminDone && r.Pct(70) {
					op.Op = "submitwait"
				}
				adminDone = true
			case 4:
				op.Op, op.N = "resize", []int{1, 2, 3, 4, 0}[r.Int(5)]
			case 5:
				op.Op = "start"
			}
			ops = append(ops, op)
		}
		sc.Actors = append(sc.Actors, ops)
	}
	return sc
}

func shrinkPool(scAny any) []any {
	sc := scAny.(*PoolScn)
	var out []any
	for ai := range sc.Actors {
		if len(sc.Actors) > 1 {
			c := *sc
			c.Actors = append(append([][]PoolOp(nil), sc.Actors[:ai]...), sc.Actors[ai+1:]...)
			out = append(out, &c)
		}
		for j := range sc.Actors[ai] {
			c := *sc
			c.Actors = make([][]PoolOp, len(sc.Actors))
			for k := range sc.Actors {
				c.Actors[k] = append([]PoolOp(nil), sc.Actors[k]...)
			}
			c.Actors[ai] = append(c.Actors[ai][:j], c.Actors[ai][j+1:]...)
			out = append(out, &c)
		}
	}
	for ai := range sc.Actors {
		for j, op := range sc.Actors[ai] {
			if op.WorkUs > 0 || op.SleepUs > 0 {
				c := *sc
				c.Actors = make([][]PoolOp, len(sc.Actors))
				for k := range sc.Actors {
					c.Actors[k] = append([]PoolOp(nil), sc.Actors[k]...)
				}
				c.Actors[ai][j].WorkUs, c.Actors[ai][j].SleepUs = 0, 0
				out = append(out, &c)
			}
		}
	}
	if sc.Sched.Policy != simrt.PolDefault {
		c := *sc
		c.Sched = SchedCfg{Seed: sc.Sched.Seed, Policy: simrt.PolDefault, Mask: simrt.ClassAll, HorizonS: sc.Sched.HorizonS}
		out = append(out, &c)
	}
	return out
}

func init() {
	Register(&Prop{ID: "C20", Level: "exploration", Race: true,
		Rule: "one case = 2-4 actors each issuing 1-5 of Submit / SubmitWait / ExecuteWithWorker (task bodies of 0-200 ms simulated work - in a fifth of the cases some of 6-20 s, longer than any shutdown grace - that record executions and concurrency), Stop, Resize(1..4, 0), Start, with pauses, on a pool of 1-3 workers, every interleaving of lock, channel and select choices (incl. the worker's ctx.Done-vs-queue select and Submit's queue-vs-timer select) decided by the seeded scheduler (random, PCT, sticky policies), also built with -race; ledger oracle per task: executions <= 1, result delivered exactly once and equal to the task's own value, or the submitter is told it did not run (and it never runs); nil with ok=true is neither; concurrently executing tasks <= max(old,new) size; ExecuteWithWorker returns the request's own result after exactly one execution; at quiescence no submitter is still blocked; no panic escapes; non-trivial = >=2 tasks and >=1 executed; distinct by event digest",
		Gen:  genC20, New: func() any { return &PoolScn{} }, Run: runPool, Shrink: shrinkPool,
		Real:    []string{"WorkerPool (Start, worker, Submit, SubmitWait, Stop, Resize, Stats)", "AbsfsNFS.ExecuteWithWorker", "absnfs.New"},
		Stubbed: []string{"clock (synctest fake clock)", "goroutine scheduling and select choice (simrt driver)", "sync.Mutex/RWMutex (simrt equivalents)", "backend (simfs, only touched by New)"}})
}
