package h

import (
	"encoding/binary"
	"fmt"
	"reflect"
	"sort"
	"strings"
	"testing"
	"time"

	"github.com/absfs/absnfs"

	"verif/sim/simfs"
	"verif/sim/simrt"
)

var seqReal = []string{"absnfs.New", "NewServer+Listen (record marking)", "accept/connection loop", "worker pool dispatch", "HandleCall (policy lock, auth, per-request goroutine)", "all NFSv3/MOUNT procedure handlers", "operations.go", "attribute/negative/directory caches", "file handle table", "XDR/RPC codec"}
var seqStubbed = []string{"kernel TCP (simnet)", "backend filesystem (simfs: POSIX tree, call log, fault plan)", "clock (synctest fake clock)", "goroutine scheduling (simrt driver)", "sync.Mutex/RWMutex/Once (simrt equivalents)"}

// summarize renders a decoded result without timestamps, handles, verifiers and cookies.
func summarize(v any) string {
	var b strings.Builder
	var walk func(rv reflect.Value)
	walk = func(rv reflect.Value) {
		switch rv.Kind() {
		case reflect.Ptr:
			if rv.IsNil() {
				b.WriteString("nil")
				return
			}
			walk(rv.Elem())
		case reflect.Struct:
			b.WriteString("{")
			for i := 0; i < rv.NumField(); i++ {
				n := rv.Type().Field(i).Name
				switch n {
				case "Atime", "Mtime", "Ctime", "FH", "Verf", "Cookie", "Before", "Used", "TimeDelta":
					continue
				}
				b.WriteString(n + ":")
				walk(rv.Field(i))
				b.WriteString(" ")
			}
			b.WriteString("}")
		case reflect.Slice:
			if rv.Type().Elem().Kind() == reflect.Uint8 {
				fmt.Fprintf(&b, "bytes[%d]%x", rv.Len(), trunc(rv.Bytes(), 16))
				return
			}
			b.WriteString("[")
			for i := 0; i < rv.Len(); i++ {
				walk(rv.Index(i))
				b.WriteString(",")
			}
			b.WriteString("]")
		default:
			fmt.Fprintf(&b, "%v", rv.Interface())
		}
	}
	walk(reflect.ValueOf(v))
	return b.String()
}

// prologue returns the LOOKUP operations that give the client a handle for every tree entry:
// handle index 0 is the root, entry k (sorted by depth, then path) gets index k+1.
func sortedTree(tree []TreeEnt) []TreeEnt {
	ents := append([]TreeEnt(nil), tree...)
	sort.SliceStable(ents, func(i, j int) bool {
		di, dj := strings.Count(ents[i].Path, "/"), strings.Count(ents[j].Path, "/")
		if di != dj {
			return di < dj
		}
		return ents[i].Path < ents[j].Path
	})
	return ents
}

func prologue(tree []TreeEnt) []Op {
	ents := sortedTree(tree)
	idx := map[string]int{"/": 0}
	var ops []Op
	for i, e := range ents {
		idx[e.Path] = i + 1
		ops = append(ops, Op{Op: "LOOKUP", H: idx[pathDir(e.Path)], Name: e.Path[strings.LastIndexByte(e.Path, '/')+1:]})
	}
	return ops
}

// cacheless is the reference configuration of the C02 differential: caches at minimal TTL and size.
func cacheless(c SrvCfg) SrvCfg {
	c.AttrTTLms, c.AttrSize = 1, 1
	c.NegCache, c.DirCache = false, false
	return c
}

func runSeq(owners ...string) func(t *testing.T, scAny any, trace bool) *Outcome {
	return func(t *testing.T, scAny any, trace bool) *Outcome {
		sc := scAny.(*SeqScn)
		if sc.Direct != nil {
			return runHandleDirect(t, sc, trace, owners)
		}
		if sc.Race != nil {
			return runAttrRace(t, sc, trace)
		}
		if sc.CRace != nil {
			return runCreateRace(t, sc, trace)
		}
		if sc.Acc != nil {
			return runAccessRace(t, sc, trace)
		}
		if sc.Conc != nil {
			o := keepOwned(runC29All(t, sc.Conc, trace), owners...)
			o.NonTrivial = true
			return o
		}
		o := &Outcome{}
		res := Bubble(t, sc.Sched.config(trace), nil, func() {
			simrt.Event("scenario %x", simrt.Hash(hashBytes(mustJSON(sc))))
			if len(sc.Faults) > 0 {
				simrt.Probe("run_class.fault_injecting")
			} else {
				simrt.Probe("run_class.fault_free")
			}
			r := runSeqWorld(o, sc, sc.Cfg)
			if r == nil {
				return
			}
			defer r.finish()
			var rd *seqRun
			if sc.Diff {
				rd = runSeqWorld(o, sc, cacheless(sc.Cfg))
				if rd == nil {
					return
				}
				defer func() {
					if rd != nil {
						rd.finish()
					}
				}()
			}
			think := time.Duration(sc.ThinkM) * time.Millisecond
			ops := append(prologue(sc.Tree), sc.Ops...)
			npro := len(ops) - len(sc.Ops)
			for i, op := range ops {
				if sc.UpdAt > 0 && i-npro+1 == sc.UpdAt && sc.UpdCfg != nil {
					r.applyUpdate(sc.UpdCfg)
					if rd != nil {
						rd.applyUpdate(sc.UpdCfg)
					}
				}
				if i >= npro {
					simrt.Sleep(think + 2*time.Millisecond)
				} else {
					simrt.Sleep(2 * time.Millisecond)
				}
				r.cl.trace = r.cl.trace[:0]
				r.inj0, r.stall0 = r.w.FS.Injected(), r.w.FS.Stalled()
				r.lastWrite = nil
				hr0 := r.h(op.H)
				r.step(i-npro, op)
				if r.faulted() {
					r.afterFaulted(fmt.Sprintf("#%d %s", i-npro, op.Op), hr0)
				} else {
					r.compareTree(fmt.Sprintf("#%d %s", i-npro, op.Op))
				}
				if rd != nil {
					rd.cl.trace = rd.cl.trace[:0]
					rd.step(i-npro, op)
					o.Checks++
					a, b := strings.Join(r.cl.trace, " | "), strings.Join(rd.cl.trace, " | ")
					if a != b && r.aliasMut {
						o.Vio("C02.cache-changes-reply", "after-a-mutation-through-a-handle-whose-path-traverses-a-symlink", "#%d %s: reply with caches enabled differs from the reply of a server with caches at minimal TTL; earlier in this history a mutating request used a handle whose path the backend resolved through a symbolic link\n cached:   %s\n uncached: %s", i-npro, op.Op, clip(a, 700), clip(b, 700))
						rd.finish()
						rd = nil
					} else if a != b {
						o.Vio("C02.cache-changes-reply", "op="+op.Op+",last="+r.nearestMut(r.target), "#%d %s: reply with caches enabled differs from the reply of a server with caches at minimal TTL\n cached:   %s\n uncached: %s", i-npro, op.Op, clip(a, 700), clip(b, 700))
						// the two backends may have diverged: stop comparing them for the rest of the run
						rd.finish()
						rd = nil
					}
				}
				simrt.Event("op %d %s done", i-npro, op.Op)
				if sc.Kind == "C05" || sc.Kind == "C06" {
					r.checkHandleTable(fmt.Sprintf("#%d %s", i-npro, op.Op))
				}
			}
			switch sc.Kind {
			case "C01":
				o.NonTrivial = r.nWriteEOF >= 1 && r.nTrunc >= 1 && r.nRead >= 3
			case "C02":
				o.NonTrivial = r.nNegPos >= 1 && r.nReaddirAfterMut >= 1 && r.nRenameLooked >= 1
			case "C05", "C06":
				o.NonTrivial = r.evicted >= 2
			default:
				o.NonTrivial = len(sc.Ops) > 0
			}
		})
		// keep only the violations this property owns
		kept := o.Violations[:0]
		for _, v := range o.Violations {
			for _, own := range owners {
				if strings.HasPrefix(v.Signature, own) {
					kept = append(kept, v)
					break
				}
			}
		}
		o.Violations = kept
		o.finish(res, sc.Kind)
		return o
	}
}

func clip(s string, n int) string {
	if len(s) > n {
		return s[:n] + "..."
	}
	return s
}

// shrinkSeq: drop operations (ddmin-style chunks, then singles), drop tree entries, simplify knobs.
func shrinkSeq(scAny any) []any {
	sc := scAny.(*SeqScn)
	if sc.Direct != nil {
		return shrinkHandleDirect(sc)
	}
	if sc.Race != nil {
		return shrinkAttrRace(sc)
	}
	if sc.CRace != nil {
		return shrinkCreateRace(sc)
	}
	if sc.Acc != nil {
		return shrinkAccessRace(sc)
	}
	if sc.Conc != nil {
		var out []any
		for _, c := range shrinkC29(sc.Conc) {
			n := *sc
			n.Conc = c.(*C29Scn)
			out = append(out, &n)
		}
		return out
	}
	var out []any
	cp := func() *SeqScn {
		c := *sc
		c.Ops = append([]Op(nil), sc.Ops...)
		c.Tree = append([]TreeEnt(nil), sc.Tree...)
		c.Faults = append(c.Faults[:0:0], sc.Faults...)
		return &c
	}
	n := len(sc.Ops)
	for chunk := n / 2; chunk >= 1; chunk /= 2 {
		for start := 0; start+chunk <= n; start += chunk {
			c := cp()
			c.Ops = append(append([]Op(nil), sc.Ops[:start]...), sc.Ops[start+chunk:]...)
			if c.UpdAt > start+chunk {
				c.UpdAt -= chunk
			}
			out = append(out, c)
		}
		if chunk == 1 {
			break
		}
	}
	for i := range sc.Faults {
		c := cp()
		c.Faults = append(append(c.Faults[:0:0], sc.Faults[:i]...), sc.Faults[i+1:]...)
		out = append(out, c)
	}
	if sc.ThinkM > 0 {
		c := cp()
		c.ThinkM = 0
		out = append(out, c)
	}
	if sc.Segment {
		c := cp()
		c.Segment = false
		out = append(out, c)
	}
	if sc.UpdAt > 0 {
		c := cp()
		c.UpdAt, c.UpdCfg = 0, nil
		out = append(out, c)
	}
	def := SrvCfg{MaxWorkers: sc.Cfg.MaxWorkers, Squash: sc.Cfg.Squash}
	if sc.Cfg != def {
		for _, f := range []func(*SrvCfg){
			func(c *SrvCfg) { c.AttrTTLms, c.AttrSize = 0, 0 },
			func(c *SrvCfg) { c.NegCache, c.NegTTLms = false, 0 },
			func(c *SrvCfg) { c.DirCache, c.DirTTLms, c.DirMax = false, 0, 0 },
			func(c *SrvCfg) { c.TransferSize = 0 },
			func(c *SrvCfg) { c.MaxHandles = 0 },
		} {
			c := cp()
			f(&c.Cfg)
			if c.Cfg != sc.Cfg {
				out = append(out, c)
			}
		}
	}
	// shrink op arguments toward small values
	for i, op := range sc.Ops {
		if op.Count > 8 {
			c := cp()
			c.Ops[i].Count = op.Count / 2
			out = append(out, c)
		}
		if op.Off > 8 && op.Off < 1<<40 {
			c := cp()
			c.Ops[i].Off = op.Off / 2
			out = append(out, c)
		}
	}
	return out
}

// ---------- generators ----------

var nameAlphabet = []string{"a", "b", "c", "d", "e"}

// genConc: the concurrent class of the reply-consistency properties - C29's workload with caches enabled and
// long-lived, judged after quiescence by what a fresh client is told (c29AfterQuiescence).
func genConc(r *simrt.Rand, tier, kind string) *SeqScn {
	cs := genC29Mode(r, tier, true).(*C29Scn)
	return &SeqScn{Kind: kind, Conc: cs, Sched: cs.Sched}
}

func genCfg(r *simrt.Rand) SrvCfg {
	c := SrvCfg{MaxWorkers: 1 + r.Int(3)}
	switch r.Int(5) {
	case 0:
	case 1:
		c.TransferSize = 1 + r.Int(64)
	case 2:
		c.TransferSize = 512 << r.Int(5)
	case 3:
		c.TransferSize = 1 + r.Int(8192)
	case 4:
		c.TransferSize = 65536
	}
	c.AttrTTLms = []int{0, 1, 50, 2000, 60000, 3600000}[r.Int(6)]
	c.AttrSize = []int{0, 1, 2, 3, 8, 64}[r.Int(6)]
	if r.Pct(40) {
		c.NegCache = true
		c.NegTTLms = []int{0, 1, 100, 60000}[r.Int(4)]
	}
	if r.Pct(40) {
		c.DirCache = true
		c.DirTTLms = []int{0, 1, 100, 60000}[r.Int(4)]
		c.DirMax = []int{0, 1, 2, 16}[r.Int(4)]
	}
	return c
}

func genThink(r *simrt.Rand) int { return []int{0, 0, 1, 10, 120, 2500, 7000}[r.Int(7)] }

// shadow tracks what the generator believes exists so that operations are mostly meaningful.
type shadow struct {
	r     *simrt.Rand
	kind  map[string]string // path -> kind
	hpath []string          // predicted handle list
}

func newShadow(r *simrt.Rand, tree []TreeEnt) *shadow {
	s := &shadow{r: r, kind: map[string]string{"/": mDir}, hpath: []string{"/"}}
	for _, e := range sortedTree(tree) {
		k := mFile
		if e.Kind == "dir" {
			k = mDir
		} else if e.Kind == "symlink" {
			k = mLink
		}
		s.kind[e.Path] = k
		s.hpath = append(s.hpath, e.Path)
	}
	return s
}

// handleOf returns a handle index whose predicted path has one of the kinds ("" = any; "gone" = no longer exists).
func (s *shadow) handleOf(kinds ...string) int {
	var cands []int
	for i, p := range s.hpath {
		k, ok := s.kind[p]
		for _, want := range kinds {
			if (ok && k == want) || (want == "" && ok) || (want == "gone" && !ok) {
				cands = append(cands, i)
			}
		}
	}
	if len(cands) == 0 {
		return s.r.Int(len(s.hpath))
	}
	return cands[s.r.Int(len(cands))]
}

func (s *shadow) childrenOf(dir string) []string {
	var out []string
	pre := dir
	if pre != "/" {
		pre += "/"
	}
	for p := range s.kind {
		if p != "/" && strings.HasPrefix(p, pre) && !strings.Contains(p[len(pre):], "/") {
			out = append(out, p[len(pre):])
		}
	}
	sort.Strings(out)
	return out
}

func (s *shadow) remove(p string) {
	for q := range s.kind {
		if q == p || strings.HasPrefix(q, p+"/") {
			delete(s.kind, q)
		}
	}
}

func (s *shadow) name(dir string, wantExisting int) string {
	ch := s.childrenOf(dir)
	if len(ch) > 0 && s.r.Pct(wantExisting) {
		return ch[s.r.Int(len(ch))]
	}
	return nameAlphabet[s.r.Int(len(nameAlphabet))]
}

func genTree(r *simrt.Rand, nfiles, ndirs, nlinks int) []TreeEnt {
	var t []TreeEnt
	dirs := []string{"/"}
	used := map[string]bool{}
	pick := func() (string, bool) {
		d := dirs[r.Int(len(dirs))]
		if strings.Count(d, "/") >= 3 {
			d = "/"
		}
		p := joinPath(d, nameAlphabet[r.Int(len(nameAlphabet))])
		if used[p] {
			return "", false
		}
		used[p] = true
		return p, true
	}
	for i := 0; i < ndirs; i++ {
		if p, ok := pick(); ok {
			t = append(t, TreeEnt{Path: p, Kind: "dir", Mode: 0o755})
			dirs = append(dirs, p)
		}
	}
	for i := 0; i < nfiles; i++ {
		if p, ok := pick(); ok {
			t = append(t, TreeEnt{Path: p, Kind: "file", Mode: 0o644, Size: []int{0, 1, 100, 4096, 5000}[r.Int(5)], Seed: r.Uint64()})
		}
	}
	for i := 0; i < nlinks; i++ {
		if p, ok := pick(); ok {
			tg := nameAlphabet[r.Int(len(nameAlphabet))]
			if r.Pct(30) {
				tg = "nowhere/" + tg
			}
			t = append(t, TreeEnt{Path: p, Kind: "symlink", Target: tg})
		}
	}
	return t
}

func interestingOffset(r *simrt.Rand, size uint64, allowHuge bool) uint64 {
	switch r.Int(10) {
	case 0:
		return 0
	case 1:
		if size > 0 {
			return size - 1
		}
		return 0
	case 2:
		return size
	case 3:
		return size + uint64(1+r.Int(5000))
	case 4:
		return uint64(r.Int(3)) * 4096
	case 5:
		return uint64(r.Int(3))*4096 + 4095
	case 6:
		if allowHuge {
			return []uint64{1 << 31, 1<<32 - 1, 1 << 32, 1<<63 - 1 - uint64(r.Int(100)), 1<<63 + uint64(r.Int(3)), 1<<64 - 1 - uint64(r.Int(3))}[r.Int(6)]
		}
	}
	if size == 0 {
		return uint64(r.Int(64))
	}
	return uint64(r.Int(int(size) + 1))
}

func interestingCount(r *simrt.Rand, transfer int) uint32 {
	if transfer <= 0 {
		transfer = 65536
	}
	switch r.Int(8) {
	case 0:
		return 0
	case 1:
		return 1
	case 2:
		return uint32(transfer)
	case 3:
		return uint32(transfer + 1)
	case 4:
		if transfer > 1 {
			return uint32(transfer - 1)
		}
	case 5:
		return uint32(transfer) + uint32(r.Int(3000))
	}
	return uint32(1 + r.Int(300))
}

// ----- C01 -----

func genC01(r *simrt.Rand, tier string) any {
	sc := &SeqScn{Kind: "C01", Cfg: genCfg(r), Cred: RootCred, ThinkM: genThink(r), Sched: SeqSched(r.Uint64()), Segment: r.Pct(20)}
	sc.Tree = genTree(r, 1+r.Int(3), r.Int(2), 0)
	sh := newShadow(r, sc.Tree)
	sizes := map[string]uint64{}
	for _, e := range sc.Tree {
		if e.Kind == "file" {
			sizes[e.Path] = uint64(e.Size)
		}
	}
	n := 10 + r.Int(30)
	if tier == "thorough" {
		n = 10 + r.Int(50)
	}
	huge := r.Pct(30)
	for i := 0; i < n; i++ {
		h := sh.handleOf(mFile)
		p := sh.hpath[h]
		size := sizes[p]
		switch r.Pick([]int{35, 35, 12, 8, 5, 5}) {
		case 0:
			cnt := interestingCount(r, sc.Cfg.TransferSize)
			if cnt > 70000 {
				cnt = 70000
			}
			off := interestingOffset(r, size, huge)
			sc.Ops = append(sc.Ops, Op{Op: "WRITE", H: h, Off: off, Count: cnt, Seed: r.Uint64(), Stable: uint32(r.Int(3))})
			ts := uint64(sc.Cfg.TransferSize)
			if ts == 0 {
				ts = 65536
			}
			if uint64(cnt) <= ts && off < 1<<62 && off+uint64(cnt) > size {
				sizes[p] = off + uint64(cnt)
			}
		case 1:
			sc.Ops = append(sc.Ops, Op{Op: "READ", H: h, Off: interestingOffset(r, size, huge), Count: interestingCount(r, sc.Cfg.TransferSize)})
		case 2:
			ns := interestingOffset(r, size, false)
			g := r.Pick([]int{70, 15, 15})
			sc.Ops = append(sc.Ops, Op{Op: "SETATTR", H: h, SA: SA{Size: &ns}, Guard: g})
			if g != 2 {
				sizes[p] = ns
			}
		case 3:
			sc.Ops = append(sc.Ops, Op{Op: "GETATTR", H: h})
		case 4:
			// CREATE UNCHECKED with or without size on a fresh or existing name
			name := nameAlphabet[r.Int(len(nameAlphabet))]
			op := Op{Op: "CREATE", H: 0, Name: name, How: 0}
			if r.Pct(50) {
				s := uint64(r.Int(6000))
				op.SA.Size = &s
			}
			child := joinPath("/", name)
			if _, ok := sh.kind[child]; !ok {
				sh.kind[child] = mFile
				sizes[child] = 0
				if op.SA.Size != nil {
					sizes[child] = *op.SA.Size
				}
			}
			sh.hpath = append(sh.hpath, child)
			sc.Ops = append(sc.Ops, op)
		case 5:
			sc.Ops = append(sc.Ops, Op{Op: "SLEEP", SleepMs: []int{1, 100, 3000, 6000}[r.Int(4)]})
		}
	}
	if r.Pct(35) {
		genIOFaults(r, sc)
	}
	return sc
}

// genIOFaults turns a C01-style history into a fault-injecting one: 1-3 backend fault rules (I/O errors,
// full disk, short writes and reads, failing fsync/close/truncate/stat) that fire inside the data path of
// some later request. CREATE is taken out of such histories (its many-step backend sequence is C03's and
// C02's business and is judged there without faults).
func genIOFaults(r *simrt.Rand, sc *SeqScn) {
	for i := range sc.Ops {
		if sc.Ops[i].Op == "CREATE" {
			sc.Ops[i] = Op{Op: "GETATTR", H: sc.Ops[i].H}
		}
	}
	nf := 1 + r.Int(3)
	for i := 0; i < nf; i++ {
		f := simfs.Fault{Nth: 1 + r.Int(8)}
		switch r.Pick([]int{30, 12, 10, 12, 5, 8, 8, 5, 5, 5}) {
		case 0:
			f.Op, f.Kind, f.Short = "File.WriteAt", []string{"short", "short", "shortok"}[r.Int(3)], []int{0, 1, 2, 3, 7, 100, 1000, 4095, 4096, 4097}[r.Int(10)]
		case 1:
			f.Op, f.Kind = "File.WriteAt", []string{"eio", "enospc"}[r.Int(2)]
		case 2:
			f.Op, f.Kind = "File.Sync", "eio"
		case 3:
			f.Op, f.Kind = []string{"Truncate", "File.Truncate"}[r.Int(2)], []string{"eio", "enospc"}[r.Int(2)]
		case 4:
			f.Op, f.Kind = "File.Close", "eio"
		case 5:
			f.Op, f.Kind, f.Short = "File.ReadAt", "short", []int{0, 1, 3, 100}[r.Int(4)]
		case 6:
			f.Op, f.Kind = "File.ReadAt", "eio"
		case 7:
			f.Op, f.Kind = []string{"Stat", "Lstat", "File.Stat"}[r.Int(3)], "eio"
		case 8:
			f.Op, f.Kind = "OpenFile", []string{"eio", "eacces"}[r.Int(2)]
		case 9:
			f.Op, f.Kind = []string{"Chtimes", "Chmod"}[r.Int(2)], "eio"
		}
		sc.Faults = append(sc.Faults, f)
	}
	if r.Pct(20) {
		// a slow backend: one data-path call takes far longer than the (shortened) per-procedure time-outs,
		// yet less than the request time-out - and does its work. Whatever the server makes of the delay,
		// nothing may reach the file after the request has been answered.
		sc.Cfg.OpTimeoutMs = []int{100, 300, 2000}[r.Int(3)]
		sc.Faults = append(sc.Faults, simfs.Fault{Op: []string{"File.WriteAt", "File.WriteAt", "File.Sync", "OpenFile", "Truncate", "File.ReadAt", "File.Close"}[r.Int(7)], Nth: 1 + r.Int(8),
			Kind: []string{"stall", "stall_ret"}[r.Int(2)], Stall: time.Duration(2500+r.Int(9000)) * time.Millisecond})
	}
}

func init() {
	Register(&Prop{
		ID: "C01", Level: "exploration",
		Rule:    "one case = one sequential history of 10-60 WRITE/READ/SETATTR(size)/CREATE/GETATTR ops on 1-3 files with offsets at 0, EOF-1, EOF, beyond EOF, page boundaries, 2^31, 2^32, near 2^63 and 2^64, counts 0,1,transfer size +-1 and larger, per-run TransferSize, attribute-cache TTL/size, think time (so cached attributes expire or not) and stream segmentation; oracle after every reply: byte-array (write-log) model equality for READ data/count/eof, WRITE count, and backend content == model; 35% of the cases are fault-injecting: 1-3 backend fault rules (EIO/ENOSPC/EACCES from OpenFile, WriteAt, ReadAt, Sync, Close, Truncate, Stat, Chtimes; short WriteAt that stores k < n bytes, with an error or - bending io.WriterAt's contract - without one; short ReadAt) fire inside some request - only that request is judged by the relaxed clause (it may fail, a failed WRITE may leave payload[:k] at its offset and nothing else, a short read returns fewer correct bytes; a reply of NFS3_OK is still held to the exact model), the model is then re-read from the backend and every later operation is again judged exactly; a fifth of the fault-injecting cases also shorten every per-procedure time-out to 100 ms-2 s and let one data-path backend call (WriteAt, Sync, OpenFile, Truncate, ReadAt, Close) take 2.5-11.5 s - the call does its work, and nothing may reach the file after the request has been answered. non-trivial = >=1 WRITE crossing EOF or a hole, >=1 truncation and >=3 READs; distinct by event digest",
		Gen:     genC01,
		New:     func() any { return &SeqScn{} },
		Run:     runSeq("C01."),
		Shrink:  shrinkSeq,
		Real:    seqReal,
		Stubbed: seqStubbed,
	})
}

// ----- C02 -----

func genNamespaceOps(r *simrt.Rand, sc *SeqScn, sh *shadow, n int, withBadNames bool) {
	for i := 0; i < n; i++ {
		d := sh.handleOf(mDir)
		dp := sh.hpath[d]
		switch r.Pick([]int{18, 8, 8, 5, 10, 8, 10, 10, 6, 6, 3, 5, 3, 3}) {
		case 13:
			// motif: entries (negative and positive) are cached below a directory name, the
			// name then changes identity (removed and renamed-into, renamed-over, removed and
			// re-made), and the names below it are looked up again
			mkdir := func(name string) int {
				sc.Ops = append(sc.Ops, Op{Op: "MKDIR", H: 0, Name: name})
				if _, ok := sh.kind["/"+name]; !ok {
					sh.kind["/"+name] = mDir
					sh.hpath = append(sh.hpath, "/"+name)
					return len(sh.hpath) - 1
				}
				for i, p := range sh.hpath {
					if p == "/"+name {
						return i
					}
				}
				return 0
			}
			a, dd := "m"+nameAlphabet[r.Int(len(nameAlphabet))], "n"+nameAlphabet[r.Int(len(nameAlphabet))]
			hA, hD := mkdir(a), mkdir(dd)
			x := nameAlphabet[r.Int(len(nameAlphabet))]
			sc.Ops = append(sc.Ops, Op{Op: "CREATE", H: hA, Name: x})
			if _, ok := sh.kind["/"+a+"/"+x]; !ok && sh.kind["/"+a] == mDir {
				sh.kind["/"+a+"/"+x] = mFile
				sh.hpath = append(sh.hpath, "/"+a+"/"+x)
			}
			sc.Ops = append(sc.Ops, Op{Op: "LOOKUP", H: hD, Name: x}) // negative entry below the destination name
			if r.Pct(30) {
				sc.Ops = append(sc.Ops, Op{Op: "READDIR", H: hD, Count: 4096})
			}
			variant := r.Int(3)
			if variant != 1 {
				sc.Ops = append(sc.Ops, Op{Op: "RMDIR", H: 0, Name: dd})
				if len(sh.childrenOf("/"+dd)) == 0 {
					sh.remove("/" + dd)
				}
			}
			if variant == 2 {
				hD = mkdir(dd)
				sc.Ops = append(sc.Ops, Op{Op: "CREATE", H: hD, Name: x})
				if _, ok := sh.kind["/"+dd+"/"+x]; !ok && sh.kind["/"+dd] == mDir {
					sh.kind["/"+dd+"/"+x] = mFile
					sh.hpath = append(sh.hpath, "/"+dd+"/"+x)
				}
			} else {
				sc.Ops = append(sc.Ops, Op{Op: "RENAME", H: 0, Name: a, H2: 0, Name2: dd})
				if sh.kind["/"+a] == mDir && len(sh.childrenOf("/"+dd)) == 0 {
					moved := map[string]string{}
					for q, kk := range sh.kind {
						if q == "/"+a || strings.HasPrefix(q, "/"+a+"/") {
							moved["/"+dd+q[len("/"+a):]] = kk
						}
					}
					sh.remove("/" + a)
					sh.remove("/" + dd)
					for q, kk := range moved {
						sh.kind[q] = kk
					}
				}
			}
			sc.Ops = append(sc.Ops, Op{Op: "LOOKUP", H: hD, Name: x})
			sc.Ops = append(sc.Ops, Op{Op: "LOOKUP", H: 0, Name: dd})
			if sh.kind["/"+dd] == mDir {
				sh.hpath = append(sh.hpath, "/"+dd)
			}
			sc.Ops = append(sc.Ops, Op{Op: "READDIR", H: hD, Count: 4096})
		case 0: // LOOKUP
			name := sh.name(dp, 60)
			sc.Ops = append(sc.Ops, Op{Op: "LOOKUP", H: d, Name: name})
			if _, ok := sh.kind[joinPath(dp, name)]; ok {
				sh.hpath = append(sh.hpath, joinPath(dp, name))
			}
		case 1: // CREATE (size never set here: C02 is about names)
			name := sh.name(dp, 20)
			sc.Ops = append(sc.Ops, Op{Op: "CREATE", H: d, Name: name, How: 0})
			child := joinPath(dp, name)
			if _, ok := sh.kind[child]; !ok {
				sh.kind[child] = mFile
			}
			if sh.kind[child] == mFile {
				sh.hpath = append(sh.hpath, child)
			}
		case 2: // MKDIR
			name := sh.name(dp, 15)
			sc.Ops = append(sc.Ops, Op{Op: "MKDIR", H: d, Name: name})
			child := joinPath(dp, name)
			if _, ok := sh.kind[child]; !ok && strings.Count(child, "/") <= 3 {
				sh.kind[child] = mDir
				sh.hpath = append(sh.hpath, child)
			} else if !ok {
				sh.kind[child] = mDir
				sh.hpath = append(sh.hpath, child)
			}
		case 3: // SYMLINK
			name := sh.name(dp, 15)
			tg := nameAlphabet[r.Int(len(nameAlphabet))]
			if r.Pct(25) {
				tg = "x/" + tg
			}
			sc.Ops = append(sc.Ops, Op{Op: "SYMLINK", H: d, Name: name, Target: tg})
			child := joinPath(dp, name)
			if _, ok := sh.kind[child]; !ok {
				sh.kind[child] = mLink
				sh.hpath = append(sh.hpath, child)
			}
		case 4: // REMOVE
			name := sh.name(dp, 85)
			sc.Ops = append(sc.Ops, Op{Op: "REMOVE", H: d, Name: name})
			child := joinPath(dp, name)
			if k, ok := sh.kind[child]; ok && (k != mDir) {
				sh.remove(child)
			}
		case 5: // RMDIR
			name := sh.name(dp, 85)
			sc.Ops = append(sc.Ops, Op{Op: "RMDIR", H: d, Name: name})
			child := joinPath(dp, name)
			if k, ok := sh.kind[child]; ok && k == mDir && len(sh.childrenOf(child)) == 0 {
				sh.remove(child)
			}
		case 6: // RENAME
			d2 := sh.handleOf(mDir)
			dp2 := sh.hpath[d2]
			n1, n2 := sh.name(dp, 85), sh.name(dp2, 30)
			sc.Ops = append(sc.Ops, Op{Op: "RENAME", H: d, Name: n1, H2: d2, Name2: n2})
			from, to := joinPath(dp, n1), joinPath(dp2, n2)
			if k, ok := sh.kind[from]; ok && from != to && !strings.HasPrefix(to, from+"/") {
				if k2, ok2 := sh.kind[to]; !ok2 || (k2 != mDir && k != mDir) {
					moved := map[string]string{}
					for q, kk := range sh.kind {
						if q == from || strings.HasPrefix(q, from+"/") {
							moved[to+q[len(from):]] = kk
						}
					}
					sh.remove(from)
					sh.remove(to)
					for q, kk := range moved {
						sh.kind[q] = kk
					}
				}
			}
		case 7: // READDIR / READDIRPLUS
			op := "READDIR"
			if r.Pct(50) {
				op = "READDIRPLUS"
			}
			sc.Ops = append(sc.Ops, Op{Op: op, H: d, Count: []uint32{0, 512, 1024, 4096, 8192}[r.Int(5)]})
		case 8: // GETATTR on anything (including handles of removed or renamed objects)
			sc.Ops = append(sc.Ops, Op{Op: "GETATTR", H: sh.handleOf("", "gone")})
		case 9:
			sc.Ops = append(sc.Ops, Op{Op: "READLINK", H: sh.handleOf(mLink, mLink, mFile)})
		case 10:
			sc.Ops = append(sc.Ops, Op{Op: "SLEEP", SleepMs: []int{1, 150, 3000, 6000, 11000}[r.Int(5)]})
		case 11: // operation through a stale or non-directory handle
			h := sh.handleOf(mFile, "gone", mLink)
			sc.Ops = append(sc.Ops, Op{Op: []string{"LOOKUP", "CREATE", "MKDIR", "REMOVE", "READDIR"}[r.Int(5)], H: h, Name: sh.name("/", 50)})
		case 12:
			if withBadNames {
				bad := []string{"", ".", "..", "a/b", "a\\b", "../a", strings.Repeat("n", 256)}[r.Int(7)]
				sc.Ops = append(sc.Ops, Op{Op: []string{"LOOKUP", "CREATE", "MKDIR", "REMOVE", "RMDIR", "SYMLINK"}[r.Int(6)], H: d, Name: bad, Target: "t"})
			}
		}
	}
}

func genC02(r *simrt.Rand, tier string) any {
	if r.Pct(20) {
		return genConc(r, tier, "C02") // concurrent class
	}
	sc := &SeqScn{Kind: "C02", Cfg: genCfg(r), Cred: RootCred, ThinkM: genThink(r), Sched: SeqSched(r.Uint64()), Diff: true}
	// the cached side of the differential gets real caching most of the time
	if r.Pct(70) {
		sc.Cfg.AttrTTLms = []int{2000, 60000, 3600000}[r.Int(3)]
		sc.Cfg.AttrSize = []int{0, 2, 8, 64}[r.Int(4)]
		sc.Cfg.NegCache, sc.Cfg.NegTTLms = r.Pct(70), []int{0, 100, 60000}[r.Int(3)]
		sc.Cfg.DirCache, sc.Cfg.DirTTLms, sc.Cfg.DirMax = r.Pct(70), []int{0, 100, 60000}[r.Int(3)], []int{0, 1, 2, 16}[r.Int(4)]
	}
	sc.Tree = genTree(r, 1+r.Int(4), 1+r.Int(3), r.Int(3))
	// files of a C02 tree are empty: the property is about names, not data
	for i := range sc.Tree {
		sc.Tree[i].Size = 0
	}
	sh := newShadow(r, sc.Tree)
	n := 15 + r.Int(30)
	if tier == "thorough" {
		n = 15 + r.Int(45)
	}
	genNamespaceOps(r, sc, sh, n, true)
	if r.Pct(25) {
		// fault-injecting class: ONE backend error (non-repeating, so that a roll-back can succeed) lands in
		// some request. The faulted request may fail - then the tree must be exactly as before ("a failed
		// request leaves the tree unchanged") - or succeed - then its effect must be complete. No lock-step
		// differential here: the two servers make different numbers of backend calls.
		sc.Diff = false
		f := simfs.Fault{Nth: 1 + r.Int(10), Kind: []string{"eio", "eio", "enospc", "eacces"}[r.Int(4)]}
		f.Op = []string{"Create", "Mkdir", "Symlink", "Remove", "Rename", "Chmod", "Chown", "Lchown", "File.Close", "Lstat", "Stat", "Readlink", "ReadDir", "OpenFile", ""}[r.Int(15)]
		if f.Op == "Lstat" || f.Op == "" {
			f.Nth = 1 + r.Int(150)
		}
		if r.Pct(25) {
			// a slow backend instead of a failing one: the mutating call takes longer than the procedure's own
			// time-out (15-20 s) but less than the request time-out (30 s) - and does its work
			f = simfs.Fault{Op: []string{"Rename", "Remove", "Create", "Mkdir", "Symlink"}[r.Int(5)], Nth: 1 + r.Int(5), Kind: []string{"stall", "stall_ret"}[r.Int(2)], Stall: time.Duration(16+r.Int(12)) * time.Second}
			if f.Op == "Rename" {
				f.Stall = time.Duration(21+r.Int(7)) * time.Second
			}
		}
		sc.Faults = append(sc.Faults, f)
		if r.Pct(15) {
			// a CREATE that asks for an initial size, with the truncation that applies it failing: the request fails
			// and must not leave the file it has just made behind
			for i := range sc.Ops {
				if sc.Ops[i].Op == "CREATE" && r.Pct(60) {
					sz := uint64(1 + r.Int(40))
					sc.Ops[i].SA.Size = &sz
				}
			}
			sc.Faults = []simfs.Fault{{Op: "Truncate", Nth: 1 + r.Int(3), Kind: []string{"eio", "enospc"}[r.Int(2)]}}
		}
	}
	return sc
}

func init() {
	Register(&Prop{
		ID: "C02", Level: "exploration",
		Rule:    "one case = one sequential history of 15-60 LOOKUP/CREATE/MKDIR/SYMLINK/REMOVE/RMDIR/RENAME/READDIR(PLUS)/GETATTR/READLINK ops over a 5-letter alphabet, depth <=3, through handles from earlier replies (including handles of removed/renamed objects, non-directory and invalid names), run in lock-step against two real servers in one bubble: one with the drawn attribute/negative/directory cache configuration and think times on the fake clock, one with caches at minimal TTL and size. Oracles per operation: success/failure equals the POSIX tree model, backend tree == model tree, listings == model children, the two servers' decoded replies are equal (timestamps excluded); 20% of the cases are the concurrent class: C29's workload (2-4 clients on separate connections, shared directories and handles, renames, removes, writes, peeks at each other's names, caches enabled with hour-long lifetimes, optional backend stalls and errors, every interleaving decided by the seeded scheduler) followed, once every request has been answered, by a fresh client that looks every name up: a name the backend has must be found, a name it lacks must not (caches never hide a mutation the server completed); 25% of the cases instead inject one backend error (EIO/ENOSPC/EACCES on create, mkdir, symlink, remove, rename, chmod, chown, close, lstat, ...) or one slow mutating backend call (16-28 s: longer than the procedure's own time-out, shorter than the request time-out) into some request of a single server: a faulted request that fails must leave the backend tree exactly as it was, one that succeeds must have its complete effect, and every later request is judged exactly (15% of the error cases give CREATE calls an initial size and fail the truncation that applies it). non-trivial = >=1 negative LOOKUP later made positive, >=1 READDIR after a mutation of that directory, >=1 REMOVE/RMDIR/RENAME of something previously looked up; distinct by event digest",
		Gen:     genC02,
		New:     func() any { return &SeqScn{} },
		Run:     runSeq("C02."),
		Shrink:  shrinkSeq,
		Real:    seqReal,
		Stubbed: seqStubbed,
	})
}

// ----- C03 -----

func genC03(r *simrt.Rand, tier string) any {
	if r.Pct(20) {
		// concurrent class: CREATE requests of several clients for one name at once
		cr := genCreateRace(r)
		return &SeqScn{Kind: "C03", CRace: cr, Sched: cr.Sched}
	}
	sc := &SeqScn{Kind: "C03", Cfg: genCfg(r), Cred: RootCred, ThinkM: genThink(r), Sched: SeqSched(r.Uint64())}
	sc.Tree = []TreeEnt{
		{Path: "/f", Kind: "file", Mode: 0o644, Size: 1 + r.Int(5000), Seed: r.Uint64()},
		{Path: "/d", Kind: "dir", Mode: 0o755},
		{Path: "/l", Kind: "symlink", Target: "f"},
		{Path: "/dl", Kind: "symlink", Target: "gone"},
		{Path: "/d/g", Kind: "file", Mode: 0o600, Size: r.Int(100), Seed: r.Uint64()},
	}
	n := 4 + r.Int(14)
	verfs := []uint64{1, 2, r.Uint64(), 0} // the all-zero verifier is a verifier like any other
	names := []string{"f", "d", "l", "dl", "new1", "new2", "x"}
	for i := 0; i < n; i++ {
		switch r.Pick([]int{70, 10, 10, 10}) {
		case 0:
			op := Op{Op: "CREATE", H: 0, Name: names[r.Int(len(names))], How: uint32(r.Int(3)), Verf: verfs[r.Int(len(verfs))]}
			if r.Pct(20) {
				op.H = 2 // directory /d
				op.Name = []string{"g", "h"}[r.Int(2)]
			}
			if r.Pct(35) {
				m := uint32([]int{0o600, 0o644, 0o755, 0}[r.Int(4)])
				op.SA.Mode = &m
			}
			if r.Pct(25) {
				s := uint64(r.Int(3000))
				op.SA.Size = &s
			}
			if r.Pct(15) {
				u := uint32(r.Int(3))
				op.SA.UID = &u
			}
			if r.Pct(15) {
				op.SA.Mtime = uint32(1 + r.Int(2))
			}
			sc.Ops = append(sc.Ops, op)
		case 1:
			sc.Ops = append(sc.Ops, Op{Op: "READ", H: 1, Off: 0, Count: 6000})
		case 2:
			sc.Ops = append(sc.Ops, Op{Op: "REMOVE", H: 0, Name: names[r.Int(len(names))]})
		case 3:
			sc.Ops = append(sc.Ops, Op{Op: "SLEEP", SleepMs: []int{1, 3000, 7000}[r.Int(3)]})
		}
	}
	if r.Pct(30) {
		// fault-injecting class: 1-2 backend errors land inside some CREATE (at its existence check, the
		// create itself, or while it applies sattr3). A faulted CREATE may fail with any error; it must
		// still never succeed where the mode forbids it nor destroy the data of an existing file.
		nf := 1 + r.Int(2)
		for i := 0; i < nf; i++ {
			f := simfs.Fault{Nth: 1 + r.Int(14), Kind: "eio"}
			f.Op = []string{"Lstat", "Lstat", "Lstat", "Stat", "Create", "OpenFile", "Truncate", "Chmod", "Chown", "File.Close", "Remove", "Remove"}[r.Int(12)]
			if f.Op == "Remove" {
				f.Nth = 1 + r.Int(3)
			}
			if r.Pct(20) {
				f.Kind = []string{"enospc", "eacces"}[r.Int(2)]
			}
			sc.Faults = append(sc.Faults, f)
		}
		if r.Pct(25) {
			// a slow backend instead: one call of some CREATE takes far longer than the (shortened)
			// per-procedure time-outs, less than the request time-out, and does its work; nothing may happen
			// to the name after the CREATE has been answered
			sc.Cfg.OpTimeoutMs = []int{100, 300, 2000}[r.Int(3)]
			sc.Faults = []simfs.Fault{{Op: []string{"Create", "Create", "OpenFile", "Lstat", "Chmod", "File.Close", "Truncate"}[r.Int(7)], Nth: 1 + r.Int(8),
				Kind: []string{"stall", "stall_ret"}[r.Int(2)], Stall: time.Duration(2500+r.Int(9000)) * time.Millisecond}}
		}
	}
	return sc
}

func init() {
	Register(&Prop{
		ID: "C03", Level: "exploration",
		Rule:    "one case = a history of 4-18 CREATE calls (every mode UNCHECKED/GUARDED/EXCLUSIVE, sattr3 subsets incl. size/mode/uid/times, verifiers equal to or different from the creating call's) against names occupied by nothing, a regular file with unique data, a directory, a symlink (dangling or not), interleaved with READ/REMOVE/clock advances; oracle: GUARDED on existing => NFS3ERR_EXIST, EXCLUSIVE on existing => OK only for the creating verifier, existing file bytes identical afterwards unless size was set, backend tree == model; 30% of the cases inject 1-2 backend errors (lstat/stat at the existence check, create, open, truncate, chmod, chown, close; or the remove of a REMOVE between two CREATEs) inside some request: a faulted CREATE may fail with any status but must still not succeed where the mode forbids it nor change the data of an existing file; a quarter of these instead shorten every per-procedure time-out to 100 ms-2 s and let one backend call of some CREATE (create, open, lstat, chmod, close, truncate) take 2.5-11.5 s: nothing may happen to the name after the CREATE has been answered; a fifth of all cases are the concurrent class: 2-4 clients send CREATE for ONE name at the same time on separate connections (all EXCLUSIVE with 1-3 distinct verifiers, all GUARDED, or mixed with UNCHECKED; name absent or (25%) present with data; 40% followed by a WRITE through the returned handle; 2-4 workers, 0-2 backend stalls of 0.1-40 ms, every interleaving decided by the seeded scheduler) - at most one GUARDED create succeeds, in an all-EXCLUSIVE run all successful creates carry one verifier, GUARDED never succeeds on a pre-existing name, and the pre-existing bytes beyond the longest acknowledged write survive; in 30% of the concurrent runs that start without the name one more client RENAMEs a file with data onto the name while the creates (then all GUARDED, none writing) are in the server: a RENAME answered NFS3_OK leaves exactly the moved bytes at the name, whichever order the requests took (probe c03.rename_onto_name_while_creating); non-trivial = at least one CREATE; distinct by event digest",
		Gen:     genC03,
		New:     func() any { return &SeqScn{} },
		Run:     runSeq("C03."),
		Shrink:  shrinkSeq,
		Real:    seqReal,
		Stubbed: seqStubbed,
	})
}

// ----- C04 (and the always-on attribute monitor) -----

func genC04(r *simrt.Rand, tier string) any {
	if r.Pct(20) {
		return genConc(r, tier, "C04") // concurrent class
	}
	sc := &SeqScn{Kind: "C04", Cfg: genCfg(r), Cred: RootCred, ThinkM: genThink(r), Sched: SeqSched(r.Uint64())}
	sc.Tree = genTree(r, 1+r.Int(3), 1+r.Int(2), 1+r.Int(3))
	sh := newShadow(r, sc.Tree)
	n := 12 + r.Int(25)
	for i := 0; i < n; i++ {
		any := sh.handleOf("")
		switch r.Pick([]int{20, 15, 10, 10, 10, 10, 8, 8, 5, 4, 8}) {
		case 10: // SETATTR with a size (and sometimes a mode) on anything, symbolic links included
			sz := uint64([]int{0, 1, 2, 7, 100, 300}[r.Int(6)])
			op := Op{Op: "SETATTR", H: any, SA: SA{Size: &sz}}
			if r.Pct(30) {
				m := uint32(r.Int(0o1000))
				op.SA.Mode = &m
			}
			sc.Ops = append(sc.Ops, op)
		case 0: // SETATTR with arbitrary mode bits on anything
			m := uint32(r.Int(0o10000))
			if r.Pct(20) {
				m |= 0o40000 // type bits in the mode word
			}
			if r.Pct(10) {
				m |= 0o100000
			}
			sc.Ops = append(sc.Ops, Op{Op: "SETATTR", H: any, SA: SA{Mode: &m}})
		case 1:
			sc.Ops = append(sc.Ops, Op{Op: "GETATTR", H: any})
		case 2:
			d := sh.handleOf(mDir)
			sc.Ops = append(sc.Ops, Op{Op: "READDIRPLUS", H: d, Count: 8192})
		case 3:
			d := sh.handleOf(mDir)
			name := sh.name(sh.hpath[d], 90)
			sc.Ops = append(sc.Ops, Op{Op: "LOOKUP", H: d, Name: name})
			if _, ok := sh.kind[joinPath(sh.hpath[d], name)]; ok {
				sh.hpath = append(sh.hpath, joinPath(sh.hpath[d], name))
			}
		case 4:
			sc.Ops = append(sc.Ops, Op{Op: "ACCESS", H: any, Mask: 0x3f})
		case 5:
			sc.Ops = append(sc.Ops, Op{Op: "READ", H: sh.handleOf(mFile), Off: 0, Count: 100})
		case 6:
			sc.Ops = append(sc.Ops, Op{Op: "READLINK", H: sh.handleOf(mLink)})
		case 7:
			sc.Ops = append(sc.Ops, Op{Op: "WRITE", H: sh.handleOf(mFile), Off: uint64(r.Int(200)), Count: uint32(1 + r.Int(100)), Seed: r.Uint64()})
		case 8:
			sc.Ops = append(sc.Ops, Op{Op: "READDIR", H: sh.handleOf(mDir), Count: 4096})
		case 9:
			sc.Ops = append(sc.Ops, Op{Op: "SLEEP", SleepMs: []int{1, 2500, 7000}[r.Int(3)]})
		}
	}
	// a few namespace operations so that CREATE/MKDIR/SYMLINK results and wcc data are covered
	genNamespaceOps(r, sc, sh, 4+r.Int(6), false)
	if r.Pct(25) {
		// fault-injecting class (as in C01): after a request that failed half-way, what LOOKUP, GETATTR,
		// READDIRPLUS and the wcc data of later requests report must again agree with the backend
		keep := append([]Op(nil), sc.Ops...)
		genIOFaults(r, sc)
		copy(sc.Ops, keep) // keep the CREATE operations: their faulted outcome is judged loosely here
		if r.Pct(50) {
			// motif: a SETATTR that sets size AND mode fails between its steps (the truncate done, the chmod
			// not), then the object is looked at through its directory and through its own handle
			fh := sh.handleOf(mFile)
			fp := sh.hpath[fh]
			dh := 0
			for i, hp := range sh.hpath {
				if hp == pathDir(fp) {
					dh = i
				}
			}
			sz, md := uint64(r.Int(50)), uint32(r.Int(0o1000))
			sc.Faults = append(sc.Faults, simfs.Fault{Op: []string{"Chmod", "Chown", "Chtimes"}[r.Int(3)], Nth: 1 + r.Int(2), Kind: "eio"})
			sa := SA{Size: &sz, Mode: &md, Mtime: 1}
			if r.Pct(50) {
				sa.Size = nil // no truncation step (which drops the cached attributes on its own)
			}
			mid := Op{Op: "SETATTR", H: fh, SA: sa}
			if r.Pct(30) {
				// ... or an UNCHECKED CREATE of the existing file that sets size and mode (truncate, then chmod)
				mid = Op{Op: "CREATE", H: dh, Name: fp[strings.LastIndexByte(fp, '/')+1:], How: 0, SA: SA{Size: &sz, Mode: &md}}
			}
			sc.Ops = append(sc.Ops, Op{Op: "LOOKUP", H: dh, Name: fp[strings.LastIndexByte(fp, '/')+1:]}, mid,
				Op{Op: "LOOKUP", H: dh, Name: fp[strings.LastIndexByte(fp, '/')+1:]}, Op{Op: "GETATTR", H: fh}, Op{Op: "READDIRPLUS", H: dh, Count: 8192})
		}
	}
	return sc
}

// pickSeqGen lets the monitor properties (C04, C07, C11, C12, C14) run over the other workloads too.
func mixGen(own func(*simrt.Rand, string) any, ownPct int, kind string) func(*simrt.Rand, string) any {
	return func(r *simrt.Rand, tier string) any {
		if r.Pct(ownPct) {
			return own(r, tier)
		}
		var sc *SeqScn
		switch r.Int(4) {
		case 0:
			sc = genC01(r, tier).(*SeqScn)
		case 1:
			sc = genC02(r, tier).(*SeqScn)
			sc.Diff = false
		case 2:
			sc = genC03(r, tier).(*SeqScn)
		default:
			sc = genC04(r, tier).(*SeqScn)
		}
		return sc
	}
}

func init() {
	Register(&Prop{
		ID: "C04", Level: "exploration",
		Rule:    "one case = a sequential history over a tree with files, directories and symlinks (incl. dangling): SETATTR with arbitrary 12-bit modes and type bits in the mode word, GETATTR, LOOKUP, READDIRPLUS, ACCESS, READ, READLINK, WRITE, namespace operations, clock advances, per-run cache configuration, in a quarter of these with 1-3 injected backend errors / short transfers as in C01 (the faulted request is exempt, every later reply is judged exactly; half of these end with the half-failed motif: LOOKUP, then a SETATTR of mode and times, with or without size - or (30%) an UNCHECKED CREATE of the existing file with size and mode - whose chmod/chown/chtimes fails, then LOOKUP, GETATTR and READDIRPLUS of the object) (60%), or one of the C01/C02/C03 workloads (40%); monitor on every attribute block of every reply (fattr3, post_op_attr, wcc after, entryplus3): type and fileid constant while the path is unchanged; type, size and permission bits equal to the backend lstat at reply time; 20% of the cases are the concurrent class: C29's workload (2-4 clients on separate connections, shared directories and handles, renames, removes, writes, peeks at each other's names, caches enabled with hour-long lifetimes, optional backend stalls and errors, every interleaving decided by the seeded scheduler) followed, once every request has been answered, by a fresh client that looks every name up: type, size and permission bits in the reply equal the backend's lstat; non-trivial = at least one operation executed; distinct by event digest",
		Gen:     mixGen(genC04, 60, "C04"),
		New:     func() any { return &SeqScn{} },
		Run:     runSeq("C04."),
		Shrink:  shrinkSeq,
		Real:    seqReal,
		Stubbed: seqStubbed,
	})
}

// ----- C05 / C06 (server level) -----

func genC05(kind string) func(r *simrt.Rand, tier string) any {
	return func(r *simrt.Rand, tier string) any {
		if r.Pct(25) {
			return genHandleDirect(r, kind)
		}
		sc := &SeqScn{Kind: kind, Cfg: genCfg(r), Cred: RootCred, ThinkM: []int{0, 0, 1, 50}[r.Int(4)], Sched: SeqSched(r.Uint64())}
		sc.Cfg.MaxHandles = []int{1, 2, 3, 5, 10, 16, 32}[r.Int(7)]
		// a wide tree: many more paths than handles
		nd := 1 + r.Int(4)
		for i := 0; i < nd; i++ {
			d := "/" + nameAlphabet[i]
			sc.Tree = append(sc.Tree, TreeEnt{Path: d, Kind: "dir", Mode: 0o755})
			nf := r.Int(12)
			for j := 0; j < nf; j++ {
				sc.Tree = append(sc.Tree, TreeEnt{Path: fmt.Sprintf("%s/f%d", d, j), Kind: "file", Mode: 0o644, Size: r.Int(50), Seed: r.Uint64()})
			}
		}
		sh := newShadow(r, sc.Tree)
		n := 10 + r.Int(40)
		for i := 0; i < n; i++ {
			d := sh.handleOf(mDir)
			dp := sh.hpath[d]
			switch r.Pick([]int{30, 10, 10, 8, 20, 10, 4, 3, 5}) {
			case 0:
				name := sh.name(dp, 90)
				sc.Ops = append(sc.Ops, Op{Op: "LOOKUP", H: d, Name: name})
				if _, ok := sh.kind[joinPath(dp, name)]; ok {
					sh.hpath = append(sh.hpath, joinPath(dp, name))
				}
			case 1:
				name := fmt.Sprintf("n%d", r.Int(30))
				sc.Ops = append(sc.Ops, Op{Op: "CREATE", H: d, Name: name})
				if _, ok := sh.kind[joinPath(dp, name)]; !ok {
					sh.kind[joinPath(dp, name)] = mFile
				}
				sh.hpath = append(sh.hpath, joinPath(dp, name))
			case 2:
				name := fmt.Sprintf("m%d", r.Int(10))
				sc.Ops = append(sc.Ops, Op{Op: "MKDIR", H: d, Name: name})
				if _, ok := sh.kind[joinPath(dp, name)]; !ok {
					sh.kind[joinPath(dp, name)] = mDir
					sh.hpath = append(sh.hpath, joinPath(dp, name))
				}
			case 3:
				sc.Ops = append(sc.Ops, Op{Op: "READDIRPLUS", H: d, Count: 8192})
			case 4: // reuse any previously issued handle value
				sc.Ops = append(sc.Ops, Op{Op: []string{"GETATTR", "GETATTR", "READ", "ACCESS"}[r.Int(4)], H: r.Int(200), Count: 20, Mask: 0x3f})
			case 5:
				sc.Ops = append(sc.Ops, Op{Op: "MNT", Name: []string{"/", dp, "/a/../" + nameAlphabet[r.Int(5)]}[r.Int(3)]})
			case 6:
				name := sh.name(dp, 90)
				sc.Ops = append(sc.Ops, Op{Op: "REMOVE", H: d, Name: name})
				if k, ok := sh.kind[joinPath(dp, name)]; ok && k != mDir {
					sh.remove(joinPath(dp, name))
				}
			case 7:
				if kind == "C06" {
					sc.Ops = append(sc.Ops, Op{Op: "UNEXPORT"})
				}
			case 8:
				name := fmt.Sprintf("s%d", r.Int(10))
				sc.Ops = append(sc.Ops, Op{Op: "SYMLINK", H: d, Name: name, Target: "f0"})
				if _, ok := sh.kind[joinPath(dp, name)]; !ok {
					sh.kind[joinPath(dp, name)] = mLink
					sh.hpath = append(sh.hpath, joinPath(dp, name))
				}
			}
		}
		if r.Pct(20) {
			// fault-injecting class: the backend's lstat fails now and then (while handles are being issued by
			// LOOKUP and READDIRPLUS): whatever handle is issued must still be the one handle of its path
			sc.Cfg.MaxHandles = []int{16, 32, 0}[r.Int(3)] // no eviction pressure here: a second value for a path has no excuse
			for i, n := 0, 1+r.Int(3); i < n; i++ {
				sc.Faults = append(sc.Faults, simfs.Fault{Op: "Lstat", Nth: 3 + r.Int(60), Kind: "eio", Repeat: r.Pct(15)})
			}
		}
		return sc
	}
}

// ----- C07 -----

var advChars = []string{"a", ".", "/", "\\", "\x00", " ", "\x80"}

func advName(r *simrt.Rand) string {
	switch r.Int(14) {
	case 0:
		return strings.Repeat("n", 254+r.Int(2))
	case 1:
		return strings.Repeat("n", 256+r.Int(2))
	case 12:
		// the limit is in bytes, not characters: multi-byte names either side of 255 bytes
		return []string{strings.Repeat("\u00e9", 127) + "a", strings.Repeat("\u00e9", 128), strings.Repeat("\u20ac", 85), strings.Repeat("\u20ac", 86), strings.Repeat("\u00e9", 200)}[r.Int(5)]
	case 13:
		return strings.Repeat("\u00e9", 1+r.Int(3))
	case 2:
		return strings.Repeat("ab/", 1+r.Int(40)) + ".."
	case 3:
		return ""
	}
	// one of the strings of length 1..4 over the adversarial alphabet
	n := 1 + r.Int(4)
	var b strings.Builder
	for i := 0; i < n; i++ {
		b.WriteString(advChars[r.Int(len(advChars))])
	}
	return b.String()
}

func advTarget(r *simrt.Rand) string {
	switch r.Int(8) {
	case 0:
		return "/etc/passwd"
	case 1:
		return "../x"
	case 2:
		return "a/../../b"
	case 3:
		return "a/b/c"
	case 4:
		return "..."
	case 5:
		return "a/.."
	}
	return advName(r)
}

func genC07(r *simrt.Rand, tier string) any {
	if r.Pct(10) {
		return genConc(r, tier, "C07") // concurrent class
	}
	sc := &SeqScn{Kind: "C07", Cfg: genCfg(r), Cred: RootCred, ThinkM: genThink(r), Sched: SeqSched(r.Uint64())}
	sc.Tree = genTree(r, 1+r.Int(3), 1+r.Int(2), r.Int(2))
	if r.Pct(30) {
		// a pre-existing symlink whose target escapes: READLINK must not hand it out
		sc.Tree = append(sc.Tree, TreeEnt{Path: "/esc", Kind: "symlink", Target: []string{"../../etc", "a/../../x", "/abs", "a/../b", "a/b/../../c", "a/..", "./..", "..", "a/./../b/.."}[r.Int(9)]})
	}
	if r.Pct(20) {
		sc.Tree = append(sc.Tree, TreeEnt{Path: "/esc2", Kind: "symlink", Target: []string{"a/../b", "x/y/../z", "..a", "a..", "a/..b/c"}[r.Int(5)]})
	}
	sh := newShadow(r, sc.Tree)
	n := 10 + r.Int(30)
	for i := 0; i < n; i++ {
		d := sh.handleOf(mDir)
		name := advName(r)
		if r.Pct(25) {
			name = sh.name(sh.hpath[d], 50)
		}
		switch r.Pick([]int{18, 14, 12, 14, 10, 8, 12, 6, 6}) {
		case 0:
			sc.Ops = append(sc.Ops, Op{Op: "LOOKUP", H: d, Name: name})
		case 1:
			sc.Ops = append(sc.Ops, Op{Op: "CREATE", H: d, Name: name, How: uint32(r.Int(3))})
		case 2:
			sc.Ops = append(sc.Ops, Op{Op: "MKDIR", H: d, Name: name})
		case 3:
			tg := advTarget(r)
			if r.Pct(30) {
				name = nameAlphabet[r.Int(5)] + "l"
			}
			sc.Ops = append(sc.Ops, Op{Op: "SYMLINK", H: d, Name: name, Target: tg})
		case 4:
			sc.Ops = append(sc.Ops, Op{Op: "REMOVE", H: d, Name: name})
		case 5:
			sc.Ops = append(sc.Ops, Op{Op: "RMDIR", H: d, Name: name})
		case 6:
			n2 := advName(r)
			if r.Pct(50) {
				name = sh.name(sh.hpath[d], 90)
			}
			sc.Ops = append(sc.Ops, Op{Op: "RENAME", H: d, Name: name, H2: sh.handleOf(mDir), Name2: n2})
		case 7:
			sc.Ops = append(sc.Ops, Op{Op: "MNT", Name: []string{"/", "//", "/..", "/../..", "/a/../../b", "a", "", "/./a/.", "/a\\..\\b"}[r.Int(9)]})
		case 8:
			sc.Ops = append(sc.Ops, Op{Op: "READLINK", H: sh.handleOf(mLink)})
		}
	}
	return sc
}

// ----- C11 -----

func genCred(r *simrt.Rand) Cred {
	ids := []uint32{0, 1, 1000, 65533, 65534, 65535, 1 << 31, 1<<32 - 1}
	c := Cred{Flavor: 1, UID: ids[r.Int(len(ids))], GID: ids[r.Int(len(ids))]}
	if r.Pct(30) {
		c.UID = uint32(r.Int(5))
	}
	ng := r.Int(5)
	if r.Pct(10) {
		ng = 16
	}
	for i := 0; i < ng; i++ {
		c.Gids = append(c.Gids, ids[r.Int(len(ids))])
	}
	if r.Pct(10) {
		c = Cred{Flavor: 0}
	}
	return c
}

func genSquash(r *simrt.Rand) string {
	return []string{"", "none", "root", "all", "Root", "ALL", "None"}[r.Int(7)]
}

func genSA(r *simrt.Rand) SA {
	var sa SA
	ids := []uint32{0, 1, 1000, 65534, 4242}
	if r.Pct(50) {
		v := uint32(r.Int(0o1000))
		sa.Mode = &v
	}
	if r.Pct(50) {
		v := ids[r.Int(len(ids))]
		sa.UID = &v
	}
	if r.Pct(50) {
		v := ids[r.Int(len(ids))]
		sa.GID = &v
	}
	if r.Pct(30) {
		sa.Mtime = uint32(1 + r.Int(2)) // set to server time / to the client's time: one more backend step after the chown
	}
	if r.Pct(15) {
		sa.Atime = uint32(1 + r.Int(2))
	}
	return sa
}

func genC11(r *simrt.Rand, tier string) any {
	if r.Pct(20) {
		// concurrent class: SETATTR requests of one root and several other callers for one object at once
		rs := genAttrRace(r)
		return &SeqScn{Kind: "C11", Race: rs, Sched: rs.Sched}
	}
	sc := &SeqScn{Kind: "C11", Cfg: genCfg(r), Cred: genCred(r), ThinkM: genThink(r), Sched: SeqSched(r.Uint64())}
	sc.Cfg.Squash = genSquash(r)
	sc.Tree = genTree(r, 1+r.Int(3), 1+r.Int(2), r.Int(2))
	sh := newShadow(r, sc.Tree)
	n := 8 + r.Int(20)
	for i := 0; i < n; i++ {
		d := sh.handleOf(mDir)
		dp := sh.hpath[d]
		op := Op{H: d, Name: sh.name(dp, 10), SA: genSA(r)}
		if r.Pct(25) {
			c := genCred(r)
			op.Cred = &c
		}
		switch r.Pick([]int{25, 20, 15, 30, 10}) {
		case 0:
			op.Op = "CREATE"
			op.How = uint32(r.Int(2))
			child := joinPath(dp, op.Name)
			if _, ok := sh.kind[child]; !ok {
				sh.kind[child] = mFile
			}
			sh.hpath = append(sh.hpath, child)
		case 1:
			op.Op = "MKDIR"
			child := joinPath(dp, op.Name)
			if _, ok := sh.kind[child]; !ok {
				sh.kind[child] = mDir
				sh.hpath = append(sh.hpath, child)
			}
		case 2:
			op.Op, op.Target = "SYMLINK", "t"
			child := joinPath(dp, op.Name)
			if _, ok := sh.kind[child]; !ok {
				sh.kind[child] = mLink
				sh.hpath = append(sh.hpath, child)
			}
		case 3:
			op.Op, op.Name = "SETATTR", ""
			op.H = sh.handleOf(mFile, mDir)
		case 4:
			op = Op{Op: "GETATTR", H: sh.handleOf("")}
		}
		sc.Ops = append(sc.Ops, op)
	}
	if r.Pct(25) {
		// fault-injecting class: a backend error inside some request (not in the chown itself - a backend that
		// cannot chown leaves the server nothing to enforce). Whatever a failing request does to recover, a
		// caller that is not root never makes the backend record anybody else's ids.
		for i, n := 0, 1+r.Int(2); i < n; i++ {
			sc.Faults = append(sc.Faults, simfs.Fault{Op: []string{"Chtimes", "Chmod", "Lstat", "Stat", "Truncate", "File.Close"}[r.Int(6)], Nth: 1 + r.Int(12), Kind: "eio", Repeat: r.Pct(20)})
		}
	}
	return sc
}

// ----- C12 -----

func genC12(r *simrt.Rand, tier string) any {
	if r.Pct(15) {
		// concurrent class: ACCESS after an acknowledged chmod while older look-ups of the object are in flight
		ar := genAccessRace(r)
		return &SeqScn{Kind: "C12", Acc: ar, Sched: ar.Sched}
	}
	sc := &SeqScn{Kind: "C12", Cfg: genCfg(r), Cred: RootCred, ThinkM: []int{0, 1, 100, 6000}[r.Int(4)], Sched: SeqSched(r.Uint64())}
	sc.Cfg.ReadOnly = false
	sc.Tree = genTree(r, 1+r.Int(2), 1+r.Int(2), r.Int(2))
	sh := newShadow(r, sc.Tree)
	ids := []uint32{0, 1, 1000, 2000, 65534}
	n := 10 + r.Int(30)
	for i := 0; i < n; i++ {
		h := sh.handleOf(mFile, mDir)
		if r.Pct(40) {
			// root sets mode/owner, which the following ACCESS calls are judged against
			m := uint32(r.Int(0o10000))
			u, g := ids[r.Int(len(ids))], ids[r.Int(len(ids))]
			sc.Ops = append(sc.Ops, Op{Op: "SETATTR", H: h, SA: SA{Mode: &m, UID: &u, GID: &g}})
		}
		// a caller in a drawn class relation
		c := Cred{Flavor: 1, UID: ids[r.Int(len(ids))], GID: ids[r.Int(len(ids))]}
		for k := r.Int(4); k > 0; k-- {
			c.Gids = append(c.Gids, ids[r.Int(len(ids))])
		}
		sc.Ops = append(sc.Ops, Op{Op: "ACCESS", H: h, Mask: uint32(r.Int(64)), Cred: &c})
	}
	if r.Pct(30) {
		// read-only switched on at runtime somewhere in the history
		sc.UpdAt = 1 + r.Int(len(sc.Ops))
		sc.UpdCfg = &SrvCfg{ReadOnly: true, TransferSize: sc.Cfg.TransferSize}
	}
	if r.Pct(20) {
		// fault-injecting class: a SETATTR that fails half-way (chmod done, a later step fails) followed by a
		// backend that cannot be examined (lstat fails from some point on). ACCESS may then fail; when it
		// answers NFS3_OK the attributes it decided on must be the object's real ones.
		sc.Faults = append(sc.Faults, simfs.Fault{Op: []string{"Chtimes", "Chown", "Stat"}[r.Int(3)], Nth: 1 + r.Int(4), Kind: "eio"})
		sc.Faults = append(sc.Faults, simfs.Fault{Op: "Lstat", Nth: 10 + r.Int(60), Kind: "eio", Repeat: true})
	}
	return sc
}

// ----- C25 -----

func genC25(r *simrt.Rand, tier string) any {
	sc := genC01(r, tier).(*SeqScn)
	sc.Kind = "C25"
	lim := int64([]int{1, 100, 1000, 4096, 5000, 10000}[r.Int(6)])
	if r.Pct(60) {
		sc.Cfg.MaxFileSize = lim
	} else {
		sc.UpdAt = 1 + r.Int(len(sc.Ops))
		sc.UpdCfg = &SrvCfg{MaxFileSize: lim, TransferSize: sc.Cfg.TransferSize}
	}
	// bias offsets and sizes to the neighbourhood of the limit
	for i := range sc.Ops {
		op := &sc.Ops[i]
		if r.Pct(50) {
			switch op.Op {
			case "WRITE":
				op.Off = uint64(lim) - uint64(r.Int(int(lim)+1))
				op.Count = uint32(r.Int(20))
			case "SETATTR":
				v := uint64(lim) + uint64(r.Int(5)) - 2
				op.SA.Size = &v
			}
		}
		if op.Op == "CREATE" {
			op.SA.Size = nil
		}
	}
	return sc
}

// ----- C26 -----

func genC26(r *simrt.Rand, tier string) any {
	if r.Pct(20) {
		return genConc(r, tier, "C26") // concurrent class
	}
	sc := &SeqScn{Kind: "C26", Cfg: genCfg(r), Cred: RootCred, ThinkM: []int{0, 1, 200, 11000}[r.Int(4)], Sched: SeqSched(r.Uint64())}
	n := r.Int(41)
	sc.Tree = append(sc.Tree, TreeEnt{Path: "/d", Kind: "dir", Mode: 0o755})
	used := map[string]bool{}
	for i := 0; i < n; i++ {
		l := []int{1, 2, 3, 4, 5, 8, 16, 100, 254, 255}[r.Int(10)]
		if r.Pct(30) {
			l = 1 + r.Int(255)
		}
		name := fmt.Sprintf("%d", i) + strings.Repeat("x", 300)
		name = name[:l]
		if l < 3 {
			name = string(rune('A'+i%26)) + string(rune('a'+(i/26)%26))
			name = name[:l]
		}
		if used[name] {
			continue
		}
		used[name] = true
		k := []string{"file", "file", "dir", "symlink"}[r.Int(4)]
		sc.Tree = append(sc.Tree, TreeEnt{Path: "/d/" + name, Kind: k, Mode: 0o644, Target: "t"})
	}
	nops := 2 + r.Int(6)
	for i := 0; i < nops; i++ {
		op := Op{Op: []string{"READDIR", "READDIRPLUS"}[r.Int(2)], H: 1}
		switch r.Int(5) {
		case 0:
			op.Count = uint32(1 + r.Int(120))
		case 1:
			op.Count = uint32(100 + r.Int(300))
		case 2:
			op.Count = uint32(300 + r.Int(1200))
		case 3:
			op.Count = uint32(1500 + r.Int(8000))
		case 4:
			op.Count = []uint32{1, 8, 104, 128, 256, 512, 4096, 32768}[r.Int(8)]
		}
		op.Dir2 = op.Count
		if r.Pct(20) {
			op.Dir2 = uint32(1 + r.Int(int(op.Count)))
		}
		sc.Ops = append(sc.Ops, op)
		if r.Pct(20) {
			sc.Ops = append(sc.Ops, Op{Op: "CREATE", H: 1, Name: fmt.Sprintf("new%d", i)})
		}
	}
	if r.Pct(30) && len(sc.Tree) > 1 {
		// fault-injecting class: the per-entry attribute refresh (lstat) of some entries fails while the
		// directory is being listed - once, or for one entry every time. A listing hit by such a fault may
		// fail; one that completes must still hold every name exactly once within the size limit.
		if r.Pct(35) {
			// the backend's directory read itself breaks off half-way (entries so far AND an error)
			sc.Faults = append(sc.Faults, simfs.Fault{Op: "File.Readdir", Nth: 1 + r.Int(4), Kind: "short", Short: r.Int(len(sc.Tree))})
		}
		for i, nf := 0, 1+r.Int(2); i < nf; i++ {
			f := simfs.Fault{Op: "Lstat", Kind: "eio"}
			if r.Pct(50) {
				f.PathSfx = sc.Tree[1+r.Int(len(sc.Tree)-1)].Path
				f.Nth, f.Repeat = 2+r.Int(2), true
			} else {
				f.Nth = 2*len(sc.Tree) + 1 + r.Int(3*len(sc.Tree)+3)
			}
			sc.Faults = append(sc.Faults, f)
		}
		for i := range sc.Ops {
			if sc.Ops[i].Op == "CREATE" {
				sc.Ops[i] = Op{Op: "READDIRPLUS", H: 1, Count: 4096, Dir2: 4096}
			}
		}
	}
	if r.Pct(15) {
		// a backend that hands out directory entries in small batches whenever it is asked for "at most n" of
		// them (legal; no effect on a server that reads the whole directory with one Readdir(-1))
		sc.Faults = append(sc.Faults, simfs.Fault{Op: "File.Readdir", Nth: 1, Repeat: true, Kind: "shortok", Short: 1 + r.Int(5)})
	}
	return sc
}

// ----- C23 -----

func genC23(r *simrt.Rand, tier string) any {
	sc := &SeqScn{Kind: "C23", Cfg: genCfg(r), Cred: RootCred, ThinkM: 1, Sched: SeqSched(r.Uint64())}
	sc.Cfg.MaxWorkers = 1
	sc.Tree = []TreeEnt{{Path: "/big", Kind: "file", Mode: 0o644, Size: []int{1, 5000, 70000}[r.Int(3)], Seed: r.Uint64()}}
	if r.Pct(40) {
		// transfer sizes that are not multiples of four, tiny, or beyond the record limit
		sc.Cfg.TransferSize = []int{1, 2, 3, 5, 1001, 1023, 4097, 65535, 1<<20 - 1, 1 << 20, 1<<20 + 1, 2 << 20}[r.Int(12)]
	}
	n := 1 + r.Int(3)
	for i := 0; i < n; i++ {
		sc.Ops = append(sc.Ops, Op{Op: "C23IO", H: 1, Seed: r.Uint64()})
	}
	switch r.Int(10) {
	case 0, 1, 2:
		sc.UpdAt = -1 // between FSINFO and the I/O
		sc.UpdCfg = &SrvCfg{TransferSize: []int{1, 512, 4096, 65536, 1 << 20}[r.Int(5)]}
	case 3, 4:
		// changed at runtime before the FSINFO (zero and negative mean "default"), through either update path
		sc.UpdAt = 1
		sc.UpdCfg = &SrvCfg{TransferSize: []int{0, -1, 1, 1001, 4096, 1 << 21}[r.Int(6)], ViaTuning: r.Pct(50)}
	}
	if r.Pct(25) {
		// a backend that takes fewer bytes than it was given and reports so without an error
		sc.Faults = append(sc.Faults, simfs.Fault{Op: "File.WriteAt", Nth: 1 + r.Int(2), Kind: "shortok", Short: []int{1, 2, 3, 100, 1000}[r.Int(5)], Repeat: r.Pct(50)})
	} else if r.Pct(20) {
		// an appending WRITE that stores its data and then fails (the sync or the close after it), followed at
		// once by a READ at the old end of file: that READ is before EOF now and returns at least one byte
		size := uint64(sc.Tree[0].Size)
		sc.Faults = append(sc.Faults, simfs.Fault{Op: []string{"File.Sync", "Chtimes"}[r.Int(2)], Nth: 1, Kind: "eio"})
		sc.Ops = append([]Op{{Op: "WRITE", H: 1, Off: size, Count: uint32(1 + r.Int(300)), Seed: r.Uint64(), Stable: 2}, {Op: "READ", H: 1, Off: size, Count: uint32(1 + r.Int(64))},
			{Op: "READ", H: 1, Off: size - 1, Count: 3}}, sc.Ops...)
	}
	return sc
}

func seqProp(id, rule string, gen func(*simrt.Rand, string) any, owners ...string) {
	Register(&Prop{ID: id, Level: "exploration", Rule: rule, Gen: gen, New: func() any { return &SeqScn{} },
		Run: runSeq(owners...), Shrink: shrinkSeq, Real: seqReal, Stubbed: seqStubbed})
}

func init() {
	seqProp("C07", "one case = a sequential history of 10-40 name-taking calls (LOOKUP, CREATE in every mode, MKDIR, SYMLINK name and target, REMOVE, RMDIR, RENAME both names, MNT path, READLINK) whose names are drawn from all strings of length 1..4 over the adversarial alphabet {a . / \\ NUL space 0x80}, 255/256-byte names, long multi-component strings and escaping targets, over a random tree incl. a pre-existing escaping symlink (60%), or a C01-C04 workload (40%); monitor on every backend call of every operation: path absolute and normalized and equal to a handle's path or that path plus one validated component; no Symlink with absolute or '..' target; no READLINK reply with a relative '..' target; invalid names never succeed; 10% of the cases are the concurrent class: C29's workload (2-4 clients on separate connections, shared directories and handles, renames, removes, writes, peeks at each other's names, caches enabled with hour-long lifetimes, optional backend stalls and errors, every interleaving decided by the seeded scheduler) followed, once every request has been answered, by a fresh client that is not needed: every backend call made during the concurrent phase is checked for an absolute, normalized path; non-trivial = at least one operation; distinct by event digest",
		mixGen(genC07, 60, "C07"), "C07.")
	seqProp("C11", "one case = a history of 8-28 CREATE/MKDIR/SYMLINK/SETATTR calls with sattr3 uid/gid set to foreign ids, issued under drawn credentials (boundary uids/gids, 0-16 aux gids, AUTH_NONE) and squash modes in mixed case, per-operation credential switches; monitor on the backend call log: every Chown/Lchown issued for a request whose effective uid (reference squash function) is not 0 carries exactly the caller's effective uid/gid; after a successful CREATE/MKDIR/SYMLINK the new inode's owner in the backend is the caller's effective identity; a quarter of the cases inject backend errors (chtimes, chmod, lstat, stat, truncate, close - not the chown itself) so that recovery paths run under the same monitor; a fifth of the cases are the concurrent class: one SETATTR from an effective root assigning uid and/or gid and 1-3 SETATTRs from callers that are not root (mode, times or size; 30% also naming foreign ids) for ONE object at the same time, each on its own connection, 2-4 workers, 0-2 backend calls stalled 0.2-80 ms, start offsets 0-3 ms, every lock/unlock/channel/network interleaving decided by the seeded scheduler - every Chown the backend is asked for carries the ids the root request set, and once the root request is answered OK they are the owner on record; in 30% of the concurrent cases nobody is root: the object is removed first (the clients keep their handles for the name) and a CREATE of the same name by one caller races with the others' SETATTRs through the old handles - the only owner anybody may record, and the owner on record afterwards, is the creator's own identity; non-trivial = at least one operation; distinct by event digest",
		genC11, "C11.")
	seqProp("C12", "one case = a history in which root SETATTRs mode (all 12 bits) and owner of files and directories and callers in drawn owner/group/aux-group/other relations (and uid 0) issue ACCESS with all 64 masks, with the attribute TTL and think time drawn (so ACCESS is answered from cached or fresh attributes) and read-only switched on at runtime in 30% of runs; oracle on every ACCESS reply of every workload: granted subset of requested and equal to the UNIX owner/group/other rule applied to the mode/uid/gid carried in that reply and the caller's effective identity, LOOKUP/DELETE only on directories, no MODIFY/EXTEND/DELETE when read-only; 20% of the cases make a SETATTR fail half-way and then the backend's lstat fail for good: an ACCESS that still answers NFS3_OK must have decided on the object's real mode and owner; 15% of the cases are the concurrent class: 1-3 readers (GETATTR or ACCESS, 1-3 times each, callers in owner/group/aux-group/other relation) look at ONE file or directory while root changes its permission bits (SETATTR, or for a file an UNCHECKED CREATE of the existing name carrying sattr3.mode), 0-2 backend lstat/stat/chmod calls of the object stalled or answering late by 0.2-80 ms, attribute TTL 1 ms/2 s/1 h, 2-5 workers, every interleaving decided by the seeded scheduler; once the change has been acknowledged a prober sends ACCESS(0x3f): the reply must carry the new mode and grant exactly what the rule gives for it (nothing changes the object after the acknowledgement, whatever older look-ups are still in flight), and every reader's ACCESS reply carries the old or the new mode and obeys the rule for it; stratified sampling of the 4096 x classes x 64 x 2 space (not exhausted); non-trivial = at least one ACCESS; distinct by event digest",
		mixGen(genC12, 80, "C12"), "C12.")
	seqProp("C25", "one case = a C01-style WRITE/SETATTR(size)/READ history with MaxFileSize in {1,100,1000,4096,5000,10000} set at construction (60%) or by UpdateExportOptions in mid-history (40%), offsets and sizes biased to the limit +-2; oracle: a WRITE or SETATTR(size) that would grow a file beyond the limit gets NFS3ERR_FBIG and leaves the file unchanged (backend == byte-array model after every operation), requests within the limit succeed as without it; non-trivial = at least one operation; distinct by event digest",
		genC25, "C25.")
	seqProp("C26", "one case = a directory of 0-40 entries (files, directories, symlinks) with name lengths 1..255 listed by 2-8 READDIR/READDIRPLUS cookie-following sequences with count/maxcount from 1 upward (dense near the size of one entry), dircount <= maxcount, directory cache on/off with the clock advancing between pages, entries created between listings; oracle: concatenation over pages == model children exactly once, fileids equal to those of other replies, encoded READDIR3resok/READDIRPLUS3resok size <= the client's limit, NFS3ERR_TOOSMALL iff not even the next entry fits, a page that can hold an entry holds at least one; 15% of the cases run on a backend that hands out directory entries in batches of 1-5 whenever it is asked for 'at most n' (no effect on Readdir(-1)); 20% of the cases are the concurrent class: C29's workload (2-4 clients on separate connections, shared directories and handles, renames, removes, writes, peeks at each other's names, caches enabled with hour-long lifetimes, optional backend stalls and errors, every interleaving decided by the seeded scheduler) followed, once every request has been answered, by a fresh client that lists both directories with READDIRPLUS: exactly the backend's entries; non-trivial = at least one listing; distinct by event digest",
		genC26, "C26.")
	seqProp("C23", "one case = FSINFO followed by READ and WRITE with counts drawn from {1, preferred, max-1, max} of the advertised limits, for a per-run configured TransferSize (1..65536 and default; in 40% of the runs 1, 2, 3, 5, 1001, 1023, 4097, 65535 or values around and above the 1 MiB record limit) optionally changed at runtime between FSINFO and the I/O, or before the FSINFO (0, -1, 1, 1001, 4096, 2 MiB through UpdateExportOptions or UpdateTuningOptions), on a full record-marked connection (the 1 MiB record limit is in play); oracle: READ before EOF returns >= 1 correct byte, WRITE is accepted (never NFS3ERR_INVAL, never a dropped connection) and reports its count, which is exactly what the backend then holds (in a quarter of the cases the backend takes fewer bytes than given, without an error), rtpref<=rtmax, wtpref<=wtmax; non-trivial = at least one FSINFO-driven I/O; distinct by event digest",
		genC23, "C23.")
	seqProp("C05", "one case = a history of 10-50 handle-issuing calls (MNT, LOOKUP, CREATE, MKDIR, SYMLINK, READDIRPLUS) over 2-50 paths with the handle table limit drawn from {1,2,3,5,10,16,32}, each returned handle used at once in GETATTR, plus re-use of older handle values; oracle: the immediately following GETATTR succeeds and every backend call it makes is for the path the handle was issued for; accessor check after every operation: live handle count <= limit and every live path has exactly one handle value; 25% of the cases instead drive the real FileHandleMap directly: 2-4 tasks issuing 2-7 Allocate/Get/Release/ReleaseAll calls over 1-4 paths with limit 1..100 under the seeded scheduler (also with -race), one atomic snapshot of both maps after every call (ids and paths in bijection, count <= limit, an issued value denotes its path), or (a third of the direct cases) one task running a long history of 3-8 x limit Allocate/Release/Get/ReleaseAll calls over 2 x limit + 5..25 paths with limit 1..50, so that the table overflows many times while freed ids are being reused (every returned handle must be live and denote its path at once); non-trivial = at least 2 eviction rounds (request histories) or >= 4 calls from >= 2 tasks (direct); distinct by event digest",
		genC05("C05"), "C05.")
	seqProp("C06", "one case = as C05 plus Unexport/re-mount and REMOVE in mid-history, with requests re-using every previously issued handle value; oracle: a request using a handle value either fails (NFS3ERR_STALE/BADHANDLE/NOENT) or every backend call it makes is for the path that value was FIRST issued for; probe handle_value_reissued_for_other_path counts the enabling condition; non-trivial = at least one old handle re-used after an eviction round; distinct by event digest",
		genC05("C06"), "C06.", "C05.")
}

// nonAllocating: procedures that issue no handle, so that nothing can be evicted while they run (on the
// pinned tree a handle leaves the table only through an eviction round of Allocate or through ReleaseAll).
func nonAllocating(after string) bool {
	for _, op := range []string{" GETATTR", " READ", " ACCESS", " SETATTR", " WRITE", " READLINK", " COMMIT"} {
		if strings.HasSuffix(after, op) {
			return true
		}
	}
	return false
}

// checkHandleTable: C05 clauses "table bounded" and "one handle per path", via the accessor.
func (r *seqRun) checkHandleTable(after string) {
	fm := absnfs.VerifFileMap(r.w.NFS)
	live := absnfs.VerifHandles(fm)
	r.o.Checks++
	if max := r.sc.Cfg.MaxHandles; max > 0 && len(live) > max {
		r.vio("C05.table-exceeds-limit", "", "after %s: %d live handles, limit %d", after, len(live), max)
	}
	byPath := map[string]uint64{}
	for h, p := range live {
		if other, ok := byPath[p]; ok && p != "" {
			r.vio("C05.two-handles-one-path", "", "after %s: path %s has live handles %d and %d", after, p, other, h)
		}
		byPath[p] = h
	}
	// eviction accounting for the non-trivial rule
	for h := range r.prevLive {
		if _, ok := live[h]; !ok {
			r.evicted++
			simrt.Probe("handle_evicted")
			if nonAllocating(after) {
				if r.leftEarly == nil {
					r.leftEarly = map[uint64]bool{}
				}
				r.leftEarly[h] = true
				simrt.Probe("handle_dropped_without_eviction")
			}
		}
	}
	r.prevLive = live
	// a handle the client still holds whose value is live must still be bound to the path it was issued for
	for _, hr := range r.handles {
		if len(hr.fh) != 8 {
			continue
		}
		v := binary.BigEndian.Uint64(hr.fh)
		if p, ok := live[v]; ok && p != r.ghost[string(hr.fh)] {
			simrt.Probe("live_value_bound_to_other_path")
		}
	}
}

func hashBytes(b []byte) uint64 {
	var h uint64 = 14695981039346656037
	for _, c := range b {
		h ^= uint64(c)
		h *= 1099511628211
	}
	return h
}
