package h

import (
	"fmt"
	"sort"
	"strings"
	"testing"
	"time"

	"github.com/absfs/absnfs"
	"github.com/anishathalye/porcupine"

	"verif/sim/simrt"
)

// C18 / C19: rate limiters driven directly on the simulated clock.

type LimCfg struct {
	Global     int `json:"global"`
	PerIP      int `json:"per_ip"`
	PerIPBurst int `json:"per_ip_burst"`
	PerConn    int `json:"per_conn"`
	ConnBurst  int `json:"conn_burst"`
	ReadLarge  int `json:"read_large"`
	WriteLarge int `json:"write_large"`
	Readdir    int `json:"readdir"`
	MountPerM  int `json:"mount_per_min"`
	CleanupMs  int `json:"cleanup_ms"`
}

func (c LimCfg) config() absnfs.RateLimiterConfig {
	return absnfs.RateLimiterConfig{GlobalRequestsPerSecond: c.Global, PerIPRequestsPerSecond: c.PerIP, PerIPBurstSize: c.PerIPBurst,
		PerConnectionRequestsPerSecond: c.PerConn, PerConnectionBurstSize: c.ConnBurst, ReadLargeOpsPerSecond: c.ReadLarge,
		WriteLargeOpsPerSecond: c.WriteLarge, ReaddirOpsPerSecond: c.Readdir, MountOpsPerMinute: c.MountPerM,
		CleanupInterval: time.Duration(c.CleanupMs) * time.Millisecond}
}

type LimEv struct {
	DtNs int64  `json:"dt_ns"` // clock advance before the event
	IP   int    `json:"ip"`
	Conn int    `json:"conn"`
	Op   string `json:"op,omitempty"` // "" = AllowRequest; else operation type
}

type LimScn struct {
	Kind    string    `json:"kind"`
	Cfg     LimCfg    `json:"cfg"`
	Events  []LimEv   `json:"events"`
	Threads [][]LimEv `json:"threads,omitempty"` // C19 concurrent variant: request streams issued at one instant by several tasks
	// C18 concurrent variant: requests issued one by one first, then a silence long enough for every bucket to
	// refill and for the periodic cleanup to be due, so that cleanup runs in the middle of the concurrent burst
	Pre        []LimEv  `json:"pre,omitempty"`
	PreSleepNs int64    `json:"pre_sleep_ns,omitempty"`
	Sched      SchedCfg `json:"sched"`
}

// ---- C19, concurrent variant: AllowRequest from several tasks at one simulated instant ----

// limIn: lenient marks a request that overlaps in time with another request from the same address. AllowRequest
// takes the client's own token first and the global one afterwards, so two requests of ONE client that are in
// the server together can each be refused because of the other (one holds the client's token while it waits
// for a global one it then does not get). That costs nobody else anything - the property is about the other
// clients - so such a refusal is not judged; admissions always are.
type limIn struct {
	ip      int
	lenient bool
}

// limState: how many requests were admitted in total, and per client how many were admitted and issued.
type limState struct {
	admitted int
	ipAdm    [8]int
	ipReq    [8]int
}

func runLimiterConcurrent(o *Outcome, sc *LimScn) {
	cfg := sc.Cfg
	rl := absnfs.NewRateLimiter(cfg.config())
	var ops []porcupine.Operation
	done := make(chan []porcupine.Operation, len(sc.Threads))
	for ti, th := range sc.Threads {
		ti, th := ti, th
		simrt.Go(fmt.Sprintf("lim-client-%d", ti), func() {
			var mine []porcupine.Operation
			for _, ev := range th {
				call := simrt.Stamp()
				ok := rl.AllowRequest(fmt.Sprintf("10.0.0.%d", ev.IP), fmt.Sprintf("conn-%d", ev.Conn))
				mine = append(mine, porcupine.Operation{ClientId: ti, Input: limIn{ip: ev.IP % 8}, Call: call, Output: ok, Return: simrt.Stamp()})
			}
			simrt.Send("lim.done", done, mine)
		})
	}
	total := 0
	for range sc.Threads {
		ops = append(ops, simrt.Recv("lim.wait", done)...)
	}
	for _, th := range sc.Threads {
		total += len(th)
	}
	for i := range ops {
		for j := range ops {
			if i != j && ops[i].ClientId != ops[j].ClientId && ops[i].Input.(limIn).ip == ops[j].Input.(limIn).ip && ops[i].Call < ops[j].Return && ops[j].Call < ops[i].Return {
				in := ops[i].Input.(limIn)
				in.lenient = true
				ops[i].Input = in
			}
		}
	}
	o.NonTrivial = total >= 3 && len(sc.Threads) >= 2
	G, B := cfg.Global, cfg.PerIPBurst
	model := porcupine.Model{
		Init: func() any { return limState{} },
		Step: func(state, in, out any) (bool, any) {
			st := state.(limState)
			ip := in.(limIn).ip
			if out.(bool) {
				// admitted: needs room in the global budget and in the client's own
				if st.admitted >= G || st.ipAdm[ip] >= B {
					return false, state
				}
				st.admitted++
				st.ipAdm[ip]++
				st.ipReq[ip]++
				return true, st
			}
			// refused: legal only when the admitted total has used up the global budget, or the client
			// has itself already issued as many requests as its own burst allows
			if st.admitted < G && st.ipReq[ip] < B && !in.(limIn).lenient {
				return false, state
			}
			st.ipReq[ip]++
			return true, st
		},
		Equal:             func(a, b any) bool { return a.(limState) == b.(limState) },
		DescribeOperation: func(in, out any) string { return fmt.Sprintf("AllowRequest(ip %d) -> %v", in.(limIn).ip, out) },
	}
	o.Checks++
	if porcupine.CheckOperationsTimeout(model, ops, 5*time.Second) == porcupine.Illegal {
		var sb strings.Builder
		sort.Slice(ops, func(i, j int) bool { return ops[i].Call < ops[j].Call })
		for _, op := range ops {
			fmt.Fprintf(&sb, "c%d[%d,%d] AllowRequest(ip %d) -> %v\n", op.ClientId, op.Call, op.Return, op.Input.(limIn).ip, op.Output)
		}
		o.Vio("C19.compliant-client-refused-under-concurrency", "", "global budget %d, per-client burst %d, all requests at one instant: no serial order explains the decisions (a client within its own limit was refused although the admitted total left room in the global budget, or more were admitted than the budgets allow):\n%s", G, B, sb.String())
	}
}

// C18, concurrent variant: several tasks issue requests at ONE simulated instant (first requests of new
// addresses and connections included, so that buckets are being created while others look them up).
// No time passes, so each limit may admit at most its burst: per address, per connection, per operation
// type and address, and globally.
func runLimiterBoundConcurrent(o *Outcome, sc *LimScn) {
	cfg := sc.Cfg
	rl := absnfs.NewRateLimiter(cfg.config())
	for _, ev := range sc.Pre {
		ip, conn := fmt.Sprintf("10.0.0.%d", ev.IP), fmt.Sprintf("conn-%d", ev.Conn)
		if ev.Op == "" {
			rl.AllowRequest(ip, conn)
		} else {
			rl.AllowOperation(ip, absnfs.OperationType(ev.Op))
		}
	}
	if sc.PreSleepNs > 0 {
		simrt.Sleep(time.Duration(sc.PreSleepNs)) // every bucket is full again (capped at its burst): the bound of the burst below is unchanged
	}
	type res struct {
		ev LimEv
		ok bool
	}
	phase0 := simrt.Now()
	done := make(chan []res, len(sc.Threads))
	for ti, th := range sc.Threads {
		ti, th := ti, th
		simrt.Go(fmt.Sprintf("lim-client-%d", ti), func() {
			var mine []res
			for _, ev := range th {
				ip, conn := fmt.Sprintf("10.0.0.%d", ev.IP), fmt.Sprintf("conn-%d", ev.Conn)
				var ok bool
				if ev.Op == "" {
					ok = rl.AllowRequest(ip, conn)
				} else {
					ok = rl.AllowOperation(ip, absnfs.OperationType(ev.Op))
				}
				mine = append(mine, res{ev, ok})
			}
			simrt.Send("lim.done", done, mine)
		})
	}
	var all []res
	for range sc.Threads {
		all = append(all, simrt.Recv("lim.wait", done)...)
	}
	o.NonTrivial = len(all) >= 3 && len(sc.Threads) >= 2
	// the scheduler may hold a caller back for microseconds to milliseconds after an unlock, so the "instant"
	// has a (small) duration: each limit may admit burst + rate x that duration
	el := (simrt.Now() - phase0).Seconds()
	allow := func(burst int, rate float64) int { return int(float64(burst) + rate*el + 1e-9) }
	opRate := map[string]float64{"read_large": float64(cfg.ReadLarge), "write_large": float64(cfg.WriteLarge), "readdir": float64(cfg.Readdir), "mount": float64(cfg.MountPerM) / 60.0}
	perIP, perConn, perOp := map[int]int{}, map[int]int{}, map[string]int{}
	global := 0
	for _, r := range all {
		if !r.ok {
			continue
		}
		if r.ev.Op != "" {
			perOp[fmt.Sprintf("%d/%s", r.ev.IP, r.ev.Op)]++
			continue
		}
		global++
		perIP[r.ev.IP]++
		perConn[r.ev.Conn]++
	}
	o.Checks++
	if global > allow(cfg.Global, float64(cfg.Global)) {
		o.Vio("C18.bound-exceeded", "level=global,concurrent", "%d requests admitted at one instant, the global limit allows %d", global, allow(cfg.Global, float64(cfg.Global)))
	}
	var ks []int
	for ip := range perIP {
		ks = append(ks, ip)
	}
	sort.Ints(ks)
	for _, ip := range ks {
		if perIP[ip] > allow(cfg.PerIPBurst, float64(cfg.PerIP)) {
			o.Vio("C18.bound-exceeded", "level=per-ip,concurrent", "address 10.0.0.%d: %d requests admitted at one instant by concurrent callers, per-address burst is %d", ip, perIP[ip], cfg.PerIPBurst)
		}
	}
	if cfg.PerConn > 0 {
		ks = ks[:0]
		for c := range perConn {
			ks = append(ks, c)
		}
		sort.Ints(ks)
		for _, c := range ks {
			if perConn[c] > allow(cfg.ConnBurst, float64(cfg.PerConn)) {
				o.Vio("C18.bound-exceeded", "level=per-conn,concurrent", "connection conn-%d: %d requests admitted at one instant by concurrent callers, per-connection burst is %d", c, perConn[c], cfg.ConnBurst)
			}
		}
	}
	var oks []string
	for k := range perOp {
		oks = append(oks, k)
	}
	sort.Strings(oks)
	for _, k := range oks {
		op := k[strings.Index(k, "/")+1:]
		if perOp[k] > allow(opBurst(op), opRate[op]) {
			o.Vio("C18.bound-exceeded", "level=op:"+op+",concurrent", "%s: %d operations admitted at one instant by concurrent callers, burst is %d", k, perOp[k], opBurst(op))
		}
	}
}

// bucket is the reference token bucket: tokens = min(burst, tokens + rate*dt).
type bucket struct {
	tokens, burst, rate float64
	last                time.Duration
	born                time.Duration
	admitted            int
}

func newBucket(rate float64, burst int, now time.Duration) *bucket {
	return &bucket{tokens: float64(burst), burst: float64(burst), rate: rate, last: now, born: now}
}

func (b *bucket) refill(now time.Duration) {
	b.tokens += (now - b.last).Seconds() * b.rate
	if b.tokens > b.burst {
		b.tokens = b.burst
	}
	b.last = now
}

const tokEps = 1e-6

// state: +1 must have a token, -1 must not, 0 too close to call
func (b *bucket) state() int {
	switch {
	case b.tokens >= 1+tokEps:
		return 1
	case b.tokens < 1-tokEps:
		return -1
	}
	return 0
}

func opBurst(op string) int {
	return map[string]int{"read_large": 10, "write_large": 5, "readdir": 5, "mount": 2}[op]
}

func runLimiter(t *testing.T, scAny any, trace bool) *Outcome {
	sc := scAny.(*LimScn)
	o := &Outcome{}
	res := Bubble(t, sc.Sched.config(trace), nil, func() {
		simrt.Event("scenario %x", simrt.Hash(hashBytes(mustJSON(sc))))
		if len(sc.Threads) > 0 {
			simrt.Probe("run_class.concurrent")
		} else {
			simrt.Probe("run_class.sequential")
		}
		if len(sc.Threads) > 0 && sc.Kind == "C18" {
			runLimiterBoundConcurrent(o, sc)
			return
		}
		if len(sc.Threads) > 0 {
			runLimiterConcurrent(o, sc)
			return
		}
		o.NonTrivial = len(sc.Events) > 0
		decisions := func(cleanupMs int) []bool {
			cfg := sc.Cfg
			cfg.CleanupMs = cleanupMs
			rl := absnfs.NewRateLimiter(cfg.config())
			var out []bool
			for _, ev := range sc.Events {
				simrt.Sleep(time.Duration(ev.DtNs))
				ip, conn := fmt.Sprintf("10.0.0.%d", ev.IP), fmt.Sprintf("conn-%d", ev.Conn)
				if ev.Op == "" {
					out = append(out, rl.AllowRequest(ip, conn))
				} else {
					out = append(out, rl.AllowOperation(ip, absnfs.OperationType(ev.Op)))
				}
			}
			return out
		}
		// the run under test, judged against reference buckets
		start := simrt.Now()
		cfg := sc.Cfg
		rl := absnfs.NewRateLimiter(cfg.config())
		global := newBucket(float64(cfg.Global), cfg.Global, start)
		perIP := map[int]*bucket{}
		perConn := map[int]*bucket{}
		perOp := map[string]*bucket{}
		opRate := map[string]float64{"read_large": float64(cfg.ReadLarge), "write_large": float64(cfg.WriteLarge), "readdir": float64(cfg.Readdir), "mount": float64(cfg.MountPerM) / 60.0}
		dirtyIP, dirtyConn := map[int]bool{}, map[int]bool{}
		wasted := false // a request was refused by its own per-IP/per-connection limit (C19 territory)
		var got []bool
		nAdmitGlobal := 0
		for i, ev := range sc.Events {
			simrt.Sleep(time.Duration(ev.DtNs))
			now := simrt.Now()
			ip, conn := fmt.Sprintf("10.0.0.%d", ev.IP), fmt.Sprintf("conn-%d", ev.Conn)
			if ev.Op != "" {
				key := ip + "/" + ev.Op
				b := perOp[key]
				if b == nil {
					b = newBucket(opRate[ev.Op], opBurst(ev.Op), now)
					perOp[key] = b
				}
				b.refill(now)
				ok := rl.AllowOperation(ip, absnfs.OperationType(ev.Op))
				got = append(got, ok)
				o.Checks++
				st := b.state()
				if ok {
					b.admitted++
					if lim := b.burst + b.rate*(now-b.born).Seconds(); float64(b.admitted) > lim+tokEps {
						o.Vio("C18.bound-exceeded", "level=op:"+ev.Op, "event %d: %s limiter for %s admitted %d requests in %v, bound burst+rate*elapsed = %.6f", i, ev.Op, ip, b.admitted, now-b.born, lim)
					}
					b.tokens--
				} else if st > 0 {
					o.Vio("C18.refused-within-limit", "level=op:"+ev.Op, "event %d: %s operation from %s refused although its bucket holds %.6f tokens", i, ev.Op, ip, b.tokens)
				}
				continue
			}
			bi := perIP[ev.IP]
			if bi == nil {
				bi = newBucket(float64(cfg.PerIP), cfg.PerIPBurst, now)
				perIP[ev.IP] = bi
			}
			var bc *bucket
			if cfg.PerConn > 0 {
				bc = perConn[ev.Conn]
				if bc == nil {
					bc = newBucket(float64(cfg.PerConn), cfg.ConnBurst, now)
					perConn[ev.Conn] = bc
				}
				bc.refill(now)
			}
			global.refill(now)
			bi.refill(now)
			ok := rl.AllowRequest(ip, conn)
			got = append(got, ok)
			o.Checks++
			sg, si, scn := global.state(), bi.state(), 1
			if bc != nil {
				scn = bc.state()
			}
			if ok {
				nAdmitGlobal++
				global.admitted++
				bi.admitted++
				global.tokens--
				bi.tokens--
				if bc != nil {
					bc.admitted++
					bc.tokens--
				}
				// C18 bound per limiter instance (independent of how refusals are charged)
				check := func(level string, b *bucket) {
					if lim := b.burst + b.rate*(now-b.born).Seconds(); float64(b.admitted) > lim+tokEps {
						o.Vio("C18.bound-exceeded", "level="+level, "event %d: %s limiter admitted %d requests in %v, bound burst+rate*elapsed = %.6f", i, level, b.admitted, now-b.born, lim)
					}
				}
				check("global", global)
				check("per-ip", bi)
				if bc != nil {
					check("per-conn", bc)
				}
			} else {
				ownLimit := si < 0 || scn < 0
				clean := !dirtyIP[ev.IP] && !dirtyConn[ev.Conn]
				dirtyIP[ev.IP], dirtyConn[ev.Conn] = true, true
				// the must-admit clause speaks about clients none of whose own requests was refused so far
				if clean && sg > 0 && si > 0 && scn > 0 {
					// within every limit by admitted-only accounting, yet refused
					if wasted {
						o.Vio("C19.global-charged-by-refused", "", "event %d: request from %s/%s refused although it is within its per-IP and per-connection limits and the requests actually admitted (%d) leave %.3f tokens in the global budget: traffic refused earlier consumed shared capacity", i, ip, conn, nAdmitGlobal, global.tokens)
					} else {
						o.Vio("C18.refused-within-limit", "level=request", "event %d: request from %s/%s refused although global %.4f, per-IP %.4f tokens are available and nothing was refused before", i, ip, conn, global.tokens, bi.tokens)
					}
				}
				if ownLimit {
					wasted = true
					simrt.Probe("refused_by_own_limit")
				}
			}
		}
		// C18: periodic cleanup of idle limiters never changes a decision
		if sc.Kind == "C18" {
			a, b := decisions(1), decisions(3600*1000*24)
			o.Checks++
			for i := range a {
				if a[i] != b[i] {
					o.Vio("C18.cleanup-changes-decision", "", "event %d: decision %v with CleanupInterval=1ms, %v with 24h", i, a[i], b[i])
					break
				}
			}
		}
		_ = got
	})
	keep := "C18."
	if sc.Kind == "C19" {
		keep = "C19."
	}
	kept := o.Violations[:0]
	for _, v := range o.Violations {
		if len(v.Signature) >= 4 && v.Signature[:4] == keep {
			kept = append(kept, v)
		}
	}
	o.Violations = kept
	o.finish(res, sc.Kind)
	return o
}

func genDt(r *simrt.Rand, rate int) int64 {
	tok := int64(1e9)
	if rate > 0 {
		tok = int64(1e9) / int64(rate)
	}
	switch r.Int(8) {
	case 0:
		return 0
	case 1:
		return tok/3 + 1
	case 2:
		return tok + 7
	case 3:
		return tok*int64(1+r.Int(5)) + 13
	case 4:
		return int64(r.Int(1000)) * 1e6
	case 5:
		return int64(1+r.Int(20)) * 1e9
	case 6:
		return int64(1+r.Int(5)) * 3600e9
	}
	return int64(r.Int(50)) * 1e3
}

func genLimCfg(r *simrt.Rand) LimCfg {
	c := LimCfg{Global: []int{0, 1, 3, 10, 50}[r.Int(5)], PerIP: []int{0, 1, 2, 5, 20}[r.Int(5)], PerIPBurst: []int{0, 1, 2, 5, 10}[r.Int(5)],
		PerConn: []int{0, 0, 1, 3, 10}[r.Int(5)], ConnBurst: []int{0, 1, 2, 4}[r.Int(4)],
		ReadLarge: []int{0, 1, 10}[r.Int(3)], WriteLarge: []int{0, 1, 5}[r.Int(3)], Readdir: []int{0, 1, 5}[r.Int(3)], MountPerM: []int{0, 1, 7, 10, 60}[r.Int(5)],
		CleanupMs: []int{1, 100, 1000, 300000}[r.Int(4)]}
	return c
}

func genC18(r *simrt.Rand, tier string) any {
	if r.Pct(25) {
		// concurrent variant: 2-4 tasks, a few addresses and connections, everything at one instant
		sc := &LimScn{Kind: "C18", Cfg: genLimCfg(r), Sched: RandSched(r)}
		sc.Sched.HorizonS = 600
		for _, f := range []*int{&sc.Cfg.Global, &sc.Cfg.PerIP, &sc.Cfg.PerIPBurst} {
			if *f < 1 {
				*f = 1
			}
		}
		if sc.Cfg.PerConn > 0 && sc.Cfg.ConnBurst < 1 {
			sc.Cfg.ConnBurst = 1
		}
		nip, nconn := 1+r.Int(2), 1+r.Int(2)
		ops := []string{"", "", "", "", "read_large", "write_large", "readdir", "mount"}
		for t, nt := 0, 2+r.Int(3); t < nt; t++ {
			var th []LimEv
			for i, n := 0, 1+r.Int(4); i < n; i++ {
				th = append(th, LimEv{IP: r.Int(nip), Conn: r.Int(nconn), Op: ops[r.Int(len(ops))]})
			}
			sc.Threads = append(sc.Threads, th)
		}
		if r.Pct(50) {
			for i, n := 0, 2+r.Int(6); i < n; i++ {
				sc.Pre = append(sc.Pre, LimEv{IP: r.Int(nip), Conn: r.Int(nconn), Op: ops[r.Int(len(ops))]})
			}
			sc.PreSleepNs = int64(2*3600) * 1e9
			sc.Sched.HorizonS = 4 * 3600
			sc.Cfg.CleanupMs = []int{1, 100, 1000}[r.Int(3)]
		}
		return sc
	}
	sc := &LimScn{Kind: "C18", Cfg: genLimCfg(r), Sched: SeqSched(r.Uint64())}
	n := 10 + r.Int(60)
	nip, nconn := 1+r.Int(3), 1+r.Int(3)
	ops := []string{"", "", "", "read_large", "write_large", "readdir", "mount"}
	if r.Pct(8) {
		// many-addresses motif: more addresses than one cleanup pass removes (the pass is capped), each heard
		// from once, so that several passes run over a large table of idle buckets - and one client that keeps
		// exceeding its own limit all the while: no pass may hand it a fresh bucket
		nip = []int{105, 160, 240, 300, 420}[r.Int(5)]
		sc.Cfg.PerIP, sc.Cfg.PerIPBurst = 1, 1+r.Int(3)
		sc.Cfg.Global = []int{0, 50}[r.Int(2)]
		sc.Cfg.PerConn = 0
		sc.Cfg.CleanupMs = []int{1, 100}[r.Int(2)]
		ab := nip + 1
		for i := 0; i < nip; i++ {
			op := "" // per-address buckets; now and then a per-operation one as well
			if r.Pct(15) {
				op = ops[r.Int(len(ops))]
			}
			sc.Events = append(sc.Events, LimEv{DtNs: int64(r.Int(3)) * 1e5, IP: i, Conn: r.Int(nconn), Op: op})
			if i%40 == 7 {
				for k := 0; k < 4; k++ {
					sc.Events = append(sc.Events, LimEv{DtNs: int64(r.Int(5)) * 1e6, IP: ab, Conn: 0})
				}
			}
		}
		// the abuser keeps sending (mostly refused, its bucket stays near empty) while all the others fall idle and
		// their buckets fill up: the passes its requests trigger then meet a table of more full buckets than one
		// pass removes
		for k, nk := 0, 40+r.Int(70); k < nk; k++ {
			sc.Events = append(sc.Events, LimEv{DtNs: int64(15+r.Int(50)) * 1e6, IP: ab, Conn: 0})
			if r.Pct(6) {
				sc.Events = append(sc.Events, LimEv{DtNs: int64(r.Int(5)) * 1e6, IP: r.Int(nip), Conn: 1, Op: ops[r.Int(len(ops))]})
			}
		}
		n = 5 + r.Int(20)
	}
	for i := 0; i < n; i++ {
		op := ops[r.Int(len(ops))]
		rate := sc.Cfg.PerIP
		if op == "mount" {
			rate = 1
		}
		sc.Events = append(sc.Events, LimEv{DtNs: genDt(r, rate), IP: r.Int(nip), Conn: r.Int(nconn), Op: op})
	}
	sc.Sched.HorizonS = 100000000
	return sc
}

func genC19(r *simrt.Rand, tier string) any {
	if r.Pct(25) {
		// concurrent variant: an abusive client and fresh clients issue requests at the same instant
		sc := &LimScn{Kind: "C19", Sched: RandSched(r)}
		sc.Sched.HorizonS = 600
		sc.Cfg = LimCfg{Global: 1 + r.Int(3), PerIP: 1, PerIPBurst: 1 + r.Int(2), PerConn: 0, CleanupMs: 300000}
		// the abusive client: one address, its requests on 1-3 connections at once
		abs := make([][]LimEv, 1+r.Int(3))
		for i, n := 0, 3+r.Int(5); i < n; i++ {
			k := r.Int(len(abs))
			abs[k] = append(abs[k], LimEv{IP: 0, Conn: 100 + k})
		}
		for _, ab := range abs {
			if len(ab) > 0 {
				sc.Threads = append(sc.Threads, ab)
			}
		}
		for c, n := 1, 1+r.Int(3); c <= n; c++ {
			th := []LimEv{{IP: c, Conn: c}}
			if r.Pct(30) {
				th = append(th, LimEv{IP: c, Conn: c})
			}
			sc.Threads = append(sc.Threads, th)
		}
		return sc
	}
	sc := &LimScn{Kind: "C19", Sched: SeqSched(r.Uint64())}
	// a global budget with room for the compliant clients, an abusive client far beyond its own limit
	sc.Cfg = LimCfg{Global: []int{5, 10, 20}[r.Int(3)], PerIP: []int{1, 2, 3}[r.Int(3)], PerIPBurst: 1 + r.Int(3), PerConn: []int{0, 2}[r.Int(2)], ConnBurst: 2, CleanupMs: 300000}
	n := 20 + r.Int(80)
	fresh := 10
	if r.Pct(1) {
		// huge-table motif: tens of thousands of addresses have been heard from (each once, long ago) before the
		// flood starts - whatever bounds the server puts on its per-address table, newcomers inside their limits
		// are still admitted while the global budget has room
		for i, m := 0, []int{1100, 5000, 17000, 33000, 70000}[r.Int(5)]; i < m; i++ {
			fresh++
			sc.Events = append(sc.Events, LimEv{DtNs: 1e9, IP: fresh, Conn: fresh})
		}
	}
	for i := 0; i < n; i++ {
		switch {
		case r.Pct(75):
			sc.Events = append(sc.Events, LimEv{DtNs: int64(r.Int(3)) * 1e6, IP: 9, Conn: 9}) // abuser: bursts with almost no gap
		case r.Pct(50):
			// a compliant client that has never sent before (inside every limit of its own), right in the flood
			fresh++
			sc.Events = append(sc.Events, LimEv{DtNs: int64(r.Int(3)) * 1e6, IP: fresh, Conn: fresh})
		default:
			who := 1 + r.Int(2)
			sc.Events = append(sc.Events, LimEv{DtNs: int64(2+r.Int(3)) * 1e9, IP: who, Conn: who}) // compliant: seconds apart
		}
	}
	sc.Sched.HorizonS = 100000000
	return sc
}

func shrinkLim(scAny any) []any {
	sc := scAny.(*LimScn)
	var out []any
	for ti := range sc.Threads {
		for j := range sc.Threads[ti] {
			c := *sc
			c.Threads = make([][]LimEv, len(sc.Threads))
			for k := range sc.Threads {
				c.Threads[k] = append([]LimEv(nil), sc.Threads[k]...)
			}
			c.Threads[ti] = append(c.Threads[ti][:j], c.Threads[ti][j+1:]...)
			out = append(out, &c)
		}
	}
	if len(sc.Threads) > 0 {
		return out
	}
	n := len(sc.Events)
	for chunk := n / 2; chunk >= 1; chunk /= 2 {
		if n > 600 && n/chunk > 64 {
			break // a huge history: only coarse cuts (each candidate is a copy); finer ones once it has shrunk
		}
		for start := 0; start+chunk <= n; start += chunk {
			c := *sc
			c.Events = append(append([]LimEv(nil), sc.Events[:start]...), sc.Events[start+chunk:]...)
			out = append(out, &c)
		}
		if chunk == 1 {
			break
		}
	}
	return out
}

func init() {
	real := []string{"RateLimiter", "TokenBucket", "PerIPLimiter (incl. cleanup)", "PerOperationLimiter (incl. cleanup)", "per-connection sync.Map limiters"}
	stub := []string{"clock (synctest fake clock)", "sync.Mutex (simrt equivalents)", "the connection loop is not in this family (it is exercised by C14/C16)"}
	Register(&Prop{ID: "C18", Level: "exploration",
		Rule: "one case = a timing sequence of 10-70 AllowRequest/AllowOperation events over 1-3 IPs, 1-3 connections and all four operation types on the fake clock, with gaps drawn from {0, a third of a token, just over k tokens, milliseconds, seconds, hours (longer than CleanupInterval)} and rates/bursts incl. zero and the fractional mount rate; oracles: per limiter instance admitted <= burst + rate*elapsed at every prefix (reference buckets), a request inside all limits is admitted when nothing was refused before, and the same sequence under CleanupInterval 1 ms and 24 h yields identical decisions; 8% of the sequential cases are the many-addresses motif: 105-420 addresses heard from once (more idle buckets than one capped cleanup pass removes) while one client keeps exceeding its own limit every 15-65 ms for 1-7 s, so that several passes run over a large table while that client's bucket is empty - no pass may hand it a fresh one; 25% of the cases are concurrent: 2-4 tasks issue 1-4 AllowRequest/AllowOperation calls each for 1-2 addresses and connections at ONE simulated instant under the seeded scheduler (buckets are created while others look them up; in half of these after earlier traffic and a silence of two hours, so that the periodic cleanup of idle limiters runs in the middle of the burst) and every limit may then admit at most its burst; non-trivial = at least one event; distinct by event digest",
		Gen:  genC18, New: func() any { return &LimScn{} }, Run: runLimiter, Shrink: shrinkLim, Real: real, Stubbed: stub})
	Register(&Prop{ID: "C19", Level: "exploration",
		Rule: "one case = 20-100 events: an abusive client sending far beyond its per-IP/per-connection limit interleaved on the fake clock with compliant clients spaced seconds apart, under small global budgets; oracle: with reference buckets charged only by admitted requests, a compliant request inside its own limits is admitted whenever the admitted total leaves a token in the global budget; 1% of the sequential cases first hear from 1100-70000 addresses once each (whatever bound a server puts on its per-address table, newcomers inside their limits are still admitted); 25% of the cases are concurrent: an abusive client (3-7 requests from one address, spread over 1-3 connections and tasks) and 1-3 fresh clients call AllowRequest at one simulated instant from separate tasks under the seeded scheduler (global budget 1-3, per-client burst 1-2) and the decisions are checked with porcupine against a specification in which an admission needs room in both budgets and a refusal needs either an exhausted global budget (counting admitted requests only) or a client that has itself issued its burst; non-trivial = at least one event (>= 3 requests from >= 2 tasks when concurrent); distinct by event digest",
		Gen:  genC19, New: func() any { return &LimScn{} }, Run: runLimiter, Shrink: shrinkLim, Real: real, Stubbed: stub})
}
