package h

import (
	"bytes"
	"fmt"
	"net"
	"time"

	"github.com/absfs/absnfs"

	"verif/sim/nfsclient"
	"verif/sim/simfs"
	"verif/sim/simrt"
)

// World is one simulated deployment: a backend, one server instance, clients.
type World struct {
	O    *Outcome
	FS   *simfs.FS
	NFS  *absnfs.AbsfsNFS
	Srv  *absnfs.Server
	Port int
	xid  simrt.Counter
	// NCalls counts replies read.
	NCalls int
}

// NewWorld creates a world with an empty backend.
func NewWorld(o *Outcome) *World {
	w := &World{O: o, FS: simfs.New()}
	w.xid.Store(1000)
	return w
}

// Start creates the AbsfsNFS handler and a record-marking server on an
// ephemeral simulated port.
func (w *World) Start(opts absnfs.ExportOptions) error {
	return w.StartWith(opts, absnfs.ServerOptions{Port: 0, UseRecordMarking: true})
}

// StartWith creates handler and server with explicit server options.
func (w *World) StartWith(opts absnfs.ExportOptions, so absnfs.ServerOptions) error {
	nfs, err := absnfs.New(w.FS.View(), opts)
	if err != nil {
		return err
	}
	w.NFS = nfs
	srv, err := absnfs.NewServer(so)
	if err != nil {
		return err
	}
	srv.SetHandler(nfs)
	if err := srv.Listen(); err != nil {
		return err
	}
	w.Srv = srv
	w.Port = srv.GetPort()
	return nil
}

// Stop shuts the server and handler down.
func (w *World) Stop() {
	if w.Srv != nil {
		w.Srv.Stop()
		w.Srv = nil
	}
	if w.NFS != nil {
		w.NFS.Close()
	}
}

// Cred describes the caller identity of a client.
type Cred struct {
	Flavor uint32   `json:"flavor"` // 0 AUTH_NONE, 1 AUTH_SYS
	UID    uint32   `json:"uid"`
	GID    uint32   `json:"gid"`
	Gids   []uint32 `json:"gids,omitempty"`
}

func (c Cred) auth() nfsclient.Auth {
	if c.Flavor == nfsclient.AuthFlavorSys {
		return nfsclient.AuthSys(7, "sim", c.UID, c.GID, c.Gids)
	}
	if c.Flavor == nfsclient.AuthFlavorNone {
		return nfsclient.AuthNone()
	}
	return nfsclient.Auth{Flavor: c.Flavor}
}

// RootCred is uid 0 / gid 0 AUTH_SYS.
var RootCred = Cred{Flavor: 1}

// Client is one simulated NFS client connection.
type Client struct {
	W       *World
	Conn    *simrt.Conn
	Cred    Cred
	Timeout time.Duration // reply timeout on the simulated clock
	Name    string
	Dead    bool
	trace   []string // normalized decoded results of the current operation (C02 differential)
	last    time.Time
	port    int
	addr    *net.TCPAddr
	faults  *simrt.ConnFaults
	Redials int
	// FragSeed != 0: every call is sent as an RPC record of several fragments (RFC 1831 sec. 10),
	// sizes drawn from this seed (zero-length fragments included)
	FragSeed uint64
	// PauseFor > 0: the next call reaches the server in two parts, the first PauseAt bytes (at least 1, less than
	// all) and, after this long a silence, the rest (one-shot: cleared once used)
	PauseAt  int
	PauseFor time.Duration
}

// Dial opens a connection from addr ("ip:port").
func (w *World) Dial(addr string, cred Cred, f *simrt.ConnFaults) (*Client, error) {
	return w.DialPort(w.Port, addr, cred, f)
}

// DialPort opens a connection to a specific simulated port.
func (w *World) DialPort(port int, addr string, cred Cred, f *simrt.ConnFaults) (*Client, error) {
	ta, err := net.ResolveTCPAddr("tcp", addr)
	if err != nil {
		return nil, err
	}
	c, err := simrt.Dial(ta, port, f)
	if err != nil {
		return nil, err
	}
	return &Client{W: w, Conn: c, Cred: cred, Timeout: 120 * time.Second, Name: addr, last: time.Now(), port: port, addr: ta, faults: f}, nil
}

// ErrNoReply is returned when the connection ended or timed out before a reply.
type ErrNoReply struct{ Cause error }

func (e *ErrNoReply) Error() string { return "no reply: " + e.Cause.Error() }

// RawCall sends one call and reads one reply record (no decoding of results).
func (c *Client) RawCall(prog, vers, proc uint32, args []byte) (*nfsclient.Reply, error) {
	call := nfsclient.Call{XID: uint32(c.W.xid.Add(1)), Prog: prog, Vers: vers, Proc: proc, Cred: c.Cred.auth(), Verf: nfsclient.AuthNone(), Args: args}
	body := call.Encode()
	var frags []int
	if c.FragSeed != 0 {
		fr := simrt.NewRand(c.FragSeed + uint64(call.XID))
		for left := len(body); left > 0 && len(frags) < 12; {
			f := []int{0, 4, 24, 40, 1, 100}[fr.Int(6)]
			if f > left {
				f = left
			}
			frags = append(frags, f)
			left -= f
		}
	}
	return c.Exchange(call.XID, nfsclient.Frame(body, frags), prog, vers, proc)
}

// Exchange writes raw bytes and reads one reply, which must echo xid.
func (c *Client) Exchange(xid uint32, wire []byte, prog, vers, proc uint32) (*nfsclient.Reply, error) {
	// A real client reconnects when the server has reaped an idle connection
	// (the record-marking loop reads with a 30 s deadline); do so before that can race with a request.
	if !c.Dead && time.Since(c.last) > 20*time.Second {
		c.Conn.Close()
		nc, err := simrt.Dial(c.addr, c.port, c.faults)
		if err != nil {
			c.Dead = true
			return nil, &ErrNoReply{err}
		}
		c.Conn = nc
		c.Redials++
	}
	c.last = time.Now()
	if c.Dead {
		return nil, &ErrNoReply{fmt.Errorf("connection dead")}
	}
	c.Conn.SetWriteDeadline(time.Now().Add(c.Timeout))
	if c.PauseFor > 0 && len(wire) > 1 {
		cut := 1 + (c.PauseAt-1+len(wire)-1)%(len(wire)-1)
		d := c.PauseFor
		c.PauseFor = 0
		if _, err := c.Conn.Write(wire[:cut]); err != nil {
			c.Dead = true
			return nil, &ErrNoReply{err}
		}
		simrt.Fault("net.pause_midrecord")
		simrt.Sleep(d)
		wire = wire[cut:]
		c.Conn.SetWriteDeadline(time.Now().Add(c.Timeout))
	}
	if _, err := c.Conn.Write(wire); err != nil {
		c.Dead = true
		return nil, &ErrNoReply{err}
	}
	return c.ReadReply(xid, prog, vers, proc)
}

// ReadReply reads and strictly decodes one reply record.
func (c *Client) ReadReply(xid uint32, prog, vers, proc uint32) (*nfsclient.Reply, error) {
	c.Conn.SetReadDeadline(time.Now().Add(c.Timeout))
	rec, err := nfsclient.ReadRecord(c.Conn, 8<<20)
	if err != nil {
		c.Dead = true
		return nil, &ErrNoReply{err}
	}
	c.W.bumpCalls()
	c.last = time.Now()
	rep, derr := nfsclient.DecodeReply(rec)
	o := c.W.O
	o.Tick()
	if derr != nil {
		o.Vio("C14.rpc-reply-malformed", fmt.Sprintf("prog=%d,proc=%d", prog, proc), "reply to prog=%d vers=%d proc=%d does not decode as RFC 1831 reply: %v; bytes=%x", prog, vers, proc, derr, trunc(rec, 96))
		return nil, derr
	}
	if rep.XID != xid {
		o.Vio("C14.xid-mismatch", fmt.Sprintf("prog=%d,proc=%d", prog, proc), "reply xid %d for call xid %d", rep.XID, xid)
	}
	return rep, nil
}

func trunc(b []byte, n int) []byte {
	if len(b) > n {
		return b[:n]
	}
	return b
}

// Close closes the client side.
func (c *Client) Close() { c.Conn.Close() }

// NFS issues an NFSv3 call and strictly decodes the result (C14 monitor).
// It returns the decoded *XxxRes (nil when the call was not accepted with SUCCESS).
func (c *Client) NFS(proc uint32, args []byte) (any, *nfsclient.Reply, error) {
	rep, err := c.RawCall(nfsclient.ProgNFS, 3, proc, args)
	if err != nil {
		return nil, nil, err
	}
	if rep.Stat != nfsclient.MsgAccepted || rep.AcceptStat != nfsclient.Success {
		c.trace = append(c.trace, fmt.Sprintf("%s:stat=%d,accept=%d", nfsclient.NFSProcName(proc), rep.Stat, rep.AcceptStat))
		return nil, rep, nil
	}
	res, derr := nfsclient.DecodeNFS(proc, rep.Results)
	c.W.O.Tick()
	if derr != nil {
		c.W.O.Vio("C14.nfs-result-malformed", shapeFacts(proc, rep.Results), "NFS proc %d result does not decode as its RFC 1813 result type: %v; bytes=%x", proc, derr, trunc(rep.Results, 128))
		return nil, rep, derr
	}
	c.trace = append(c.trace, nfsclient.NFSProcName(proc)+":"+summarize(res))
	if simrt.Tracing() {
		simrt.Event("reply %s: %s", nfsclient.NFSProcName(proc), clip(summarize(res), 300))
	}
	return res, rep, nil
}

// shapeFacts builds the signature facts for a malformed NFS result: the
// procedure, and the status word when present (and whether it is a member of nfsstat3).
func shapeFacts(proc uint32, res []byte) string {
	if len(res) < 4 {
		return fmt.Sprintf("proc=%d,short", proc)
	}
	st := uint32(res[0])<<24 | uint32(res[1])<<16 | uint32(res[2])<<8 | uint32(res[3])
	if !nfsclient.ValidNFSStat(st) {
		return fmt.Sprintf("proc=%d,status=%d,not-in-nfsstat3", proc, st)
	}
	return fmt.Sprintf("proc=%d,status=%d", proc, st)
}

// Mount issues MOUNT v3 MNT and returns the root handle.
func (c *Client) Mount(path string) ([]byte, *nfsclient.MntRes, error) {
	rep, err := c.RawCall(nfsclient.ProgMount, 3, 1, nfsclient.ArgsMountPath(path))
	if err != nil {
		return nil, nil, err
	}
	if rep.Stat != nfsclient.MsgAccepted || rep.AcceptStat != nfsclient.Success {
		return nil, nil, fmt.Errorf("MNT not accepted: stat=%d accept=%d", rep.Stat, rep.AcceptStat)
	}
	r, derr := nfsclient.DecodeMount(3, 1, rep.Results)
	c.W.O.Tick()
	if derr != nil {
		c.W.O.Vio("C14.mount-result-malformed", "proc=1", "MNT result malformed: %v; bytes=%x", derr, trunc(rep.Results, 64))
		return nil, nil, derr
	}
	mr := r.(*nfsclient.MntRes)
	if mr.Status != 0 {
		return nil, mr, fmt.Errorf("MNT status %d", mr.Status)
	}
	return mr.FH, mr, nil
}

// helpers for common calls -------------------------------------------------

func (c *Client) Getattr(fh []byte) (*nfsclient.GetattrRes, error) {
	r, _, err := c.NFS(nfsclient.NFSProcGetattr, nfsclient.ArgsFH(fh))
	if err != nil || r == nil {
		return nil, orNotAccepted(err)
	}
	return r.(*nfsclient.GetattrRes), nil
}

func (c *Client) Lookup(dir []byte, name string) (*nfsclient.LookupRes, error) {
	r, _, err := c.NFS(nfsclient.NFSProcLookup, nfsclient.ArgsDirOp(dir, name))
	if err != nil || r == nil {
		return nil, orNotAccepted(err)
	}
	return r.(*nfsclient.LookupRes), nil
}

func (c *Client) Read(fh []byte, off uint64, count uint32) (*nfsclient.ReadRes, error) {
	r, _, err := c.NFS(nfsclient.NFSProcRead, nfsclient.ArgsRead(fh, off, count))
	if err != nil || r == nil {
		return nil, orNotAccepted(err)
	}
	return r.(*nfsclient.ReadRes), nil
}

func (c *Client) Write(fh []byte, off uint64, stable uint32, data []byte) (*nfsclient.WriteRes, error) {
	r, _, err := c.NFS(nfsclient.NFSProcWrite, nfsclient.ArgsWrite(fh, off, uint32(len(data)), stable, data))
	if err != nil || r == nil {
		return nil, orNotAccepted(err)
	}
	return r.(*nfsclient.WriteRes), nil
}

func (c *Client) Create(dir []byte, name string, how uint32, sa nfsclient.Sattr3, verf [8]byte) (*nfsclient.CreateRes, error) {
	r, _, err := c.NFS(nfsclient.NFSProcCreate, nfsclient.ArgsCreate(dir, name, how, sa, verf))
	if err != nil || r == nil {
		return nil, orNotAccepted(err)
	}
	return r.(*nfsclient.CreateRes), nil
}

func (c *Client) Setattr(fh []byte, sa nfsclient.Sattr3) (*nfsclient.SetattrRes, error) {
	r, _, err := c.NFS(nfsclient.NFSProcSetattr, nfsclient.ArgsSetattr(fh, sa, nil))
	if err != nil || r == nil {
		return nil, orNotAccepted(err)
	}
	return r.(*nfsclient.SetattrRes), nil
}

var errNotAccepted = fmt.Errorf("call not accepted with SUCCESS")

func orNotAccepted(err error) error {
	if err != nil {
		return err
	}
	return errNotAccepted
}

// PayloadBytes derives n unique-looking bytes from seed (never zero, so holes are distinguishable).
func PayloadBytes(seed uint64, n int) []byte {
	b := make([]byte, n)
	x := seed*0x9e3779b97f4a7c15 + 1
	for i := range b {
		x ^= x << 13
		x ^= x >> 7
		x ^= x << 17
		v := byte(x)
		if v == 0 {
			v = 1
		}
		b[i] = v
	}
	return b
}

func u32p(v uint32) *uint32 { return &v }
func u64p(v uint64) *uint64 { return &v }

func eqBytes(a, b []byte) bool { return bytes.Equal(a, b) }

//go:norace
func (w *World) bumpCalls() { w.NCalls++ }
