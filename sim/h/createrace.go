package h

import (
	"fmt"
	"testing"
	"time"

	"verif/sim/nfsclient"
	"verif/sim/simfs"
	"verif/sim/simrt"
)

// C03, concurrent class: several CREATE requests for ONE name are in the server at the same time, each on its
// own connection (GUARDED and EXCLUSIVE creates are what NFS clients build lock files from). Whatever the
// interleaving: once the name exists, a GUARDED create fails and an EXCLUSIVE one succeeds only with the
// verifier of the create that made the file - so at most one GUARDED create succeeds, all successful EXCLUSIVE
// creates carry one verifier, and a GUARDED and an EXCLUSIVE create never both succeed. No create (none sets
// a size) takes away data that an earlier, answered create-and-write put there.

type CreateRaceReq struct {
	How     uint32 `json:"how"` // 0 UNCHECKED 1 GUARDED 2 EXCLUSIVE
	Verf    uint64 `json:"verf,omitempty"`
	Write   int    `json:"write,omitempty"` // > 0: after a successful create, WRITE this many bytes through the returned handle
	DelayUs int    `json:"delay_us,omitempty"`
}

type CreateRaceScn struct {
	Exists  bool            `json:"exists,omitempty"` // the name is there already (a file with data, made by nobody's verifier)
	Mover   bool            `json:"mover,omitempty"`  // one more client RENAMEs a file with data ONTO the name while the (GUARDED, non-writing) creates are in the server
	MoverUs int             `json:"mover_us,omitempty"`
	Reqs    []CreateRaceReq `json:"reqs"`
	Workers int             `json:"workers"`
	Stalls  []simfs.Fault   `json:"stalls,omitempty"`
	Sched   SchedCfg        `json:"sched"`
}

func genCreateRace(r *simrt.Rand) *CreateRaceScn {
	sc := &CreateRaceScn{Exists: r.Pct(25), Workers: 2 + r.Int(3), Sched: RandSched(r)}
	kind := r.Int(3) // 0 all EXCLUSIVE, 1 all GUARDED, 2 mixed
	for i, n := 0, 2+r.Int(3); i < n; i++ {
		q := CreateRaceReq{How: uint32(r.Pick([]int{20, 40, 40})), DelayUs: []int{0, 0, 30, 300, 2500}[r.Int(5)]}
		switch kind {
		case 0:
			q.How = 2 // all EXCLUSIVE (lock files)
		case 1:
			q.How = 1 // all GUARDED
		}
		if q.How == 2 {
			q.Verf = uint64(1 + r.Int(3)) // some share a verifier (a retransmission), most do not
		}
		if r.Pct(40) {
			q.Write = 1 + r.Int(60)
		}
		sc.Reqs = append(sc.Reqs, q)
	}
	if !sc.Exists && r.Pct(30) {
		// a RENAME onto the name races with GUARDED creates of it: every order of the two leaves the moved file's data
		// there (create then rename: replaced by it; rename then create: NFS3ERR_EXIST) - no writes, so the verdict is exact
		sc.Mover, sc.MoverUs = true, []int{0, 0, 30, 300, 2500}[r.Int(5)]
		for i := range sc.Reqs {
			sc.Reqs[i].How, sc.Reqs[i].Verf, sc.Reqs[i].Write = 1, 0, 0
		}
	}
	if r.Pct(60) {
		for i, n := 0, 1+r.Int(2); i < n; i++ {
			sc.Stalls = append(sc.Stalls, simfs.Fault{Op: []string{"Lstat", "Create", "Chmod", "File.Close", "OpenFile", ""}[r.Int(6)], Nth: 1 + r.Int(10), Kind: "stall",
				Stall: []time.Duration{100 * time.Microsecond, 3 * time.Millisecond, 40 * time.Millisecond}[r.Int(3)]})
		}
	}
	return sc
}

func runCreateRace(t *testing.T, sc *SeqScn, trace bool) *Outcome {
	d := sc.CRace
	o := &Outcome{}
	res := Bubble(t, d.Sched.config(trace), nil, func() {
		simrt.Event("scenario %x", simrt.Hash(hashBytes(mustJSON(sc))))
		simrt.Probe("run_class.concurrent_create_of_one_name")
		if len(d.Reqs) < 2 {
			return
		}
		w := NewWorld(o)
		w.FS.MustMkdir("/d", 0o777)
		old := PayloadBytes(77, 90)
		if d.Exists {
			w.FS.MustWriteFile("/d/lock", old, 0o644)
		}
		moved := PayloadBytes(78, 70)
		if d.Mover {
			w.FS.MustWriteFile("/d/src", moved, 0o644)
		}
		opts := SrvCfg{Squash: "none", MaxWorkers: d.Workers, AttrTTLms: 2000, AttrSize: 64}.options()
		if err := w.Start(opts); err != nil {
			o.Inconclusive = "start: " + err.Error()
			return
		}
		defer w.Stop()
		var mover *Client
		var moverDir []byte
		if d.Mover {
			cl, err := w.Dial("10.0.2.99:799", RootCred, nil)
			if err != nil {
				o.Inconclusive = "dial: " + err.Error()
				return
			}
			defer cl.Close()
			root, _, err := cl.Mount("/")
			if err != nil || root == nil {
				o.Inconclusive = fmt.Sprintf("mount: %v", err)
				return
			}
			dl, err := cl.Lookup(root, "d")
			if err != nil || dl == nil || dl.Status != 0 {
				o.Inconclusive = fmt.Sprintf("lookup d: %v", err)
				return
			}
			mover, moverDir = cl, dl.FH
		}
		type rc struct {
			cl  *Client
			dir []byte
		}
		cls := make([]rc, len(d.Reqs))
		for i := range d.Reqs {
			cl, err := w.Dial(fmt.Sprintf("10.0.2.%d:%d", 1+i, 700+i), RootCred, nil)
			if err != nil {
				o.Inconclusive = "dial: " + err.Error()
				return
			}
			defer cl.Close()
			root, _, err := cl.Mount("/")
			if err != nil || root == nil {
				o.Inconclusive = fmt.Sprintf("mount: %v", err)
				return
			}
			dl, err := cl.Lookup(root, "d")
			if err != nil || dl == nil || dl.Status != 0 {
				o.Inconclusive = fmt.Sprintf("lookup d: %v", err)
				return
			}
			cls[i] = rc{cl, dl.FH}
		}
		for _, f := range d.Stalls {
			w.FS.AddFault(f)
		}
		type outc struct {
			i       int
			status  uint32
			err     error
			wrote   []byte // data acknowledged by the WRITE that followed the create
			wroteAt int64  // stamp at which that WRITE was answered
			created int64  // stamp at which the create was answered
		}
		done := make(chan outc, len(d.Reqs))
		for i, q := range d.Reqs {
			i, q := i, q
			simrt.Go(fmt.Sprintf("create-client-%d", i), func() {
				simrt.Sleep(time.Duration(q.DelayUs) * time.Microsecond)
				res, err := cls[i].cl.Create(cls[i].dir, "lock", q.How, nfsclient.Sattr3{}, verfBytes(q.Verf))
				oc := outc{i: i, err: err, status: 0xffffffff}
				if err == nil && res != nil {
					oc.status = res.Status
					oc.created = simrt.Stamp()
					if res.Status == 0 && q.Write > 0 && res.FH != nil {
						data := PayloadBytes(uint64(1000+i), q.Write)
						if wr, werr := cls[i].cl.Write(res.FH, 0, 2, data); werr == nil && wr != nil && wr.Status == 0 && int(wr.Count) == len(data) {
							oc.wrote, oc.wroteAt = data, simrt.Stamp()
						}
					}
				}
				simrt.Send("create.done", done, oc)
			})
		}
		moveDone := make(chan uint32, 1)
		if d.Mover {
			simrt.Go("rename-client", func() {
				simrt.Sleep(time.Duration(d.MoverUs) * time.Microsecond)
				st := uint32(0xffffffff)
				if r0, _, err := mover.NFS(nfsclient.NFSProcRename, nfsclient.ArgsRename(moverDir, "src", moverDir, "lock")); err == nil && r0 != nil {
					st = r0.(*nfsclient.RenameRes).Status
				}
				simrt.Send("rename.done", moveDone, st)
			})
		}
		outs := make([]outc, len(d.Reqs))
		for range d.Reqs {
			oc := simrt.Recv("create.wait", done)
			outs[oc.i] = oc
			simrt.Event("create %d: how=%d status=%d err=%v", oc.i, d.Reqs[oc.i].How, oc.status, oc.err)
		}
		movedStatus := uint32(0xffffffff)
		if d.Mover {
			movedStatus = simrt.Recv("rename.wait", moveDone)
			simrt.Event("rename onto the name: status=%d", movedStatus)
			simrt.Probe("c03.rename_onto_name_while_creating")
		}
		o.NonTrivial = true
		var okG, okX []int
		verfs := map[uint64]bool{}
		for i, oc := range outs {
			if oc.err != nil || oc.status != 0 {
				continue
			}
			switch d.Reqs[i].How {
			case 1:
				okG = append(okG, i)
			case 2:
				okX = append(okX, i)
				verfs[d.Reqs[i].Verf] = true
			}
		}
		o.Tick()
		desc := func() string { return string(mustJSON(d.Reqs)) }
		switch {
		case d.Exists && len(okG) > 0:
			o.Vio("C03.guarded-create-succeeded-on-existing-name", "class=concurrent-create,pre-existing", "the name existed before any request was sent, yet GUARDED create %v was answered NFS3_OK (%s)", okG, desc())
		case d.Exists && len(okX) > 0:
			// a file of unknown origin: the server's historical answer for EXCLUSIVE is judged by the sequential class
		// (EXCLUSIVE creates that succeed on a file an UNCHECKED or GUARDED create may have made first are the
		// listed finding "files of unknown origin keep the historical idempotent answer", judged by the
		// sequential class; here only verdicts that do not depend on it)
		case len(okG) > 1:
			o.Vio("C03.two-guarded-creates-of-one-name-succeeded", "class=concurrent-create", "GUARDED creates %v of the one name were all answered NFS3_OK: when the later one created the file the name existed already (%s)", okG, desc())
		case len(verfs) > 1 && allExclusive(d.Reqs):
			o.Vio("C03.exclusive-creates-with-different-verifiers-succeeded", "class=concurrent-create", "EXCLUSIVE creates %v of the one name, carrying different verifiers, were all answered NFS3_OK: only the create that made the file and its retransmissions may succeed (%s)", okX, desc())
		}
		// data: a write acknowledged before another create was even answered... is not what is judged (an UNCHECKED
		// create may legitimately come first); what is judged: no request sets a size, so the final content is the
		// old content (if the name existed) overlaid with the acknowledged writes in some order - never shorter
		// than the longest acknowledged write or the old content, unless the file was created anew over it
		if d.Mover && movedStatus == 0 {
			// the RENAME was carried out: before it or after it a GUARDED create changes nothing of the moved file
			// (after it the name exists: NFS3ERR_EXIST, "leaves the existing object untouched"; before it the created
			// file is what the RENAME replaces), and nobody writes or sets a size
			o.Tick()
			if b, ok := w.FS.ReadAll("/d/lock"); !ok || string(b) != string(moved) {
				o.Vio("C03.existing-data-destroyed", "class=concurrent-create,rename-onto-name", "a RENAME that put a file of %d bytes at the name was answered NFS3_OK while GUARDED creates of the name (answered OK: %v) were in the server; nobody writes or sets a size, yet the name now holds %d bytes (present=%v): a create that had found the name absent created it anew over the moved file", len(moved), okG, len(b), ok)
			}
		}
		if b, ok := w.FS.ReadAll("/d/lock"); ok {
			o.Tick()
			if d.Exists {
				// nobody sets a size: the old bytes beyond every written prefix are still there
				longest := 0
				for _, oc := range outs {
					if len(oc.wrote) > longest {
						longest = len(oc.wrote)
					}
				}
				if len(b) < len(old) || longest < len(old) && string(b[longest:len(old)]) != string(old[longest:]) {
					o.Vio("C03.existing-data-destroyed", "class=concurrent-create", "the name held %d bytes before the requests; no request sets a size, the longest acknowledged write is %d bytes, yet the file now holds %d bytes and its tail differs from the old one", len(old), longest, len(b))
				}
			}
		}
	})
	o.finish(res, "C03")
	if res != nil {
		for _, p := range res.Panics {
			o.Vio("C03.panic", panicFacts(p), "%s", firstLines(p, 14))
		}
	}
	return o
}

func allExclusive(reqs []CreateRaceReq) bool {
	for _, q := range reqs {
		if q.How != 2 {
			return false
		}
	}
	return true
}

func shrinkCreateRace(sc *SeqScn) []any {
	d := sc.CRace
	var out []any
	cp := func() (*SeqScn, *CreateRaceScn) {
		c := *sc
		nd := *d
		nd.Reqs = append([]CreateRaceReq(nil), d.Reqs...)
		nd.Stalls = append([]simfs.Fault(nil), d.Stalls...)
		c.CRace = &nd
		return &c, &nd
	}
	for i := range d.Reqs {
		if len(d.Reqs) > 2 {
			c, nd := cp()
			nd.Reqs = append(nd.Reqs[:i], nd.Reqs[i+1:]...)
			out = append(out, c)
		}
	}
	for i := range d.Stalls {
		c, nd := cp()
		nd.Stalls = append(nd.Stalls[:i], nd.Stalls[i+1:]...)
		out = append(out, c)
	}
	for i := range d.Reqs {
		if d.Reqs[i].DelayUs != 0 {
			c, nd := cp()
			nd.Reqs[i].DelayUs = 0
			out = append(out, c)
		}
		if d.Reqs[i].Write != 0 {
			c, nd := cp()
			nd.Reqs[i].Write = 0
			out = append(out, c)
		}
	}
	if d.Workers > 2 {
		c, nd := cp()
		nd.Workers = 2
		out = append(out, c)
	}
	if d.MoverUs != 0 {
		c, nd := cp()
		nd.MoverUs = 0
		out = append(out, c)
	}
	return out
}
