package h

import (
	"encoding/json"
	"fmt"
	"os"
	"path/filepath"
	"sort"
	"strconv"
	"strings"
	"testing"
	"time"

	"verif/sim/simrt"
)

func envInt(name string, def int) int {
	if v := os.Getenv(name); v != "" {
		if n, err := strconv.Atoi(v); err == nil {
			return n
		}
	}
	return def
}

func envU64(name string, def uint64) uint64 {
	if v := os.Getenv(name); v != "" {
		if n, err := strconv.ParseUint(v, 10, 64); err == nil {
			return n
		}
		if n, err := strconv.ParseInt(v, 10, 64); err == nil {
			return uint64(n)
		}
	}
	return def
}

func loadKnown(path string) map[string]bool {
	out := map[string]bool{}
	if path == "" {
		return out
	}
	b, err := os.ReadFile(path)
	if err != nil {
		return out
	}
	var kf struct {
		Findings []struct {
			Property  string `json:"property"`
			Signature string `json:"signature"`
		} `json:"findings"`
	}
	if json.Unmarshal(b, &kf) == nil {
		for _, f := range kf.Findings {
			out[f.Property+"|"+f.Signature] = true
		}
	}
	return out
}

func propSeedWord(id string) uint64 {
	var h uint64 = 1469598103934665603
	for i := 0; i < len(id); i++ {
		h ^= uint64(id[i])
		h *= 1099511628211
	}
	return h
}

// TestMain removes the process-wide scratch directory C30 makes (whichever entry point made it).
func TestMain(m *testing.M) {
	code := m.Run()
	if c30RootsDir != "" {
		os.RemoveAll(c30RootsDir)
	}
	os.Exit(code)
}

// TestSim is the entry point used by /verif/check. Configuration by environment:
//
//	VERIF_PROP      property id (required)
//	VERIF_SEED      base seed
//	VERIF_PROC      process index, VERIF_NPROC number of processes
//	VERIF_BUDGET_S  wall-clock budget for this process
//	VERIF_RUNS      maximum number of runs (0 = until budget)
//	VERIF_TIER      quick | thorough
//	VERIF_OUT       result file (JSON ProcResult)
//	VERIF_REPLAYS   directory for replay files
//	VERIF_KNOWN     known_findings.json
//	VERIF_REPLAY    replay file to execute instead of searching
func TestSim(t *testing.T) {
	id := os.Getenv("VERIF_PROP")
	if id == "" {
		t.Skip("VERIF_PROP not set")
	}
	p := registry[id]
	out := os.Getenv("VERIF_OUT")
	res := &ProcResult{Prop: id, Tier: os.Getenv("VERIF_TIER"), Seed: envU64("VERIF_SEED", 1), Proc: envInt("VERIF_PROC", 0),
		Faults: map[string]int{}, Probes: map[string]int{}, Race: simrt.RaceEnabled}
	if res.Tier == "" {
		res.Tier = "quick"
	}
	writeOut := func() {
		if out == "" {
			b, _ := json.Marshal(res)
			fmt.Println(string(b))
			return
		}
		b, _ := json.Marshal(res)
		if err := os.WriteFile(out, b, 0o644); err != nil {
			t.Errorf("write %s: %v", out, err)
		}
	}
	if p == nil {
		res.Error = "unknown property " + id
		writeOut()
		return
	}
	start := time.Now()
	defer func() {
		res.WallS = time.Since(start).Seconds()
		writeOut()
	}()
	if rp := os.Getenv("VERIF_REPLAY"); rp != "" {
		runReplay(t, p, rp, res)
		return
	}
	known := loadKnown(os.Getenv("VERIF_KNOWN"))
	budget := time.Duration(envInt("VERIF_BUDGET_S", 20)) * time.Second
	maxRuns := envInt("VERIF_RUNS", 0)
	replayDir := os.Getenv("VERIF_REPLAYS")
	if replayDir == "" {
		replayDir = "/verif/replays"
	}
	// regression scenarios (VERIF_REGRESS/<ID>-*.json: scenarios that once failed) are run first, by process 0
	var regress []any
	if dir := os.Getenv("VERIF_REGRESS"); dir != "" && res.Proc == 0 {
		files, _ := filepath.Glob(filepath.Join(dir, id+"-*.json"))
		sort.Strings(files)
		for _, f := range files {
			var rf ReplayFile
			if b, err := os.ReadFile(f); err == nil && json.Unmarshal(b, &rf) == nil && len(rf.Scenario) > 0 {
				sc := p.New()
				if json.Unmarshal(rf.Scenario, sc) == nil {
					regress = append(regress, sc)
				}
			}
		}
	}
	seen := map[string]*VioReport{}
	digests := map[uint64]struct{}{}
	sched := map[uint64]struct{}{}
	for i := 0; ; i++ {
		if maxRuns > 0 && i >= maxRuns {
			break
		}
		if time.Since(start) > budget {
			break
		}
		seed := simrt.Hash(res.Seed, propSeedWord(id), uint64(res.Proc), uint64(i))
		rng := simrt.NewRand(seed)
		sc := p.Gen(rng, res.Tier)
		if i < len(regress) {
			sc = regress[i]
			res.Probes["regression_scenario_replayed"]++
		}
		o := p.Run(t, clone(p, sc), false)
		res.Runs++
		if o == nil {
			res.Inconclusive++
			continue
		}
		if rep := raceDelta(); rep != "" {
			// the race detector reported during this run: attribute it to this seed
			res.RaceReports++
			o.Vio(id+".data-race", raceFacts(rep), "race detector report during this run (seed %d):\n%s", seed, clip(rep, 3000))
		}
		res.Checks += int64(o.Checks)
		if o.Res != nil {
			res.Steps += int64(o.Res.Steps)
			res.SimSeconds += o.Res.SimTime.Seconds()
			for k, v := range o.Res.Faults {
				res.Faults[k] += v
			}
			for k, v := range o.Res.Probes {
				res.Probes[k] += v
			}
			if o.Res.DistinctDec > 0 {
				sched[o.Res.Digest] = struct{}{}
			}
		}
		if o.Inconclusive != "" {
			res.Inconclusive++
			if res.InconclSample == "" {
				res.InconclSample = fmt.Sprintf("seed=%d: %s", seed, firstLine(o.Inconclusive))
			}
			continue
		}
		if o.NonTrivial && o.Res != nil {
			res.NonTrivial++
			if _, ok := digests[o.Res.Digest]; !ok {
				digests[o.Res.Digest] = struct{}{}
				if len(res.Digests) < 200000 {
					res.Digests = append(res.Digests, o.Res.Digest)
				}
			}
			if len(res.Samples) < 2 {
				if js := mustJSON(map[string]any{"seed": seed, "scenario": sc}); len(js) < 64<<10 { // samples are for reading
					res.Samples = append(res.Samples, js)
				}
			}
		}
		// determinism spot check: re-run 2% of the seeds and compare digests
		if i%50 == 7 && o.Res != nil {
			o2 := p.Run(t, clone(p, sc), false)
			res.DetRechecked++
			if o2 == nil || o2.Res == nil || o2.Res.Digest != o.Res.Digest {
				res.DetMismatch = append(res.DetMismatch, fmt.Sprintf("seed=%d", seed))
			}
		}
		for vi := range o.Violations {
			v := o.Violations[vi]
			if r, ok := seen[v.Signature]; ok {
				r.Count++
				continue
			}
			rep := &VioReport{Violation: v, Seed: seed, Known: known[id+"|"+v.Signature], Count: 1}
			seen[v.Signature] = rep
			res.Violations = append(res.Violations, rep)
			min := sc
			if !rep.Known {
				// minimise and write a replay file only for violations that will be reported
				min = minimise(t, p, sc, v.Signature, 30*time.Second)
				rep.Minimised = true
				path, err := writeReplay(replayDir, p, min, &v, seed, t)
				if err != nil {
					res.Error = "write replay: " + err.Error()
				}
				rep.Replay = path
			}
			rep.Scenario = mustJSON(min)
		}
	}
	res.DistinctSched = len(sched)
}

func firstLine(s string) string {
	if i := strings.IndexByte(s, '\n'); i >= 0 {
		return s[:i]
	}
	return s
}

// runReplay executes a replay file and reports whether the recorded violation
// reproduces with the same event digest.
func runReplay(t *testing.T, p *Prop, path string, res *ProcResult) {
	b, err := os.ReadFile(path)
	if err != nil {
		res.Error = err.Error()
		return
	}
	var rf ReplayFile
	if err := json.Unmarshal(b, &rf); err != nil {
		res.Error = err.Error()
		return
	}
	sc := p.New()
	if err := json.Unmarshal(rf.Scenario, sc); err != nil {
		res.Error = err.Error()
		return
	}
	o := p.Run(t, sc, true)
	if rep := raceDelta(); rep != "" && o != nil {
		o.Vio(p.ID+".data-race", raceFacts(rep), "race detector report during this run:\n%s", clip(rep, 3000))
	}
	res.Runs = 1
	if o == nil || o.Res == nil {
		res.Error = "replay produced no result"
		return
	}
	if v := hasSig(o, rf.Signature); v != nil {
		same := o.Res.Digest == rf.Digest || rf.Race != simrt.RaceEnabled
		res.Violations = append(res.Violations, &VioReport{Violation: *v, Seed: rf.Seed, Replay: path, Count: 1, Minimised: same})
		if !same {
			res.Error = fmt.Sprintf("violation reproduced but event digest differs (%d vs recorded %d)", o.Res.Digest, rf.Digest)
		}
	}
	for _, v := range o.Violations {
		fmt.Printf("REPLAY violation %s: %s\n", v.Signature, v.Detail)
	}
}

// TestMeta writes static facts about a property (or the property list) for the driver.
func TestMeta(t *testing.T) {
	id := os.Getenv("VERIF_META")
	out := os.Getenv("VERIF_OUT")
	if id == "" || out == "" {
		t.Skip()
	}
	var v any
	if id == "*" {
		ids := []string{}
		for k := range registry {
			ids = append(ids, k)
		}
		sortStrings(ids)
		v = map[string]any{"props": ids}
	} else if p := registry[id]; p != nil {
		v = map[string]any{"level": p.Level, "rule": p.Rule, "assumptions": p.Assumptions,
			"components": map[string]any{"real": p.Real, "stubbed": p.Stubbed}}
	} else {
		v = map[string]any{}
	}
	b, _ := json.Marshal(v)
	os.WriteFile(out, b, 0o644)
}

func sortStrings(s []string) {
	for i := 1; i < len(s); i++ {
		for j := i; j > 0 && s[j] < s[j-1]; j-- {
			s[j], s[j-1] = s[j-1], s[j]
		}
	}
}

// TestDeterminism runs VERIF_RUNS seeds of VERIF_DET twice each and writes the
// event digests; the driver compares them across processes, GOMAXPROCS values
// and build variants.
func TestDeterminism(t *testing.T) {
	id := os.Getenv("VERIF_DET")
	out := os.Getenv("VERIF_OUT")
	if id == "" || out == "" {
		t.Skip()
	}
	p := registry[id]
	if p == nil {
		t.Fatalf("unknown property %s", id)
	}
	base := envU64("VERIF_SEED", 1)
	n := envInt("VERIF_RUNS", 30)
	var digests []string
	var mismatch []uint64
	for i := 0; i < n; i++ {
		seed := simrt.Hash(base, propSeedWord(id), 0, uint64(i))
		sc := p.Gen(simrt.NewRand(seed), "quick")
		o1 := p.Run(t, clone(p, sc), false)
		o2 := p.Run(t, clone(p, sc), false)
		d1, d2 := outcomeDigest(o1), outcomeDigest(o2)
		digests = append(digests, d1)
		if d1 != d2 {
			mismatch = append(mismatch, seed)
		}
	}
	b, _ := json.Marshal(map[string]any{"digests": digests, "mismatch": mismatch})
	os.WriteFile(out, b, 0o644)
}

func outcomeDigest(o *Outcome) string {
	if o == nil || o.Res == nil {
		return "nil"
	}
	sigs := []string{}
	for _, v := range o.Violations {
		sigs = append(sigs, v.Signature)
	}
	sortStrings(sigs)
	return fmt.Sprintf("%d/%d/%s", o.Res.Digest, o.Res.Steps, strings.Join(sigs, ","))
}

var raceOff int64

// raceDelta returns what the race detector wrote to its log (GORACE log_path) since the last call.
func raceDelta() string {
	base := os.Getenv("VERIF_RACELOG")
	if base == "" {
		return ""
	}
	b, err := os.ReadFile(fmt.Sprintf("%s.%d", base, os.Getpid()))
	if err != nil || int64(len(b)) <= raceOff {
		return ""
	}
	out := string(b[raceOff:])
	raceOff = int64(len(b))
	if !strings.Contains(out, "DATA RACE") {
		return ""
	}
	return out
}

// raceFacts names the two conflicting accesses by the first function of the
// code under test (or harness) in each stack: stable across line-number changes.
func raceFacts(rep string) string {
	var fns []string
	lines := strings.Split(rep, "\n")
	inStack := false
	for _, l := range lines {
		t := strings.TrimSpace(l)
		switch {
		case strings.HasPrefix(t, "Write at"), strings.HasPrefix(t, "Read at"), strings.HasPrefix(t, "Previous write at"), strings.HasPrefix(t, "Previous read at"):
			inStack = true
		case t == "" || strings.HasPrefix(t, "Goroutine"):
			inStack = false
		case inStack && strings.Contains(t, "absnfs.") && strings.HasSuffix(t, ")"):
			fn := t[strings.Index(t, "absnfs.")+7:]
			if i := strings.Index(fn, "("); i > 0 && !strings.HasPrefix(fn, "(") {
				fn = fn[:i]
			} else if j := strings.LastIndex(fn, "("); j > 0 {
				fn = fn[:j]
			}
			fns = append(fns, fn)
			inStack = false
		}
		if len(fns) == 2 {
			break
		}
	}
	sortStrings(fns)
	if len(fns) == 0 {
		return "unattributed"
	}
	return "between=" + sanitize(strings.Join(fns, "|"))
}
