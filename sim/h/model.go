package h

import (
	"path"
	"sort"
	"strings"
)

// Reference models: deliberately simple, no implementation constants.

// fileModel is a write-log model of one regular file: the byte at a position is
// decided by scanning the log backwards.
type fileModel struct {
	size uint64
	log  []fmEntry
}

type fmEntry struct {
	trunc bool
	off   uint64 // write offset, or new size for a truncation
	data  []byte
}

func (f *fileModel) write(off uint64, data []byte) {
	if len(data) == 0 {
		return
	}
	f.log = append(f.log, fmEntry{off: off, data: append([]byte(nil), data...)})
	if off+uint64(len(data)) > f.size {
		f.size = off + uint64(len(data))
	}
}

func (f *fileModel) truncate(size uint64) {
	f.log = append(f.log, fmEntry{trunc: true, off: size})
	f.size = size
}

func (f *fileModel) byteAt(pos uint64) byte {
	for i := len(f.log) - 1; i >= 0; i-- {
		e := &f.log[i]
		if e.trunc {
			if pos >= e.off {
				return 0 // cut off by this truncation; anything visible now was written later
			}
			continue
		}
		if pos >= e.off && pos-e.off < uint64(len(e.data)) {
			return e.data[pos-e.off]
		}
	}
	return 0
}

// read returns the bytes of [off, off+n) clipped at size.
func (f *fileModel) read(off uint64, n uint64) []byte {
	if off >= f.size {
		return []byte{}
	}
	if off+n > f.size || off+n < off {
		n = f.size - off
	}
	out := make([]byte, n)
	for i := range out {
		out[i] = f.byteAt(off + uint64(i))
	}
	return out
}

func (f *fileModel) clone() *fileModel {
	n := &fileModel{size: f.size, log: make([]fmEntry, len(f.log))}
	copy(n.log, f.log)
	return n
}

// node kinds as strings for readable reports.
const (
	mFile = "file"
	mDir  = "dir"
	mLink = "symlink"
)

type mnode struct {
	id       int // identity of the object (survives rename; a re-created path gets a new one)
	kind     string
	perm     uint32 // 12 permission bits
	uid, gid uint32
	file     *fileModel
	target   string
	verf     *[8]byte // exclusive-create verifier that made this file (nil otherwise)
}

// treeModel is a path-level POSIX-like tree.
type treeModel struct {
	nodes  map[string]*mnode // clean absolute path -> node
	nextID int
	gen    map[string]int // path -> number of times the occupant of that path changed
}

func newTreeModel() *treeModel {
	return &treeModel{nodes: map[string]*mnode{"/": {id: 1, kind: mDir, perm: 0o755}}, nextID: 1, gen: map[string]int{}}
}

func (t *treeModel) get(p string) *mnode { return t.nodes[p] }

func (t *treeModel) children(dir string) []string {
	var out []string
	prefix := dir
	if prefix != "/" {
		prefix += "/"
	}
	for p := range t.nodes {
		if p != "/" && strings.HasPrefix(p, prefix) && !strings.Contains(p[len(prefix):], "/") {
			out = append(out, p[len(prefix):])
		}
	}
	sort.Strings(out)
	return out
}

func (t *treeModel) paths() []string {
	out := make([]string, 0, len(t.nodes))
	for p := range t.nodes {
		out = append(out, p)
	}
	sort.Strings(out)
	return out
}

func (t *treeModel) add(p string, n *mnode) {
	if n.id == 0 {
		t.nextID++
		n.id = t.nextID
	}
	t.nodes[p] = n
	t.gen[p]++
}

func (t *treeModel) removeSubtree(p string) {
	for q := range t.nodes {
		if q == p || strings.HasPrefix(q, p+"/") {
			delete(t.nodes, q)
			t.gen[q]++
		}
	}
}

func (t *treeModel) moveSubtree(from, to string) {
	moved := map[string]*mnode{}
	for q, n := range t.nodes {
		if q == from {
			moved[to] = n
			delete(t.nodes, q)
			t.gen[q]++
		} else if strings.HasPrefix(q, from+"/") {
			moved[to+q[len(from):]] = n
			delete(t.nodes, q)
			t.gen[q]++
		}
	}
	for q, n := range moved {
		t.nodes[q] = n
		t.gen[q]++
	}
}

// validName is the component predicate of property C07.
func validName(name string) bool {
	if name == "" || len(name) > 255 || name == "." || name == ".." {
		return false
	}
	return !strings.ContainsAny(name, "/\\\x00")
}

// validTarget is the symlink-target predicate of property C07.
func validTarget(target string) bool {
	if target == "" || strings.HasPrefix(target, "/") {
		return false
	}
	for _, c := range strings.Split(target, "/") {
		if c == ".." {
			return false
		}
	}
	return true
}

func joinPath(dir, name string) string { return path.Join(dir, name) }

// rename applies POSIX rename semantics; ok=false means the request must fail
// and leave the tree unchanged.
func (t *treeModel) rename(from, to string) bool {
	src := t.get(from)
	if src == nil {
		return false
	}
	if from == to {
		return true
	}
	if src.kind == mDir && (to == from || strings.HasPrefix(to, from+"/")) {
		return false
	}
	if pd := t.get(path.Dir(to)); pd == nil || pd.kind != mDir {
		return false
	}
	if dst := t.get(to); dst != nil {
		if src.kind == mDir {
			if dst.kind != mDir || len(t.children(to)) > 0 {
				return false
			}
		} else if dst.kind == mDir {
			return false
		}
		t.removeSubtree(to)
	}
	t.moveSubtree(from, to)
	return true
}

// unixAccess is the UNIX permission rule of property C12: the set of ACCESS3
// bits the caller's class permits among `requested`.
func unixAccess(mode uint32, isDir bool, fuid, fgid, uid, gid uint32, aux []uint32, requested uint32, readOnly bool) uint32 {
	var bits uint32
	switch {
	case uid == 0:
		bits = 7
	case uid == fuid:
		bits = (mode >> 6) & 7
	case gid == fgid || containsU32(aux, fgid):
		bits = (mode >> 3) & 7
	default:
		bits = mode & 7
	}
	var g uint32
	if bits&4 != 0 {
		g |= 0x01 // READ
	}
	if bits&1 != 0 {
		g |= 0x20 // EXECUTE
		if isDir {
			g |= 0x02 // LOOKUP
		}
	}
	if bits&2 != 0 && !readOnly {
		g |= 0x04 | 0x08 // MODIFY, EXTEND
		if isDir {
			g |= 0x10 // DELETE
		}
	}
	return g & requested
}

func containsU32(l []uint32, v uint32) bool {
	for _, x := range l {
		if x == v {
			return true
		}
	}
	return false
}

// squash is the identity-mapping rule of property C10.
func squash(mode string, flavor uint32, uid, gid uint32, aux []uint32) (euid, egid uint32, eaux []uint32, allowed bool) {
	const nobody = 65534
	switch flavor {
	case 0:
		return nobody, nobody, nil, true
	case 1:
	default:
		return 0, 0, nil, false
	}
	eaux = append([]uint32(nil), aux...)
	switch strings.ToLower(mode) {
	case "all":
		for i := range eaux {
			eaux[i] = nobody
		}
		return nobody, nobody, eaux, true
	case "root":
		euid, egid = uid, gid
		if uid == 0 {
			euid, egid = nobody, nobody
		} else if gid == 0 {
			egid = nobody
		}
		for i := range eaux {
			if eaux[i] == 0 {
				eaux[i] = nobody
			}
		}
		return euid, egid, eaux, true
	case "none", "":
		return uid, gid, eaux, true
	}
	return nobody, nobody, eaux, true
}
