package h

import (
	"fmt"
	"os"
	"testing"
	"time"

	"verif/sim/nfsclient"
	"verif/sim/simfs"
	"verif/sim/simrt"
)

// C12, concurrent class: readers (GETATTR/ACCESS, some with a slow backend lstat) look at ONE object while
// root changes its permission bits (SETATTR mode, or - for a file - an UNCHECKED CREATE of the existing name
// carrying sattr3.mode). Once the change has been ACKNOWLEDGED a prober sends ACCESS: nothing changes the
// object after that acknowledgement, so the reply must be decided on the new mode, whatever older look-ups are
// still in flight in the server (an ACCESS decided on attributes read before an acknowledged chmod over-grants
// or under-grants). The readers' ACCESS replies are judged by the rule applied to the attributes they carry,
// which must be the old or the new mode.

type AccessRaceReader struct {
	Cred    Cred `json:"cred"`
	Access  bool `json:"access,omitempty"` // ACCESS (else GETATTR)
	Times   int  `json:"times"`
	GapUs   int  `json:"gap_us,omitempty"`
	DelayUs int  `json:"delay_us,omitempty"`
}

type AccessRaceScn struct {
	Dir       bool               `json:"dir,omitempty"`
	Mode0     uint32             `json:"mode0"`
	Mode1     uint32             `json:"mode1"`
	UID       uint32             `json:"uid"`
	GID       uint32             `json:"gid"`
	ViaCreate bool               `json:"via_create,omitempty"` // the change is CREATE UNCHECKED of the existing name with sattr3.mode
	ChangeUs  int                `json:"change_us,omitempty"`
	Prober    Cred               `json:"prober"`
	ProbeUs   int                `json:"probe_us,omitempty"` // pause between the acknowledgement and the probe
	Readers   []AccessRaceReader `json:"readers"`
	TTLms     int                `json:"ttl_ms"`
	Workers   int                `json:"workers"`
	Stalls    []simfs.Fault      `json:"stalls,omitempty"`
	Sched     SchedCfg           `json:"sched"`
}

func genAccessRace(r *simrt.Rand) *AccessRaceScn {
	modes := []uint32{0o777, 0o700, 0o750, 0o644, 0o600, 0o070, 0o007, 0o755, 0o000, 0o444}
	sc := &AccessRaceScn{Dir: r.Pct(30), Mode0: modes[r.Int(len(modes))], Mode1: modes[r.Int(len(modes))],
		UID: []uint32{0, 1000, 1001}[r.Int(3)], GID: []uint32{0, 100, 101}[r.Int(3)],
		ChangeUs: []int{0, 50, 400, 3000}[r.Int(4)], ProbeUs: []int{0, 0, 20, 500}[r.Int(4)],
		TTLms: []int{1, 2000, 3600000}[r.Int(3)], Workers: 2 + r.Int(4), Sched: RandSched(r)}
	for sc.Mode1 == sc.Mode0 {
		sc.Mode1 = modes[r.Int(len(modes))]
	}
	sc.ViaCreate = !sc.Dir && r.Pct(50)
	cred := func() Cred {
		switch r.Int(5) {
		case 0:
			return Cred{Flavor: 1, UID: sc.UID, GID: 555} // owner (or root when the owner is 0)
		case 1:
			return Cred{Flavor: 1, UID: 3000, GID: sc.GID} // group
		case 2:
			return Cred{Flavor: 1, UID: 3001, GID: 556, Gids: []uint32{7, sc.GID}} // group through an auxiliary gid
		default:
			return Cred{Flavor: 1, UID: 3002, GID: 557} // other
		}
	}
	sc.Prober = cred()
	for i, n := 0, 1+r.Int(3); i < n; i++ {
		sc.Readers = append(sc.Readers, AccessRaceReader{Cred: cred(), Access: r.Pct(50), Times: 1 + r.Int(3),
			GapUs: []int{0, 30, 700}[r.Int(3)], DelayUs: []int{0, 0, 50, 400, 3000}[r.Int(5)]})
	}
	if r.Pct(80) {
		for i, n := 0, 1+r.Int(2); i < n; i++ {
			sc.Stalls = append(sc.Stalls, simfs.Fault{Op: []string{"Lstat", "Lstat", "Stat", "Chmod", ""}[r.Int(5)], PathSfx: "/obj", Nth: 1 + r.Int(5),
				Kind:  []string{"stall", "stall_ret", "stall_ret"}[r.Int(3)],
				Stall: []time.Duration{200 * time.Microsecond, 5 * time.Millisecond, 80 * time.Millisecond}[r.Int(3)]})
		}
	}
	return sc
}

func runAccessRace(t *testing.T, sc *SeqScn, trace bool) *Outcome {
	d := sc.Acc
	o := &Outcome{}
	res := Bubble(t, d.Sched.config(trace), nil, func() {
		simrt.Event("scenario %x", simrt.Hash(hashBytes(mustJSON(sc))))
		simrt.Probe("run_class.concurrent_access_around_chmod")
		if len(d.Readers) < 1 {
			return
		}
		w := NewWorld(o)
		w.FS.MustMkdir("/d", 0o777)
		name := "obj"
		if d.Dir {
			w.FS.MustMkdir("/d/"+name, os.FileMode(d.Mode0))
		} else {
			w.FS.MustWriteFile("/d/"+name, PayloadBytes(6, 100), os.FileMode(d.Mode0))
		}
		w.FS.SetOwner("/d/"+name, d.UID, d.GID, os.FileMode(d.Mode0))
		ttl := d.TTLms
		if ttl <= 0 {
			ttl = 1
		}
		opts := SrvCfg{Squash: "none", MaxWorkers: d.Workers, AttrTTLms: ttl, AttrSize: 64}.options()
		if err := w.Start(opts); err != nil {
			o.Inconclusive = "start: " + err.Error()
			return
		}
		defer w.Stop()
		type rc struct {
			cl  *Client
			fh  []byte
			dir []byte
		}
		creds := []Cred{RootCred, d.Prober}
		for _, rd := range d.Readers {
			creds = append(creds, rd.Cred)
		}
		cls := make([]rc, len(creds))
		for i, c := range creds {
			cl, err := w.Dial(fmt.Sprintf("10.0.3.%d:%d", 1+i, 700+i), c, nil)
			if err != nil {
				o.Inconclusive = "dial: " + err.Error()
				return
			}
			defer cl.Close()
			root, _, err := cl.Mount("/")
			if err != nil || root == nil {
				o.Inconclusive = fmt.Sprintf("mount: %v", err)
				return
			}
			dl, err := cl.Lookup(root, "d")
			if err != nil || dl == nil || dl.Status != 0 {
				o.Inconclusive = fmt.Sprintf("lookup d: %v", err)
				return
			}
			ol, err := cl.Lookup(dl.FH, name)
			if err != nil || ol == nil || ol.Status != 0 {
				o.Inconclusive = fmt.Sprintf("lookup obj: %v", err)
				return
			}
			cls[i] = rc{cl, ol.FH, dl.FH}
		}
		// the server keeps ownership as it has set it itself: root assigns it through the server before the race
		uid, gid := d.UID, d.GID
		if r0, err := cls[0].cl.Setattr(cls[0].fh, nfsclient.Sattr3{UID: &uid, GID: &gid}); err != nil || r0 == nil || r0.Status != 0 {
			o.Inconclusive = fmt.Sprintf("setattr owner: %v", err)
			return
		}
		for _, f := range d.Stalls {
			w.FS.AddFault(f)
		}
		access := func(c rc) *nfsclient.AccessRes {
			x, _, err := c.cl.NFS(nfsclient.NFSProcAccess, nfsclient.ArgsAccess(c.fh, 0x3f))
			if err != nil || x == nil {
				return nil
			}
			return x.(*nfsclient.AccessRes)
		}
		judge := func(who string, cr Cred, res *nfsclient.AccessRes, modes ...uint32) {
			if res == nil || res.Status != 0 || res.Attr == nil {
				return
			}
			o.Tick()
			got := res.Attr.Mode & 0o7777
			okMode := false
			for _, m := range modes {
				okMode = okMode || got == m
			}
			if !okMode {
				o.Vio("C12.access-decided-on-stale-attributes", "class=concurrent-access,"+who, "%s: ACCESS by %d:%d%v answered NFS3_OK on mode %o; the object's mode is %o at that point (owner %d:%d; changed from %o by an acknowledged request of root, nothing changes it afterwards) and the reply grants %#x", who, cr.UID, cr.GID, cr.Gids, got, modes, d.UID, d.GID, d.Mode0, res.Access)
				return
			}
			// the owner is the one the reply carries: the server keeps ownership in its handle table, not from the
			// backend (DESIGN.md appendix F), and which owner it remembers is not this class's business
			want := unixAccess(got, d.Dir, res.Attr.UID, res.Attr.GID, cr.UID, cr.GID, cr.Gids, 0x3f, false)
			if res.Access != want {
				kind := "under-grant"
				if res.Access&^want != 0 {
					kind = "over-grant"
				}
				o.Vio("C12.unix-rule", kind+",class=concurrent-access", "%s: ACCESS mask=0x3f (mode %o owner %d:%d dir=%v) by %d:%d aux=%v granted %#x, UNIX rule gives %#x", who, got, res.Attr.UID, res.Attr.GID, d.Dir, cr.UID, cr.GID, cr.Gids, res.Access, want)
			}
		}
		type answer struct {
			who   string
			cr    Cred
			res   *nfsclient.AccessRes
			modes []uint32
		}
		answers := make([][]answer, len(d.Readers)+1) // one slot per goroutine, read after all have finished
		done := make(chan int, len(d.Readers)+1)
		for i, rd := range d.Readers {
			i, rd := i, rd
			c := cls[2+i]
			simrt.Go(fmt.Sprintf("reader-%d", i), func() {
				defer simrt.Send("reader.done", done, i)
				simrt.Sleep(time.Duration(rd.DelayUs) * time.Microsecond)
				for k := 0; k < rd.Times; k++ {
					if rd.Access {
						answers[i] = append(answers[i], answer{fmt.Sprintf("reader %d", i), rd.Cred, access(c), []uint32{d.Mode0, d.Mode1}})
					} else {
						c.cl.Getattr(c.fh)
					}
					simrt.Sleep(time.Duration(rd.GapUs) * time.Microsecond)
				}
			})
		}
		simrt.Go("changer-and-prober", func() {
			defer simrt.Send("changer.done", done, -1)
			simrt.Sleep(time.Duration(d.ChangeUs) * time.Microsecond)
			m1 := d.Mode1
			changed := false
			if d.ViaCreate {
				r0, err := cls[0].cl.Create(cls[0].dir, name, 0, nfsclient.Sattr3{Mode: &m1}, [8]byte{})
				changed = err == nil && r0 != nil && r0.Status == 0
			} else {
				r0, err := cls[0].cl.Setattr(cls[0].fh, nfsclient.Sattr3{Mode: &m1})
				changed = err == nil && r0 != nil && r0.Status == 0
			}
			simrt.Event("mode change acknowledged=%v", changed)
			simrt.Sleep(time.Duration(d.ProbeUs) * time.Microsecond)
			if changed {
				simrt.Probe("c12.access_after_acknowledged_chmod")
				answers[len(d.Readers)] = append(answers[len(d.Readers)], answer{"prober", d.Prober, access(cls[1]), []uint32{d.Mode1}})
			} else {
				answers[len(d.Readers)] = append(answers[len(d.Readers)], answer{"prober", d.Prober, access(cls[1]), []uint32{d.Mode0, d.Mode1}})
			}
		})
		for i := 0; i < len(d.Readers)+1; i++ {
			simrt.Recv("accessrace.wait", done)
		}
		for _, as := range answers {
			for _, a := range as {
				judge(a.who, a.cr, a.res, a.modes...)
			}
		}
		o.NonTrivial = true
	})
	o.finish(res, "C12")
	if res != nil {
		for _, p := range res.Panics {
			o.Vio("C12.panic", panicFacts(p), "%s", firstLines(p, 14))
		}
	}
	return o
}

func shrinkAccessRace(sc *SeqScn) []any {
	d := sc.Acc
	var out []any
	cp := func() (*SeqScn, *AccessRaceScn) {
		c := *sc
		nd := *d
		nd.Readers = append([]AccessRaceReader(nil), d.Readers...)
		nd.Stalls = append([]simfs.Fault(nil), d.Stalls...)
		c.Acc = &nd
		return &c, &nd
	}
	for i := range d.Readers {
		if len(d.Readers) > 1 {
			c, nd := cp()
			nd.Readers = append(nd.Readers[:i], nd.Readers[i+1:]...)
			out = append(out, c)
		}
		if d.Readers[i].Times > 1 {
			c, nd := cp()
			nd.Readers[i].Times = 1
			out = append(out, c)
		}
		if d.Readers[i].DelayUs != 0 {
			c, nd := cp()
			nd.Readers[i].DelayUs = 0
			out = append(out, c)
		}
		if d.Readers[i].GapUs != 0 {
			c, nd := cp()
			nd.Readers[i].GapUs = 0
			out = append(out, c)
		}
	}
	for i := range d.Stalls {
		c, nd := cp()
		nd.Stalls = append(nd.Stalls[:i], nd.Stalls[i+1:]...)
		out = append(out, c)
	}
	if d.ChangeUs != 0 {
		c, nd := cp()
		nd.ChangeUs = 0
		out = append(out, c)
	}
	if d.ProbeUs != 0 {
		c, nd := cp()
		nd.ProbeUs = 0
		out = append(out, c)
	}
	if d.Workers > 2 {
		c, nd := cp()
		nd.Workers = 2
		out = append(out, c)
	}
	return out
}
