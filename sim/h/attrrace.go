package h

import (
	"fmt"
	"os"
	"testing"
	"time"

	"verif/sim/nfsclient"
	"verif/sim/simfs"
	"verif/sim/simrt"
)

// C11, concurrent class: several SETATTR requests for ONE object are in the server at the same time, each on
// its own connection. Exactly one of them comes from an effective root and assigns a new owner and/or group;
// all the others come from callers that are not root (they change the mode, the times or the size, and some
// also name foreign ids in sattr3.uid/gid, which must be ignored). Whatever the interleaving, no request of a
// caller that is not root may make the backend record an owner or group: every Chown the backend sees carries
// the ids the root request asked for, and once the root request is acknowledged that is the owner on record.

type AttrRaceReq struct {
	Cred    Cred    `json:"cred"`
	Mode    *uint32 `json:"mode,omitempty"`
	UID     *uint32 `json:"uid,omitempty"`
	GID     *uint32 `json:"gid,omitempty"`
	Size    *uint64 `json:"size,omitempty"`
	Mtime   bool    `json:"mtime,omitempty"`
	DelayUs int     `json:"delay_us,omitempty"`
}

type AttrRaceScn struct {
	Dir     bool          `json:"dir,omitempty"` // the object is a directory
	Mode    uint32        `json:"mode"`
	UID     uint32        `json:"uid"`
	GID     uint32        `json:"gid"`
	Reqs    []AttrRaceReq `json:"reqs"` // Reqs[0] is the root request
	Workers int           `json:"workers"`
	Stalls  []simfs.Fault `json:"stalls,omitempty"`
	Sched   SchedCfg      `json:"sched"`
	// Recreate: the object is removed first (its handles stay with the clients: handles are per path) and
	// Reqs[0] is then a CREATE of the same name by a caller that is NOT root, racing with the other callers'
	// SETATTRs through their old handles: the only owner anybody may record is the creator's own identity
	Recreate bool `json:"recreate,omitempty"`
}

func genAttrRace(r *simrt.Rand) *AttrRaceScn {
	sc := &AttrRaceScn{Dir: r.Pct(25), Mode: []uint32{0o644, 0o600, 0o777, 0o755}[r.Int(4)], UID: uint32(1000 + r.Int(3)), GID: uint32(100 + r.Int(3)),
		Workers: 2 + r.Int(3), Sched: RandSched(r)}
	u32 := func(v uint32) *uint32 { return &v }
	root := AttrRaceReq{Cred: RootCred, DelayUs: []int{0, 0, 50, 400, 3000}[r.Int(5)]}
	switch r.Int(3) {
	case 0:
		root.UID = u32(uint32(2000 + r.Int(3)))
	case 1:
		root.GID = u32(uint32(200 + r.Int(3)))
	default:
		root.UID, root.GID = u32(uint32(2000+r.Int(3))), u32(uint32(200+r.Int(3)))
	}
	if r.Pct(30) {
		root.Mode = u32([]uint32{0o640, 0o700}[r.Int(2)])
	}
	sc.Reqs = append(sc.Reqs, root)
	for i, n := 0, 1+r.Int(3); i < n; i++ {
		q := AttrRaceReq{Cred: Cred{Flavor: 1, UID: uint32(3000 + r.Int(3)), GID: uint32(300 + r.Int(3))}, DelayUs: []int{0, 0, 50, 400, 3000}[r.Int(5)]}
		if r.Pct(15) {
			q.Cred.UID = sc.UID // the file's own owner
		}
		switch r.Int(4) {
		case 0, 1:
			q.Mode = u32([]uint32{0o600, 0o664, 0o444, 0o711}[r.Int(4)])
		case 2:
			q.Mtime = true
		default:
			if !sc.Dir {
				s := uint64(r.Int(300))
				q.Size = &s
			} else {
				q.Mode = u32(0o750)
			}
		}
		if r.Pct(30) {
			// foreign ids named by a caller that is not root: ignored
			q.UID, q.GID = u32(uint32(4000+r.Int(2))), u32(uint32(400+r.Int(2)))
		}
		sc.Reqs = append(sc.Reqs, q)
	}
	if r.Pct(30) {
		sc.Recreate, sc.Dir = true, false
		sc.Reqs[0] = AttrRaceReq{Cred: Cred{Flavor: 1, UID: uint32(1000 + r.Int(3)), GID: uint32(100 + r.Int(3))}, Mode: u32([]uint32{0o644, 0o600}[r.Int(2)]), DelayUs: []int{0, 0, 50, 400}[r.Int(4)]}
		for i := 1; i < len(sc.Reqs); i++ {
			sc.Reqs[i].Size = nil
			if sc.Reqs[i].Mode == nil && !sc.Reqs[i].Mtime {
				sc.Reqs[i].Mode = u32(0o640)
			}
		}
	}
	if r.Pct(60) {
		for i, n := 0, 1+r.Int(2); i < n; i++ {
			sc.Stalls = append(sc.Stalls, simfs.Fault{Op: []string{"Chmod", "Chown", "Stat", "Lstat", "Chtimes", ""}[r.Int(6)], Nth: 1 + r.Int(8), Kind: "stall",
				Stall: []time.Duration{200 * time.Microsecond, 5 * time.Millisecond, 80 * time.Millisecond}[r.Int(3)]})
		}
	}
	return sc
}

func runAttrRace(t *testing.T, sc *SeqScn, trace bool) *Outcome {
	d := sc.Race
	o := &Outcome{}
	res := Bubble(t, d.Sched.config(trace), nil, func() {
		simrt.Event("scenario %x", simrt.Hash(hashBytes(mustJSON(sc))))
		simrt.Probe("run_class.concurrent_setattr_on_one_object")
		if len(d.Reqs) < 2 || d.Reqs[0].Cred.Flavor != 1 || (d.Reqs[0].Cred.UID != 0) != d.Recreate {
			return // shrunk below what the class means
		}
		w := NewWorld(o)
		w.FS.MustMkdir("/d", 0o777)
		name := "obj"
		if d.Dir {
			w.FS.MustMkdir("/d/"+name, os.FileMode(d.Mode))
		} else {
			w.FS.MustWriteFile("/d/"+name, PayloadBytes(5, 120), os.FileMode(d.Mode))
		}
		w.FS.SetOwner("/d/"+name, d.UID, d.GID, os.FileMode(d.Mode))
		opts := SrvCfg{Squash: "none", MaxWorkers: d.Workers, AttrTTLms: 2000, AttrSize: 64}.options()
		if err := w.Start(opts); err != nil {
			o.Inconclusive = "start: " + err.Error()
			return
		}
		defer w.Stop()
		// every client gets its own connection and its own copy of the object's handle before the race starts
		type rc struct {
			cl  *Client
			fh  []byte
			dir []byte
		}
		cls := make([]rc, len(d.Reqs))
		for i, q := range d.Reqs {
			cl, err := w.Dial(fmt.Sprintf("10.0.1.%d:%d", 1+i, 700+i), q.Cred, nil)
			if err != nil {
				o.Inconclusive = "dial: " + err.Error()
				return
			}
			defer cl.Close()
			root, _, err := cl.Mount("/")
			if err != nil || root == nil {
				o.Inconclusive = fmt.Sprintf("mount: %v", err)
				return
			}
			dl, err := cl.Lookup(root, "d")
			if err != nil || dl == nil || dl.Status != 0 {
				o.Inconclusive = fmt.Sprintf("lookup d: %v", err)
				return
			}
			ol, err := cl.Lookup(dl.FH, name)
			if err != nil || ol == nil || ol.Status != 0 {
				o.Inconclusive = fmt.Sprintf("lookup obj: %v", err)
				return
			}
			cls[i] = rc{cl, ol.FH, dl.FH}
		}
		if d.Recreate {
			if x, _, err := cls[1].cl.NFS(nfsclient.NFSProcRemove, nfsclient.ArgsDirOp(cls[1].dir, name)); err != nil || x == nil {
				o.Inconclusive = fmt.Sprintf("remove: %v", err)
				return
			}
		}
		for _, f := range d.Stalls {
			w.FS.AddFault(f)
		}
		mark := w.FS.LastSeq()
		if d.Recreate {
			// the creator's identity is the only owner anybody may record
			cu, cg := d.Reqs[0].Cred.UID, d.Reqs[0].Cred.GID
			done := make(chan int, len(d.Reqs))
			createOK := false
			for i, q := range d.Reqs {
				i, q := i, q
				simrt.Go(fmt.Sprintf("recreate-client-%d", i), func() {
					defer simrt.Send("recreate.done", done, i)
					simrt.Sleep(time.Duration(q.DelayUs) * time.Microsecond)
					if i == 0 {
						res, err := cls[0].cl.Create(cls[0].dir, name, 0, nfsclient.Sattr3{Mode: q.Mode}, [8]byte{})
						createOK = err == nil && res != nil && res.Status == 0
						return
					}
					sa := nfsclient.Sattr3{Mode: q.Mode, UID: q.UID, GID: q.GID}
					if q.Mtime {
						sa.Mtime = nfsclient.SetTime{How: nfsclient.SetToClientTime, T: nfsclient.NFSTime{Sec: uint32(1700000000 + i), Nsec: 7}}
					}
					cls[i].cl.Setattr(cls[i].fh, sa)
				})
			}
			for range d.Reqs {
				simrt.Recv("recreate.wait", done)
			}
			o.NonTrivial = true
			for _, c := range w.FS.CallsSince(mark) {
				if c.Op != "Chown" && c.Op != "Lchown" {
					continue
				}
				o.Tick()
				if uint32(c.UID) != cu || uint32(c.GID) != cg {
					o.Vio("C11.ownership-recorded-that-no-root-request-asked-for", "class=concurrent-create-and-setattr",
						"the backend was asked to record owner %d:%d for %s; nobody in this run is root: the file is being created by %d:%d while %d other callers SETATTR it through handles they held for the name before it was removed (%s)",
						c.UID, c.GID, c.Path, cu, cg, len(d.Reqs)-1, mustJSON(d.Reqs[1:]))
					break
				}
			}
			if n := w.FS.Lookup("/d/" + name); n != nil && createOK {
				o.Tick()
				if n.UID != cu || n.GID != cg {
					o.Vio("C11.new-object-not-owned-by-its-creator", "class=concurrent-create-and-setattr", "the CREATE by %d:%d was answered NFS3_OK, yet after all requests have been answered the backend records owner %d:%d", cu, cg, n.UID, n.GID)
				}
			}
			return
		}
		// The server does not read owners from the backend (absfs has no such call): for a field the root request
		// leaves alone, its Chown carries whatever the server remembers for the object, so only the fields the
		// root request sets are judged.
		setU, setG := d.Reqs[0].UID != nil, d.Reqs[0].GID != nil
		var expU, expG uint32
		if setU {
			expU = *d.Reqs[0].UID
		}
		if setG {
			expG = *d.Reqs[0].GID
		}
		asked := func(u, g uint32) bool { return (!setU || u == expU) && (!setG || g == expG) }
		want := func() string {
			su, sg := "-", "-"
			if setU {
				su = fmt.Sprint(expU)
			}
			if setG {
				sg = fmt.Sprint(expG)
			}
			return su + ":" + sg
		}()
		type outc struct {
			i      int
			status uint32
			err    error
		}
		done := make(chan outc, len(d.Reqs))
		for i, q := range d.Reqs {
			i, q := i, q
			simrt.Go(fmt.Sprintf("setattr-client-%d", i), func() {
				simrt.Sleep(time.Duration(q.DelayUs) * time.Microsecond)
				sa := nfsclient.Sattr3{Mode: q.Mode, UID: q.UID, GID: q.GID, Size: q.Size}
				if q.Mtime {
					sa.Mtime = nfsclient.SetTime{How: nfsclient.SetToClientTime, T: nfsclient.NFSTime{Sec: uint32(1700000000 + i), Nsec: 7}}
				}
				res, err := cls[i].cl.Setattr(cls[i].fh, sa)
				oc := outc{i: i, err: err, status: 0xffffffff}
				if err == nil && res != nil {
					oc.status = res.Status
				}
				simrt.Send("setattr.done", done, oc)
			})
		}
		rootOK := false
		for range d.Reqs {
			oc := simrt.Recv("setattr.wait", done)
			if oc.i == 0 && oc.err == nil && oc.status == 0 {
				rootOK = true
			}
			simrt.Event("setattr %d: status=%d err=%v", oc.i, oc.status, oc.err)
		}
		o.NonTrivial = true
		// (1) every ownership change the backend was asked to record is the one the root request asked for
		for _, c := range w.FS.CallsSince(mark) {
			if c.Op != "Chown" && c.Op != "Lchown" {
				continue
			}
			o.Tick()
			if !asked(uint32(c.UID), uint32(c.GID)) {
				o.Vio("C11.ownership-recorded-that-no-root-request-asked-for", "class=concurrent-setattr",
					"the backend was asked to record owner %d:%d for %s; the only request from an effective root asks for %s ('-' = not set), and the other %d concurrent SETATTR requests come from callers that are not root (%s)",
					c.UID, c.GID, c.Path, want, len(d.Reqs)-1, mustJSON(d.Reqs[1:]))
				break
			}
		}
		// (2) once the root request is acknowledged, the owner on record is the one it assigned
		if n := w.FS.Lookup("/d/" + name); n != nil && rootOK {
			o.Tick()
			if !asked(n.UID, n.GID) {
				o.Vio("C11.root-assignment-undone-by-non-root", "class=concurrent-setattr", "the root SETATTR assigning %s was answered NFS3_OK, yet after all %d concurrent requests have been answered the backend records %d:%d", want, len(d.Reqs), n.UID, n.GID)
			}
		}
	})
	o.finish(res, "C11")
	if res != nil {
		for _, p := range res.Panics {
			o.Vio("C11.panic", panicFacts(p), "%s", firstLines(p, 14))
		}
	}
	return o
}

func shrinkAttrRace(sc *SeqScn) []any {
	d := sc.Race
	var out []any
	cp := func() (*SeqScn, *AttrRaceScn) {
		c := *sc
		nd := *d
		nd.Reqs = append([]AttrRaceReq(nil), d.Reqs...)
		nd.Stalls = append([]simfs.Fault(nil), d.Stalls...)
		c.Race = &nd
		return &c, &nd
	}
	for i := 1; i < len(d.Reqs); i++ {
		if len(d.Reqs) > 2 {
			c, nd := cp()
			nd.Reqs = append(nd.Reqs[:i], nd.Reqs[i+1:]...)
			out = append(out, c)
		}
	}
	for i := range d.Stalls {
		c, nd := cp()
		nd.Stalls = append(nd.Stalls[:i], nd.Stalls[i+1:]...)
		out = append(out, c)
	}
	for i := range d.Reqs {
		if d.Reqs[i].DelayUs != 0 {
			c, nd := cp()
			nd.Reqs[i].DelayUs = 0
			out = append(out, c)
		}
		if i > 0 && (d.Reqs[i].UID != nil || d.Reqs[i].GID != nil) {
			c, nd := cp()
			nd.Reqs[i].UID, nd.Reqs[i].GID = nil, nil
			out = append(out, c)
		}
	}
	if d.Reqs[0].Mode != nil {
		c, nd := cp()
		nd.Reqs[0].Mode = nil
		out = append(out, c)
	}
	if d.Workers > 2 {
		c, nd := cp()
		nd.Workers = 2
		out = append(out, c)
	}
	return out
}
