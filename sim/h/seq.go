package h

import (
	"encoding/binary"
	"fmt"
	"hash/fnv"
	"os"
	"path"
	"sort"
	"strings"
	"time"

	"github.com/absfs/absnfs"

	"verif/sim/nfsclient"
	"verif/sim/simfs"
	"verif/sim/simrt"
)

// SrvCfg holds the server knobs drawn per run (swarm style).
type SrvCfg struct {
	TransferSize int    `json:"transfer_size,omitempty"`
	AttrTTLms    int    `json:"attr_ttl_ms,omitempty"`
	AttrSize     int    `json:"attr_size,omitempty"`
	NegCache     bool   `json:"neg_cache,omitempty"`
	NegTTLms     int    `json:"neg_ttl_ms,omitempty"`
	DirCache     bool   `json:"dir_cache,omitempty"`
	DirTTLms     int    `json:"dir_ttl_ms,omitempty"`
	DirMax       int    `json:"dir_max,omitempty"`
	MaxWorkers   int    `json:"max_workers,omitempty"`
	MaxHandles   int    `json:"max_handles,omitempty"`
	ReadOnly     bool   `json:"read_only,omitempty"`
	Squash       string `json:"squash,omitempty"`
	MaxFileSize  int64  `json:"max_file_size,omitempty"`
	Secure       bool   `json:"secure,omitempty"`
	ViaTuning    bool   `json:"via_tuning,omitempty"` // as a runtime update: through UpdateTuningOptions (transfer size only)
	// OpTimeoutMs > 0: every per-procedure time-out (read, write, lookup, readdir, create, remove, rename,
	// handle) is this short; the request time-out keeps its default (30 s)
	OpTimeoutMs int `json:"op_timeout_ms,omitempty"`
}

func (c SrvCfg) options() absnfs.ExportOptions {
	o := absnfs.ExportOptions{
		TransferSize: c.TransferSize, AttrCacheTimeout: time.Duration(c.AttrTTLms) * time.Millisecond, AttrCacheSize: c.AttrSize,
		CacheNegativeLookups: c.NegCache, NegativeCacheTimeout: time.Duration(c.NegTTLms) * time.Millisecond,
		EnableDirCache: c.DirCache, DirCacheTimeout: time.Duration(c.DirTTLms) * time.Millisecond, DirCacheMaxEntries: c.DirMax,
		MaxWorkers: c.MaxWorkers, ReadOnly: c.ReadOnly, Squash: c.Squash, MaxFileSize: c.MaxFileSize, Secure: c.Secure,
	}
	if o.MaxWorkers == 0 {
		o.MaxWorkers = 2
	}
	if c.OpTimeoutMs > 0 {
		d := time.Duration(c.OpTimeoutMs) * time.Millisecond
		o.Timeouts = &absnfs.TimeoutConfig{ReadTimeout: d, WriteTimeout: d, LookupTimeout: d, ReaddirTimeout: d, CreateTimeout: d, RemoveTimeout: d, RenameTimeout: d, HandleTimeout: d}
	}
	return o
}

// TreeEnt pre-populates the backend.
type TreeEnt struct {
	Path   string `json:"path"`
	Kind   string `json:"kind"` // file dir symlink
	Mode   uint32 `json:"mode"`
	UID    uint32 `json:"uid,omitempty"`
	GID    uint32 `json:"gid,omitempty"`
	Size   int    `json:"size,omitempty"`
	Seed   uint64 `json:"seed,omitempty"`
	Target string `json:"target,omitempty"`
}

// SA is a plain-data sattr3.
type SA struct {
	Mode  *uint32 `json:"mode,omitempty"`
	UID   *uint32 `json:"uid,omitempty"`
	GID   *uint32 `json:"gid,omitempty"`
	Size  *uint64 `json:"size,omitempty"`
	Atime uint32  `json:"atime,omitempty"` // time_how
	Mtime uint32  `json:"mtime,omitempty"`
}

func (s SA) sattr() nfsclient.Sattr3 {
	return nfsclient.Sattr3{Mode: s.Mode, UID: s.UID, GID: s.GID, Size: s.Size,
		Atime: nfsclient.SetTime{How: s.Atime, T: nfsclient.NFSTime{Sec: 1000000, Nsec: 5}},
		Mtime: nfsclient.SetTime{How: s.Mtime, T: nfsclient.NFSTime{Sec: 1000001, Nsec: 6}}}
}

// Op is one client operation (plain data). Handles are symbolic: H indexes the
// list of handles returned so far (modulo its length), so dropping an operation
// while shrinking keeps the rest meaningful.
type Op struct {
	Op      string `json:"op"`
	H       int    `json:"h,omitempty"`
	H2      int    `json:"h2,omitempty"`
	Name    string `json:"name,omitempty"`
	Name2   string `json:"name2,omitempty"`
	Target  string `json:"target,omitempty"`
	Off     uint64 `json:"off,omitempty"`
	Count   uint32 `json:"count,omitempty"`
	Seed    uint64 `json:"seed,omitempty"`
	Stable  uint32 `json:"stable,omitempty"`
	How     uint32 `json:"how,omitempty"`
	Verf    uint64 `json:"verf,omitempty"`
	SA      SA     `json:"sa,omitempty"`
	Mask    uint32 `json:"mask,omitempty"`
	Cred    *Cred  `json:"cred,omitempty"`
	SleepMs int    `json:"sleep_ms,omitempty"`
	Dir2    uint32 `json:"dircount,omitempty"`
	Guard   int    `json:"guard,omitempty"` // SETATTR sattrguard3: 1 = the object's current ctime (fetched first), 2 = another ctime
}

// SeqScn is a single-client sequential history.
type SeqScn struct {
	Kind    string         `json:"kind"` // which property's workload generated it
	Cfg     SrvCfg         `json:"cfg"`
	Tree    []TreeEnt      `json:"tree"`
	Cred    Cred           `json:"cred"`
	Addr    string         `json:"addr,omitempty"`
	Ops     []Op           `json:"ops"`
	ThinkM  int            `json:"think_ms"`       // client think time between operations
	Diff    bool           `json:"diff,omitempty"` // C02: lock-step differential against a cache-less server
	Faults  []simfs.Fault  `json:"faults,omitempty"`
	Direct  *HandleScn     `json:"direct,omitempty"` // C05/C06: direct concurrent drive of the handle table instead of a request history
	Race    *AttrRaceScn   `json:"race,omitempty"`   // C11: concurrent SETATTR requests for one object instead of a request history
	CRace   *CreateRaceScn `json:"crace,omitempty"`  // C03: concurrent CREATE requests for one name instead of a request history
	Acc     *AccessRaceScn `json:"acc,omitempty"`    // C12: ACCESS after an acknowledged chmod while older look-ups of the object are in flight
	Conc    *C29Scn        `json:"conc,omitempty"`   // C02/C04/C07/C26: a concurrent phase (C29's workload, caches on) followed by a fresh client's look at every name
	Sched   SchedCfg       `json:"sched"`
	Segment bool           `json:"segment,omitempty"`
	UpdAt   int            `json:"upd_at,omitempty"` // runtime option update before this op index (0 = none)
	UpdCfg  *SrvCfg        `json:"upd_cfg,omitempty"`
}

type handleRef struct {
	fh   []byte
	path string
	id   int // identity of the model object the handle was issued for
	gen  int // occupancy generation of the path when the handle was issued
}

// seqRun is the state of one world being driven.
type seqRun struct {
	o                                                                  *Outcome
	sc                                                                 *SeqScn
	w                                                                  *World
	cl                                                                 *Client
	model                                                              *treeModel
	handles                                                            []handleRef
	ghost                                                              map[string]string    // handle bytes -> path at first issue (C06)
	ghostID                                                            map[string]uint64    // handle bytes -> fileid it was first issued with (C06)
	reissued                                                           map[string]bool      // handle values the client has seen issued for more than one path
	ident                                                              map[string][2]uint64 // path -> (ftype, fileid) at first sighting (C04)
	cred                                                               Cred
	euid, egid                                                         uint32
	eaux                                                               []uint32
	readOnly                                                           bool
	transfer                                                           int
	maxFile                                                            int64
	lastSeq                                                            int
	strictAttrs                                                        bool // compare reply attributes with the backend (sequential, fault-free runs)
	faulty                                                             bool
	inj0                                                               int  // backend fault rules fired before the current operation
	stall0                                                             int  // backend stall rules fired before the current operation
	lastOK                                                             bool // status of the current operation's reply
	lastWrite                                                          *Op  // the WRITE/SETATTR(size) of the current operation (faulted-operation oracle)
	nWriteEOF, nTrunc, nRead, nNegPos, nReaddirAfterMut, nRenameLooked int
	resynced                                                           int
	evicted                                                            int
	prevLive                                                           map[uint64]string
	leftEarly                                                          map[uint64]bool   // handle values that left the table although it was not full and nothing was unexported
	curFH                                                              []byte            // handle used by the current operation
	aliasMut                                                           bool              // a mutating request went through a handle whose path now traverses a symbolic link
	lastFor                                                            map[string]string // path -> handle value most recently issued for it (C05)
	target                                                             string
	nameInvalid                                                        bool
	badName                                                            string
	diverged                                                           bool
	loose                                                              bool              // the operation's path traverses a symlink: outcome is backend-defined
	lastMut                                                            map[string]string // path -> last successful mutating operation that touched it
	mutatedDirs                                                        map[string]bool
	negLooked                                                          map[string]bool
	looked                                                             map[string]bool
}

func fileid(p string) uint64 {
	h := fnv.New64a()
	h.Write([]byte(p))
	return h.Sum64()
}

// populate builds backend and model from the tree description.
func populate(fs *simfs.FS, m *treeModel, tree []TreeEnt) {
	ents := append([]TreeEnt(nil), tree...)
	sort.SliceStable(ents, func(i, j int) bool { return strings.Count(ents[i].Path, "/") < strings.Count(ents[j].Path, "/") })
	for _, e := range ents {
		if m.get(e.Path) != nil {
			continue
		}
		if pd := m.get(pathDir(e.Path)); pd == nil || pd.kind != mDir {
			continue
		}
		switch e.Kind {
		case "dir":
			fs.MustMkdir(e.Path, os.FileMode(e.Mode&0o777))
			m.add(e.Path, &mnode{kind: mDir, perm: e.Mode & 0o777, uid: e.UID, gid: e.GID})
		case "symlink":
			fs.MustSymlink(e.Target, e.Path)
			m.add(e.Path, &mnode{kind: mLink, perm: 0o777, target: e.Target, uid: e.UID, gid: e.GID})
		default:
			data := PayloadBytes(e.Seed, e.Size)
			fs.MustWriteFile(e.Path, data, os.FileMode(e.Mode&0o777))
			fm := &fileModel{}
			fm.write(0, data)
			m.add(e.Path, &mnode{kind: mFile, perm: e.Mode & 0o777, file: fm, uid: e.UID, gid: e.GID})
		}
		fs.SetOwner(e.Path, e.UID, e.GID, os.FileMode(e.Mode&0o777))
	}
}

func pathDir(p string) string {
	i := strings.LastIndexByte(p, '/')
	if i <= 0 {
		return "/"
	}
	return p[:i]
}

func (r *seqRun) vio(oracle, facts, format string, a ...any) { r.o.Vio(oracle, facts, format, a...) }

// faulted reports whether an injected backend fault (error or short transfer) has fired during the
// current operation. Only such an operation is judged by the relaxed clause ("it may fail, or leave a
// prefix of its own payload; it may never report success for something that did not happen"); every
// other operation of the same run - in particular every later one - is judged exactly.
func (r *seqRun) faulted() bool {
	return r.faulty && (r.w.FS.Injected() != r.inj0 || r.w.FS.Stalled() != r.stall0)
}

// sawHandle records the fileid a handle value came with. The same value arriving later with another fileid
// has been issued for another object (fileids are per path, C04) - also when the request went through a
// directory handle that itself has two bindings by then, so that the path the harness would compute for the
// new object is not the one the server means.
func (r *seqRun) sawHandle(fh []byte, a *nfsclient.Fattr3) {
	if len(fh) == 0 || a == nil || r.sc.Kind != "C05" && r.sc.Kind != "C06" {
		return
	}
	if r.ghostID == nil {
		r.ghostID = map[string]uint64{}
	}
	key := string(fh)
	if old, ok := r.ghostID[key]; !ok {
		r.ghostID[key] = a.Fileid
	} else if old != a.Fileid {
		simrt.Probe("handle_value_reissued_for_other_path")
		if r.reissued == nil {
			r.reissued = map[string]bool{}
		}
		r.reissued[key] = true
	}
}

func (r *seqRun) addHandle(fh []byte, p string) {
	if len(fh) == 0 {
		return
	}
	id := 0
	if n := r.model.get(p); n != nil {
		id = n.id
	}
	r.handles = append(r.handles, handleRef{append([]byte(nil), fh...), p, id, r.model.gen[p]})
	key := string(fh)
	if (r.sc.Kind == "C05" || r.sc.Kind == "C06") && len(fh) == 8 && !r.loose {
		// "while a handle is live, every reissue for the same path returns the same handle value"
		if r.lastFor == nil {
			r.lastFor = map[string]string{}
		}
		if prev, ok := r.lastFor[p]; ok && prev != key {
			live := absnfs.VerifHandles(absnfs.VerifFileMap(r.w.NFS))
			if lp, isLive := live[binary.BigEndian.Uint64([]byte(prev))]; isLive && path.Clean(lp) == p {
				r.vio("C05.two-live-values-for-one-path", "", "handle %x was issued for %s although the value %x issued for it earlier is still live in the table (denoting %q)", fh, p, []byte(prev), lp)
			}
		}
		r.lastFor[p] = key
	}
	if old, ok := r.ghost[key]; ok {
		if old != p {
			// the same handle value issued for a different path: the enabling condition of a C06
			// violation; the violation itself is reported when a request uses the old binding
			simrt.Probe("handle_value_reissued_for_other_path")
			if r.reissued == nil {
				r.reissued = map[string]bool{}
			}
			r.reissued[key] = true
		}
	} else {
		r.ghost[key] = p
	}
}

func (r *seqRun) h(i int) handleRef {
	if len(r.handles) == 0 {
		return handleRef{fh: []byte{0, 0, 0, 0, 0, 0, 0, 0}, path: "/"}
	}
	if i < 0 {
		i = -i
	}
	return r.handles[i%len(r.handles)]
}

func ftypeOf(kind string) uint32 {
	switch kind {
	case mDir:
		return nfsclient.NF3DIR
	case mLink:
		return nfsclient.NF3LNK
	}
	return nfsclient.NF3REG
}

// checkAttr is the C04 monitor for one attribute block attached to path p.
func (r *seqRun) checkAttr(proc string, p string, a *nfsclient.Fattr3) {
	if a == nil || p == "" {
		return
	}
	r.o.Checks++
	if id, ok := r.ident[p]; ok {
		if uint64(a.Type) != id[0] {
			r.vio("C04.type-changed", "proc="+proc, "%s reports type %d for %s, earlier replies reported %d", proc, a.Type, p, id[0])
		}
		if a.Fileid != id[1] {
			r.vio("C04.fileid-changed", "proc="+proc, "%s reports fileid %d for %s, earlier replies reported %d", proc, a.Fileid, p, id[1])
		}
	} else {
		r.ident[p] = [2]uint64{uint64(a.Type), a.Fileid}
	}
	if !r.strictAttrs || r.faulted() {
		return
	}
	n := r.w.FS.Lookup(p)
	if n == nil {
		return
	}
	wantType := uint32(nfsclient.NF3REG)
	switch n.Kind {
	case simfs.KindDir:
		wantType = nfsclient.NF3DIR
	case simfs.KindSymlink:
		wantType = nfsclient.NF3LNK
	}
	if a.Type != wantType {
		r.vio("C04.type-vs-backend", fmt.Sprintf("proc=%s,want=%d,got=%d", proc, wantType, a.Type), "%s reports type %d for %s, backend lstat says %d", proc, a.Type, p, wantType)
	}
	if (n.Kind == simfs.KindFile || n.Kind == simfs.KindSymlink) && a.Size != uint64(n.Size) {
		r.vio("C04.size-vs-backend", "proc="+proc, "%s reports size %d for %s, backend lstat says %d", proc, a.Size, p, n.Size)
	}
	if n.Kind != simfs.KindSymlink && a.Mode&0o777 != uint32(n.Perm&0o777) {
		r.vio("C04.mode-vs-backend", "proc="+proc, "%s reports mode %o for %s, backend lstat says %o", proc, a.Mode&0o7777, p, n.Perm&0o777)
	}
}

func (r *seqRun) resetIdent(p string) {
	for q := range r.ident {
		if q == p || strings.HasPrefix(q, p+"/") {
			delete(r.ident, q)
		}
	}
}

// backendMonitors inspects the backend calls made since the previous operation:
// C07 (clean in-export paths), C11 (ownership), C08 (read-only).
// reqKind strips the "#N " position prefix of an operation name (signatures must not depend on positions).
func reqKind(opName string) string {
	if i := strings.Index(opName, " "); i >= 0 && strings.HasPrefix(opName, "#") {
		return opName[i+1:]
	}
	return opName
}

func (r *seqRun) backendMonitors(opName string, allowed map[string]bool) {
	calls := r.w.FS.CallsSince(r.lastSeq)
	r.lastSeq = r.w.FS.LastSeq()
	for _, c := range calls {
		r.o.Checks++
		for _, p := range []string{c.Path, pathArg2(c)} {
			if p == "" {
				continue
			}
			if !strings.HasPrefix(p, "/") || cleanPath(p) != p {
				r.vio("C07.unclean-backend-path", "op="+c.Op, "%s: backend call %s(%q) is not absolute and normalized", opName, c.Op, p)
			} else if allowed != nil && !allowed[p] && (r.sc.Kind == "C05" || r.sc.Kind == "C06") {
				cause := "cause=other"
				if r.loose && len(r.reissued) > 0 {
					cause = "cause=handle-value-reissued"
					if len(r.curFH) == 8 && r.leftEarly[binary.BigEndian.Uint64(r.curFH)] {
						// the pinned tree re-issues a value only after an eviction round (table full) or
						// ReleaseAll; this value was dropped - and handed to another path - without either
						cause = "cause=handle-value-dropped-and-reissued-without-eviction"
					}
				}
				r.vio("C06.served-against-other-path", cause, "%s used a handle issued for %v but the backend call %s(%q) went to another path (%s)", opName, keys(allowed), c.Op, p, cause)
			} else if allowed != nil && !allowed[p] {
				r.vio("C07.backend-path-not-derived", "op="+c.Op+",req="+reqKind(opName), "%s: backend call %s(%q) is neither a handle's path nor that path joined with one validated component (allowed %v)", opName, c.Op, p, keys(allowed))
			}
		}
		if c.Op == "Symlink" && !validTarget(c.Path2) {
			r.vio("C07.bad-symlink-target", "", "%s: Symlink created with target %q", opName, c.Path2)
		}
		if (c.Op == "Chown" || c.Op == "Lchown") && r.euid != 0 {
			if uint32(c.UID) != r.euid || uint32(c.GID) != r.egid {
				r.vio("C11.foreign-owner-assigned", "op="+c.Op+",req="+reqKind(opName), "%s by effective uid %d gid %d made the backend record owner %d:%d on %s", opName, r.euid, r.egid, c.UID, c.GID, c.Path)
			}
		}
		if r.readOnly && c.Mutating {
			r.vio("C08.backend-modified-while-read-only", "op="+c.Op+",req="+reqKind(opName), "%s on a read-only export issued modifying backend call %s(%q)", opName, c.Op, c.Path)
		}
	}
}

func pathArg2(c *simfs.Call) string {
	if c.Op == "Rename" {
		return c.Path2
	}
	return ""
}

func cleanPath(p string) string {
	// independent of path.Clean on purpose: reject anything with empty, "." or ".." components or a trailing slash
	if p == "/" {
		return p
	}
	parts := strings.Split(p, "/")
	for i, c := range parts {
		if i == 0 {
			continue
		}
		if c == "" || c == "." || c == ".." {
			return "<unclean>"
		}
	}
	return p
}

func keys(m map[string]bool) []string {
	var out []string
	for k := range m {
		out = append(out, k)
	}
	sort.Strings(out)
	if len(out) > 6 {
		out = out[:6]
	}
	return out
}

// compareTree checks backend == model (names, kinds, sizes, symlink targets, small file contents).
func (r *seqRun) compareTree(after string) {
	if r.loose {
		return
	}
	if r.diverged {
		// already reported as an unexpected success/failure of this operation: realign silently
		r.diverged = false
		r.resync()
		return
	}
	before := len(r.o.Violations)
	defer func() {
		if len(r.o.Violations) != before {
			r.resync()
		}
	}()
	r.o.Checks++
	snap := r.w.FS.Snapshot()
	have := map[string]simfs.Node{}
	for _, n := range snap {
		have[n.Path] = n
	}
	for _, p := range r.model.paths() {
		mn := r.model.get(p)
		n, ok := have[p]
		if !ok {
			r.vio(r.own("tree-diverged"), "missing", "after %s: model has %s %q, backend does not", after, mn.kind, p)
			continue
		}
		kind := map[int]string{simfs.KindFile: mFile, simfs.KindDir: mDir, simfs.KindSymlink: mLink}[n.Kind]
		if kind != mn.kind {
			r.vio(r.own("tree-diverged"), "kind", "after %s: %q is %s in the backend, %s in the model", after, p, kind, mn.kind)
			continue
		}
		if mn.kind == mLink && n.Target != mn.target {
			r.vio(r.own("tree-diverged"), "target", "after %s: symlink %q -> %q in backend, %q in model", after, p, n.Target, mn.target)
		}
		if mn.kind == mFile {
			if uint64(n.Size) != mn.file.size {
				r.vio(r.own("file-diverged"), "size", "after %s: %q has size %d in the backend, %d in the model", after, p, n.Size, mn.file.size)
			} else if mn.file.size <= 1<<16 {
				data, _ := r.w.FS.ReadAll(p)
				if !eqBytes(data, mn.file.read(0, mn.file.size)) {
					r.vio(r.own("file-diverged"), "content", "after %s: content of %q differs between backend and model (first diff at %d)", after, p, firstDiff(data, mn.file.read(0, mn.file.size)))
				}
			} else {
				// sparse/huge: compare the neighbourhood of every logged write
				for _, e := range mn.file.log {
					if e.trunc {
						continue
					}
					got, _, _ := r.w.FS.ReadRange(p, int64(e.off), len(e.data))
					if !eqBytes(got, mn.file.read(e.off, uint64(len(e.data)))) {
						r.vio(r.own("file-diverged"), "content", "after %s: content of %q at %d differs between backend and model", after, p, e.off)
						break
					}
				}
			}
		}
	}
	for p, n := range have {
		if r.model.get(p) == nil {
			r.vio(r.own("tree-diverged"), "extra", "after %s: backend has %q (kind %d), model does not", after, p, n.Kind)
		}
	}
}

// afterFaulted judges an operation during which an injected backend fault fired. A reply of NFS3_OK is
// held to the exact model (compareTree). A failed WRITE may have left a prefix of its own payload at its
// offset - nothing else; a failed SETATTR(size) may or may not have resized the file. The model is then
// re-read from the backend, so every later operation is judged exactly against what is really stored.
func (r *seqRun) afterFaulted(after string, hr handleRef) {
	defer func() { r.lastWrite = nil }()
	if r.loose {
		return
	}
	if r.lastOK {
		r.compareTree(after)
		return
	}
	if r.lastWrite == nil && r.sc.Kind == "C02" {
		// C02: "a failed request leaves the tree unchanged" - the model was not touched, so the backend
		// tree must still equal it
		r.compareTree(after + " (which failed under an injected backend error)")
		return
	}
	if r.lastWrite == nil {
		// a failed multi-step request (CREATE ...) under a fault may have completed some of its steps;
		// what it must never do is judged by the operation's own oracles. Realign and go on exactly.
		r.diverged = false
		r.resync()
		return
	}
	op := r.lastWrite
	mn := r.model.get(hr.path)
	big := mn == nil || mn.kind != mFile || mn.file.size > 1<<17
	if !big && op.Op == "WRITE" && (op.Off > 1<<17 || op.Off+uint64(op.Count) > 1<<17) {
		big = true
	}
	if !big && op.Op == "SETATTR" && op.SA.Size != nil && *op.SA.Size > 1<<17 {
		big = true
	}
	if big {
		// sparse or huge: the byte-exact comparison is not worth its cost here; later operations are
		// still judged exactly against what the backend really holds
		r.resync()
		return
	}
	r.o.Checks++
	have, _ := r.w.FS.ReadAll(hr.path)
	old := mn.file.read(0, mn.file.size)
	okState := eqBytes(have, old)
	if !okState && op.Op == "WRITE" {
		// the only candidates are "old content with payload[:k] stored at the offset"; the smallest k that
		// explains the size and the last differing byte decides (a larger k only adds constraints)
		data := PayloadBytes(op.Seed, int(op.Count))
		k := 0
		if len(have) > len(old) {
			k = len(have) - int(op.Off)
		} else if len(have) == len(old) {
			for i := len(have) - 1; i >= 0; i-- {
				if have[i] != old[i] {
					k = i + 1 - int(op.Off)
					break
				}
			}
		}
		if k > 0 && k <= len(data) && len(have) >= len(old) {
			c := &fileModel{}
			c.write(0, old)
			c.write(op.Off, data[:k])
			okState = eqBytes(have, c.read(0, c.size))
		}
	}
	if !okState && op.Op == "SETATTR" && op.SA.Size != nil {
		c := &fileModel{}
		c.write(0, old)
		c.truncate(*op.SA.Size)
		okState = eqBytes(have, c.read(0, c.size))
	}
	if !okState {
		r.vio(r.own("failed-request-left-foreign-bytes"), "op="+op.Op, "after %s (failed under an injected backend fault): %q holds neither its old content nor the old content with a prefix of the request's own payload applied (size %d, was %d)", after, hr.path, len(have), len(old))
	}
	r.resync()
}

// resync rebuilds the model from the backend after a recorded divergence, so
// that one defect does not cascade into unrelated reports later in the run.
func (r *seqRun) resync() {
	old := r.model
	m := newTreeModel()
	for _, n := range r.w.FS.Snapshot() {
		mn := &mnode{perm: uint32(n.Perm & 0o7777), uid: n.UID, gid: n.GID}
		switch n.Kind {
		case simfs.KindDir:
			mn.kind = mDir
		case simfs.KindSymlink:
			mn.kind, mn.target = mLink, n.Target
		default:
			mn.kind = mFile
			mn.file = &fileModel{}
			if size, ext, ok := r.w.FS.Extents(n.Path); ok {
				for _, e := range ext {
					d := e.Data
					if e.Off >= size {
						continue
					}
					if int64(len(d)) > size-e.Off {
						d = d[:size-e.Off] // the last page is clipped at the file size (also keeps off+len below 2^63)
					}
					mn.file.write(uint64(e.Off), d)
				}
				if uint64(size) != mn.file.size {
					mn.file.truncate(uint64(size))
				}
			}
			if o := old.get(n.Path); o != nil && o.kind == mFile {
				mn.verf = o.verf
			}
		}
		m.nextID = old.nextID
		m.gen = old.gen
		if o := old.get(n.Path); o != nil && o.kind == mn.kind {
			mn.id = o.id
		} else {
			m.gen[n.Path]++
		}
		m.nodes[n.Path] = mn
	}
	for _, mn := range m.nodes {
		if mn.id == 0 {
			m.nextID++
			mn.id = m.nextID
		}
	}
	r.model = m
	r.resynced++
}

func firstDiff(a, b []byte) int {
	for i := 0; i < len(a) && i < len(b); i++ {
		if a[i] != b[i] {
			return i
		}
	}
	if len(a) < len(b) {
		return len(a)
	}
	return len(b)
}

// own maps a generic oracle name to the property that owns this workload.
func (r *seqRun) own(name string) string {
	switch r.sc.Kind {
	case "C01", "C25", "C23", "C03", "C05", "C06", "C07", "C11", "C12", "C26", "C08":
		return r.sc.Kind + "." + name
	}
	return "C02." + name
}

func verfBytes(v uint64) (b [8]byte) {
	binary.BigEndian.PutUint64(b[:], v)
	return
}

// expectation of success/failure; either=true accepts both.
type expect struct {
	ok     bool
	either bool
}

func (r *seqRun) judge(op string, status uint32, e expect) bool {
	r.o.Checks++
	got := status == 0
	r.lastOK = got
	if e.either || r.loose || got == e.ok {
		return got
	}
	if r.faulted() {
		if got && !e.ok {
			// an injected error never turns a request the model refuses into a success
			r.vio(r.own("unexpected-success"), "op="+op+",fault-injected", "%s on %q succeeded where the model fails (a backend fault was injected during the request)", op, r.target)
			r.diverged = true
		}
		return got
	}
	switch r.sc.Kind {
	case "C05", "C06":
		// handles are evicted at will in these workloads: NFS3ERR_STALE is a legitimate answer;
		// only the handle oracles (probeHandle, served-against-other-path, table checks) judge
		r.diverged = true
		return got
	case "C07":
		// C07 is about what reaches the backend, not about which valid names are accepted
		if got && r.nameInvalid {
			r.vio("C07.invalid-name-accepted", "op="+op, "%s with name %q (not a valid component) succeeded", op, r.badName)
		}
		r.diverged = true
		return got
	}
	facts := "op=" + op + ",last=" + r.nearestMut(r.target)
	if r.negLooked[r.target] {
		facts += ",neg-looked"
	}
	if e.ok {
		r.vio(r.own("unexpected-failure"), facts+fmt.Sprintf(",status=%d", status), "%s on %q failed with %s where the model succeeds (last mutation on that path: %s)", op, r.target, nfsclient.NFSStatName(status), r.nearestMut(r.target))
	} else {
		r.vio(r.own("unexpected-success"), facts, "%s on %q succeeded where the model fails (last mutation on that path: %s)", op, r.target, r.nearestMut(r.target))
	}
	r.diverged = true
	return got
}

// nearestMut returns the last successful mutating operation recorded for p or its nearest ancestor.
func (r *seqRun) nearestMut(p string) string {
	for {
		if m, ok := r.lastMut[p]; ok {
			return m
		}
		if p == "/" || p == "" {
			return "none"
		}
		p = pathDir(p)
	}
}

func (r *seqRun) mut(p, what string) { r.lastMut[p] = what }

// viaSymlink reports whether a proper ancestor of p is a symlink in the model.
func (r *seqRun) viaSymlink(p string) bool {
	for p != "/" && p != "" {
		p = pathDir(p)
		if n := r.model.get(p); n != nil && n.kind == mLink {
			return true
		}
	}
	return false
}

func effPerm(sa SA, def uint32) uint32 {
	if sa.Mode != nil {
		return *sa.Mode & 0o7777
	}
	return def
}

// step executes one operation against the world and checks every oracle.
func (r *seqRun) step(i int, op Op) {
	cl := r.cl
	if op.Cred != nil {
		saved := cl.Cred
		cl.Cred = *op.Cred
		e1, e2, e3, _ := squash(r.sc.Cfg.Squash, op.Cred.Flavor, op.Cred.UID, op.Cred.GID, op.Cred.Gids)
		su, sg, sa := r.euid, r.egid, r.eaux
		r.euid, r.egid, r.eaux = e1, e2, e3
		defer func() { cl.Cred = saved; r.euid, r.egid, r.eaux = su, sg, sa }()
	}
	m := r.model
	hr := r.h(op.H)
	r.curFH = hr.fh
	base := m.get(hr.path)
	allowed := map[string]bool{hr.path: true}
	if validName(op.Name) {
		allowed[joinPath(hr.path, op.Name)] = true
	}
	name := fmt.Sprintf("#%d %s", i, op.Op)
	r.target = hr.path
	switch op.Op {
	case "LOOKUP", "CREATE", "MKDIR", "SYMLINK", "MKNOD", "REMOVE", "RMDIR", "RENAME":
		r.target = joinPath(hr.path, op.Name)
	}
	r.nameInvalid, r.badName = false, ""
	switch op.Op {
	case "LOOKUP", "CREATE", "MKDIR", "SYMLINK", "MKNOD", "REMOVE", "RMDIR", "RENAME", "LINK":
		if !validName(op.Name) {
			r.nameInvalid, r.badName = true, op.Name
		}
		if op.Op == "RENAME" && !validName(op.Name2) {
			r.nameInvalid, r.badName = true, op.Name2
		}
	}
	r.loose = r.viaSymlink(r.target)
	if op.Op == "RENAME" {
		h2 := r.h(op.H2)
		r.loose = r.loose || r.viaSymlink(joinPath(h2.path, op.Name2))
	}
	if base != nil && hr.id != 0 && (base.id != hr.id || r.model.gen[hr.path] != hr.gen) {
		// the object the handle was issued for has been replaced at that path: a server may
		// treat the handle as stale or serve the new object; both are acceptable
		r.loose = true
	}
	if op.Op == "RENAME" {
		if h2 := r.h(op.H2); h2.id != 0 {
			if b2 := r.model.get(h2.path); b2 != nil && (b2.id != h2.id || r.model.gen[h2.path] != h2.gen) {
				r.loose = true
			}
		}
	}
	if r.reissued[string(hr.fh)] || (op.Op == "RENAME" || op.Op == "LINK") && r.reissued[string(r.h(op.H2).fh)] {
		// the client holds two bindings for this handle value (the server reused the id): whatever
		// the request does is judged only by the C06 oracle in backendMonitors
		r.loose = true
	}
	if n := r.model.get(r.target); n != nil && n.kind == mLink {
		switch op.Op {
		case "CREATE", "SETATTR", "WRITE", "COMMIT":
			r.loose = true // the backend follows the final symbolic link: the effect lands on its target
		}
	}
	if r.loose {
		switch op.Op {
		case "CREATE", "MKDIR", "SYMLINK", "MKNOD", "REMOVE", "RMDIR", "RENAME", "LINK":
			via := r.viaSymlink(r.target)
			if op.Op == "RENAME" {
				via = via || r.viaSymlink(joinPath(r.h(op.H2).path, op.Name2))
			}
			if via {
				// the server keys its caches by the path the handle was issued for; the backend resolved that
				// path through a symbolic link, so the change landed in a directory known under another path
				r.aliasMut = true
			}
		}
	}
	strictBefore := r.strictAttrs
	if r.loose {
		// effects may land on other paths than the model predicts: realign afterwards, and stop
		// comparing reply attributes with the backend (entries cached for those paths may be stale)
		r.strictAttrs = false
		defer r.resync()
	}
	dead := func(err error) bool {
		if err != nil {
			if _, ok := err.(*ErrNoReply); ok {
				r.vio(r.own("no-reply"), "op="+op.Op, "%s: the server did not answer (%v)", name, err)
			}
			return true
		}
		return false
	}
	switch op.Op {
	case "SLEEP":
		simrt.Sleep(time.Duration(op.SleepMs) * time.Millisecond)
		return
	case "MNT":
		fh, mr, _ := cl.Mount(op.Name)
		mp := mountClean(op.Name)
		if mr != nil && mr.Status == 0 {
			r.addHandle(fh, mp)
			r.probeHandle(fh, mp)
		}
		r.backendMonitors(name, map[string]bool{mp: true})
		return
	case "UNEXPORT":
		r.w.NFS.Unexport()
		r.lastSeq = r.w.FS.LastSeq()
		// a client re-mounts after a re-export
		if fh, _, err := cl.Mount("/"); err == nil {
			r.addHandle(fh, "/")
		}
		r.backendMonitors(name, map[string]bool{"/": true})
		return
	case "C23IO":
		r.stepC23(name, op, hr, base)
		r.backendMonitors(name, nil)
		return
	case "GETATTR":
		res, err := cl.Getattr(hr.fh)
		if dead(err) {
			return
		}
		if r.judge(op.Op, res.Status, expect{ok: base != nil}) {
			r.checkAttr(op.Op, hr.path, res.Attr)
		}
	case "LOOKUP":
		res, err := cl.Lookup(hr.fh, op.Name)
		if dead(err) {
			return
		}
		child := joinPath(hr.path, op.Name)
		ok := base != nil && base.kind == mDir && validName(op.Name) && m.get(child) != nil
		if base != nil && base.kind == mDir && validName(op.Name) {
			if m.get(child) == nil {
				r.negLooked[child] = true
			} else {
				if r.negLooked[child] {
					r.nNegPos++
					delete(r.negLooked, child)
				}
				r.looked[child] = true
			}
		}
		if r.judge(op.Op, res.Status, expect{ok: ok}) {
			r.sawHandle(res.FH, res.Attr)
			r.addHandle(res.FH, child)
			r.checkAttr(op.Op, child, res.Attr)
			r.checkAttr(op.Op+".dir", hr.path, res.DirAttr)
			r.probeHandle(res.FH, child)
		} else if res.Status != 0 {
			r.checkAttr(op.Op+".dir", hr.path, res.DirAttr)
		}
	case "READLINK":
		r0, _, err := cl.NFS(nfsclient.NFSProcReadlink, nfsclient.ArgsFH(hr.fh))
		if dead(err) || r0 == nil {
			return
		}
		res := r0.(*nfsclient.ReadlinkRes)
		re := expect{ok: base != nil && base.kind == mLink}
		if base != nil && base.kind == mLink && !strings.HasPrefix(base.target, "/") && hasDotDot(base.target) {
			re = expect{either: true} // a relative target with '..' must not be handed out (C07): refusal is fine
		}
		if r.judge(op.Op, res.Status, re) {
			r.o.Checks++
			if res.Target != base.target {
				r.vio(r.own("readlink-target"), "", "%s: READLINK of %s returned %q, link points to %q", name, hr.path, res.Target, base.target)
			}
			if !strings.HasPrefix(res.Target, "/") && hasDotDot(res.Target) {
				r.vio("C07.readlink-returns-dotdot", "", "%s: READLINK returned relative target %q containing '..'", name, res.Target)
			}
			r.checkAttr(op.Op, hr.path, res.Attr)
		}
	case "ACCESS":
		r0, _, err := cl.NFS(nfsclient.NFSProcAccess, nfsclient.ArgsAccess(hr.fh, op.Mask))
		if dead(err) || r0 == nil {
			return
		}
		res := r0.(*nfsclient.AccessRes)
		if r.judge(op.Op, res.Status, expect{ok: base != nil}) {
			r.checkAttr(op.Op, hr.path, res.Attr)
			r.checkAccess(name, hr.path, op.Mask, res)
		}
	case "READ":
		res, err := cl.Read(hr.fh, op.Off, op.Count)
		if dead(err) {
			return
		}
		r.nRead++
		isFile := base != nil && base.kind == mFile
		e := expect{ok: isFile}
		if op.Off > 1<<63-1 || op.Off+uint64(op.Count) < op.Off {
			e = expect{either: true}
		}
		if !isFile && base != nil {
			e = expect{either: true} // READ of a directory or through a symlink handle: not what C01 is about
		}
		if r.judge(op.Op, res.Status, e) && isFile {
			r.checkRead(name, hr.path, op, res, base.file)
			r.checkAttr(op.Op, hr.path, res.Attr)
		}
	case "WRITE":
		data := PayloadBytes(op.Seed, int(op.Count))
		r.lastWrite = &op
		res, err := cl.Write(hr.fh, op.Off, op.Stable, data)
		if dead(err) {
			return
		}
		isFile := base != nil && base.kind == mFile
		e := expect{either: true}
		if !isFile && (base == nil || base.kind == mDir) {
			e = expect{ok: false}
		}
		if r.readOnly {
			e = expect{ok: false}
		}
		if isFile && !r.readOnly && r.maxFile > 0 {
			end := op.Off + uint64(op.Count)
			if end >= op.Off && op.Off <= 1<<63-1 && end > uint64(r.maxFile) && end > base.file.size && op.Count > 0 {
				r.o.Checks++
				if res.Status != nfsclient.NFS3ERR_FBIG && !(int(op.Count) > r.transfer && res.Status == nfsclient.NFS3ERR_INVAL) && !(r.faulted() && res.Status != 0) {
					r.vio("C25.write-beyond-limit-not-refused", fmt.Sprintf("status=%d", res.Status), "%s: WRITE to %d..%d with MaxFileSize=%d got %s, want NFS3ERR_FBIG", name, op.Off, end, r.maxFile, nfsclient.NFSStatName(res.Status))
					e = expect{either: true}
				} else {
					e = expect{ok: false}
				}
			} else if r.sc.Kind == "C25" && int(op.Count) <= r.transfer && op.Off <= 1<<62 {
				e = expect{ok: true} // within the limit: behaves as without it
			}
		}
		if r.judge(op.Op, res.Status, e) && isFile {
			r.o.Checks++
			if res.Count > op.Count {
				r.vio("C01.write-count-exceeds-request", "", "%s: WRITE reply count %d > requested %d", name, res.Count, op.Count)
			} else {
				if op.Off+uint64(res.Count) > base.file.size {
					r.nWriteEOF++
				}
				base.file.write(op.Off, data[:res.Count])
				r.mut(hr.path, "WRITE")
			}
			if res.Committed > 2 {
				r.vio("C14.bad-stable-how", "", "%s: committed=%d", name, res.Committed)
			}
		}
	case "SETATTR":
		var guard *nfsclient.NFSTime
		switch op.Guard {
		case 1:
			if g, gerr := cl.Getattr(hr.fh); gerr == nil && g.Status == 0 && g.Attr != nil {
				ct := g.Attr.Ctime
				guard = &ct
			}
		case 2:
			guard = &nfsclient.NFSTime{Sec: 1, Nsec: 1}
		}
		r.lastWrite = &op
		r0, _, err := cl.NFS(nfsclient.NFSProcSetattr, nfsclient.ArgsSetattr(hr.fh, op.SA.sattr(), guard))
		if dead(err) || r0 == nil {
			return
		}
		res := r0.(*nfsclient.SetattrRes)
		e := expect{ok: base != nil}
		if op.Guard == 2 {
			// a guard that does not match must refuse the request and change nothing
			e = expect{ok: false}
			r.o.Checks++
			if base != nil && base.kind == mFile && !r.readOnly && res.Status != nfsclient.NFS3ERR_NOT_SYNC && !(r.faulted() && res.Status != 0) {
				r.vio("C01.guard-mismatch-not-refused", fmt.Sprintf("status=%d", res.Status), "%s: SETATTR with a sattrguard3 ctime that does not match got %s, want NFS3ERR_NOT_SYNC", name, nfsclient.NFSStatName(res.Status))
				e = expect{either: true}
			}
		}
		if base != nil && op.SA.Size != nil && base.kind != mFile {
			e = expect{ok: false}
		}
		if base != nil && base.kind == mLink {
			e = expect{either: true}
		}
		if r.readOnly {
			e = expect{ok: false}
		}
		tooBig := false
		if base != nil && base.kind == mFile && op.SA.Size != nil && !r.readOnly && op.Guard != 2 {
			if *op.SA.Size > 1<<63-1 {
				e = expect{ok: false}
			} else if r.maxFile > 0 && *op.SA.Size > uint64(r.maxFile) && *op.SA.Size > base.file.size {
				tooBig = true
				e = expect{ok: false}
				r.o.Checks++
				if res.Status != nfsclient.NFS3ERR_FBIG && !(r.faulted() && res.Status != 0) {
					r.vio("C25.setattr-beyond-limit-not-refused", fmt.Sprintf("status=%d", res.Status), "%s: SETATTR(size=%d) with MaxFileSize=%d got %s, want NFS3ERR_FBIG", name, *op.SA.Size, r.maxFile, nfsclient.NFSStatName(res.Status))
					e = expect{either: true}
				}
			}
		}
		_ = tooBig
		if r.judge(op.Op, res.Status, e) && base != nil {
			r.mut(hr.path, "SETATTR")
			if op.SA.Size != nil && base.kind == mFile {
				base.file.truncate(*op.SA.Size)
				r.nTrunc++
			}
			if op.SA.Mode != nil {
				base.perm = *op.SA.Mode & 0o7777
			}
			if r.euid == 0 {
				if op.SA.UID != nil {
					base.uid = *op.SA.UID
				}
				if op.SA.GID != nil {
					base.gid = *op.SA.GID
				}
			}
		}
		if res.Status == 0 {
			// the post-op attributes of SETATTR are taken after the request's own invalidation, so they
			// describe the object the handle names (for a symbolic link: the link itself, whatever the
			// effect on its target) even when the operation is otherwise judged loosely
			saved := r.strictAttrs
			r.strictAttrs = strictBefore
			r.checkAttr(op.Op, hr.path, res.Wcc.After)
			r.strictAttrs = saved
		}
	case "CREATE":
		res, err := cl.Create(hr.fh, op.Name, op.How, op.SA.sattr(), verfBytes(op.Verf))
		if dead(err) {
			return
		}
		r.stepCreate(name, op, hr, base, res)
	case "MKDIR", "SYMLINK", "MKNOD":
		var args []byte
		var proc uint32
		switch op.Op {
		case "MKDIR":
			proc, args = nfsclient.NFSProcMkdir, nfsclient.ArgsMkdir(hr.fh, op.Name, op.SA.sattr())
		case "SYMLINK":
			proc, args = nfsclient.NFSProcSymlink, nfsclient.ArgsSymlink(hr.fh, op.Name, op.SA.sattr(), op.Target)
		default:
			proc, args = nfsclient.NFSProcMknod, nfsclient.ArgsMknod(hr.fh, op.Name, nfsclient.NF3FIFO, op.SA.sattr(), 0, 0)
		}
		r0, _, err := cl.NFS(proc, args)
		if dead(err) || r0 == nil {
			return
		}
		res := r0.(*nfsclient.CreateRes)
		child := joinPath(hr.path, op.Name)
		ok := base != nil && base.kind == mDir && validName(op.Name) && m.get(child) == nil && !r.readOnly
		e := expect{ok: ok}
		if op.Op == "SYMLINK" {
			if !validTarget(op.Target) {
				e = expect{ok: false}
				r.o.Checks++
				if res.Status == 0 {
					r.vio("C07.symlink-target-accepted", "", "%s: SYMLINK with target %q was accepted", name, op.Target)
				}
			}
		}
		if op.Op == "MKNOD" {
			e = expect{ok: false}
		}
		if r.judge(op.Op, res.Status, e) {
			r.mutatedDirs[hr.path] = true
			r.resetIdent(child)
			r.mut(child, op.Op)
			switch op.Op {
			case "MKDIR":
				m.add(child, &mnode{kind: mDir, perm: effPerm(op.SA, 0o755), uid: r.ownerUID(op.SA), gid: r.ownerGID(op.SA)})
			case "SYMLINK":
				m.add(child, &mnode{kind: mLink, perm: 0o777, target: op.Target, uid: r.ownerUID(op.SA), gid: r.ownerGID(op.SA)})
			}
			if res.FH != nil {
				r.sawHandle(res.FH, res.Attr)
				r.addHandle(res.FH, child)
				r.probeHandle(res.FH, child)
			}
			r.checkAttr(op.Op, child, res.Attr)
			r.checkNewOwner(name, op, child)
		}
	case "REMOVE", "RMDIR":
		proc := uint32(nfsclient.NFSProcRemove)
		if op.Op == "RMDIR" {
			proc = nfsclient.NFSProcRmdir
		}
		r0, _, err := cl.NFS(proc, nfsclient.ArgsDirOp(hr.fh, op.Name))
		if dead(err) || r0 == nil {
			return
		}
		res := r0.(*nfsclient.RemoveRes)
		child := joinPath(hr.path, op.Name)
		cn := m.get(child)
		valid := base != nil && base.kind == mDir && validName(op.Name) && cn != nil && !r.readOnly
		var e expect
		if op.Op == "REMOVE" {
			switch {
			case !valid:
				e = expect{ok: false}
			case cn.kind == mDir && len(m.children(child)) > 0:
				e = expect{ok: false}
			case cn.kind == mDir:
				e = expect{either: true} // absfs Remove == os.Remove: an empty directory may go
			default:
				e = expect{ok: true}
			}
		} else {
			e = expect{ok: valid && cn.kind == mDir && len(m.children(child)) == 0}
		}
		if r.judge(op.Op, res.Status, e) {
			if r.looked[child] {
				r.nRenameLooked++
			}
			m.removeSubtree(child)
			r.resetIdent(child)
			r.mut(child, op.Op)
			r.mutatedDirs[hr.path] = true
		}
	case "RENAME":
		h2 := r.h(op.H2)
		allowed[h2.path] = true
		if validName(op.Name2) {
			allowed[joinPath(h2.path, op.Name2)] = true
		}
		r0, _, err := cl.NFS(nfsclient.NFSProcRename, nfsclient.ArgsRename(hr.fh, op.Name, h2.fh, op.Name2))
		if dead(err) || r0 == nil {
			return
		}
		res := r0.(*nfsclient.RenameRes)
		b2 := m.get(h2.path)
		from, to := joinPath(hr.path, op.Name), joinPath(h2.path, op.Name2)
		ok := base != nil && base.kind == mDir && b2 != nil && b2.kind == mDir && validName(op.Name) && validName(op.Name2) && !r.readOnly
		if ok {
			trial := &treeModel{nodes: map[string]*mnode{}, gen: map[string]int{}}
			for k, v := range m.nodes {
				trial.nodes[k] = v
			}
			ok = trial.rename(from, to)
		}
		if r.judge(op.Op, res.Status, expect{ok: ok}) {
			if r.looked[from] {
				r.nRenameLooked++
			}
			m.rename(from, to)
			r.mut(from, "RENAME-from")
			r.mut(to, "RENAME-to")
			r.resetIdent(from)
			r.resetIdent(to)
			r.mutatedDirs[hr.path] = true
			r.mutatedDirs[h2.path] = true
		}
	case "LINK":
		h2 := r.h(op.H2)
		allowed[h2.path] = true
		r0, _, err := cl.NFS(nfsclient.NFSProcLink, nfsclient.ArgsLink(hr.fh, h2.fh, op.Name))
		if dead(err) || r0 == nil {
			return
		}
		res := r0.(*nfsclient.LinkRes)
		r.judge(op.Op, res.Status, expect{ok: false})
	case "READDIR", "READDIRPLUS":
		r.stepReaddir(name, op, hr, base)
		for _, c := range m.children(hr.path) {
			allowed[joinPath(hr.path, c)] = true
		}
	case "FSSTAT", "FSINFO", "PATHCONF":
		proc := map[string]uint32{"FSSTAT": nfsclient.NFSProcFsstat, "FSINFO": nfsclient.NFSProcFsinfo, "PATHCONF": nfsclient.NFSProcPathconf}[op.Op]
		r0, _, err := cl.NFS(proc, nfsclient.ArgsFH(hr.fh))
		if dead(err) || r0 == nil {
			return
		}
		var st uint32
		switch v := r0.(type) {
		case *nfsclient.FsstatRes:
			st = v.Status
			r.checkAttr(op.Op, hr.path, v.Attr)
		case *nfsclient.FsinfoRes:
			st = v.Status
			r.checkAttr(op.Op, hr.path, v.Attr)
		case *nfsclient.PathconfRes:
			st = v.Status
			r.checkAttr(op.Op, hr.path, v.Attr)
		}
		r.judge(op.Op, st, expect{ok: base != nil})
	case "COMMIT":
		r0, _, err := cl.NFS(nfsclient.NFSProcCommit, nfsclient.ArgsCommit(hr.fh, op.Off, op.Count))
		if dead(err) || r0 == nil {
			return
		}
		res := r0.(*nfsclient.CommitRes)
		e := expect{ok: base != nil && base.kind == mFile}
		if r.readOnly {
			e = expect{ok: false}
		} else if base != nil && base.kind != mFile {
			e = expect{either: true}
		}
		r.judge(op.Op, res.Status, e)
	default:
		panic("unknown op " + op.Op)
	}
	if r.strictAttrs || r.sc.Kind == "C05" || r.sc.Kind == "C06" || r.sc.Kind == "C07" {
		r.backendMonitors(name, allowed)
	} else {
		r.backendMonitors(name, nil)
	}
}

func hasDotDot(t string) bool {
	for _, c := range strings.Split(t, "/") {
		if c == ".." {
			return true
		}
	}
	return false
}

func (r *seqRun) ownerUID(sa SA) uint32 {
	if r.euid == 0 && sa.UID != nil {
		return *sa.UID
	}
	return r.euid
}

func (r *seqRun) ownerGID(sa SA) uint32 {
	if r.euid == 0 && sa.GID != nil {
		return *sa.GID
	}
	return r.egid
}

// checkNewOwner: C11 clause "new objects get the caller's effective identity".
func (r *seqRun) checkNewOwner(name string, op Op, child string) {
	n := r.w.FS.Lookup(child)
	if n == nil || r.faulted() {
		return
	}
	r.o.Checks++
	wu, wg := r.ownerUID(op.SA), r.ownerGID(op.SA)
	if n.UID != wu || n.GID != wg {
		r.vio("C11.new-object-owner", "op="+op.Op, "%s by effective %d:%d created %s owned by %d:%d in the backend (want %d:%d)", name, r.euid, r.egid, child, n.UID, n.GID, wu, wg)
	}
}

// probeHandle: C05 clause "a returned handle resolves to the object it names in an immediately following request".
func (r *seqRun) probeHandle(fh []byte, p string) {
	if fh == nil || r.sc.Kind != "C05" && r.sc.Kind != "C06" || r.loose || r.reissued[string(fh)] {
		return
	}
	before := r.w.FS.LastSeq()
	res, err := r.cl.Getattr(fh)
	if err != nil {
		return
	}
	r.o.Checks++
	if res.Status != 0 && res.Status != nfsclient.NFS3ERR_STALE && res.Status != nfsclient.NFS3ERR_BADHANDLE && r.faulted() {
		return // the probe's own lstat was failed by the fault plan: the handle resolved, the backend did not answer
	}
	if res.Status != 0 {
		r.vio("C05.dead-on-issue", "", "handle %x just issued for %s fails GETATTR with %s", fh, p, nfsclient.NFSStatName(res.Status))
		return
	}
	for _, c := range r.w.FS.CallsSince(before) {
		if c.Path != "" && c.Path != p {
			r.vio("C05.issued-handle-resolves-elsewhere", "", "handle %x just issued for %s was served against %s", fh, p, c.Path)
		}
	}
}

func (r *seqRun) checkRead(name, p string, op Op, res *nfsclient.ReadRes, fm *fileModel) {
	r.o.Checks++
	if int(res.Count) != len(res.Data) {
		r.vio("C14.read-count-vs-data", "", "%s: count=%d but %d data bytes", name, res.Count, len(res.Data))
		return
	}
	avail := uint64(0)
	if op.Off < fm.size {
		avail = fm.size - op.Off
	}
	want := uint64(op.Count)
	if uint64(r.transfer) < want {
		want = uint64(r.transfer)
	}
	if avail < want {
		want = avail
	}
	if r.faulted() && uint64(res.Count) < want {
		// a short or failed backend read: fewer bytes than available may come back, never wrong ones
	} else if uint64(res.Count) != want {
		r.vio("C01.read-count", "", "%s: READ off=%d count=%d on size %d (transfer size %d) returned %d bytes, want %d", name, op.Off, op.Count, fm.size, r.transfer, res.Count, want)
		if r.sc.Kind == "C23" && res.Count == 0 && want > 0 {
			r.vio("C23.read-within-limits-returns-nothing", "", "%s: READ before EOF returned no data", name)
		}
	}
	exp := fm.read(op.Off, uint64(res.Count))
	if !eqBytes(exp, res.Data) {
		r.vio("C01.read-data", "", "%s: READ off=%d returned wrong bytes (first difference at +%d)", name, op.Off, firstDiff(exp, res.Data))
	}
	wantEOF := op.Off+uint64(res.Count) >= fm.size
	if res.EOF != wantEOF {
		r.vio("C01.read-eof", fmt.Sprintf("got=%v", res.EOF), "%s: READ off=%d count=%d size=%d: eof=%v, want %v", name, op.Off, res.Count, fm.size, res.EOF, wantEOF)
	}
}

func (r *seqRun) checkAccess(name, p string, mask uint32, res *nfsclient.AccessRes) {
	r.o.Checks++
	if res.Access&^mask != 0 {
		r.vio("C12.grants-unrequested", "", "%s: requested %#x granted %#x", name, mask, res.Access)
	}
	if res.Attr == nil {
		return
	}
	if r.faulty {
		// with a failing backend ACCESS may be refused; an answer must rest on the object's real attributes
		if n := r.w.FS.Lookup(p); n != nil && !r.loose && (res.Attr.Mode&0o7777 != uint32(n.Perm&0o7777) || res.Attr.UID != uint32(n.UID) || res.Attr.GID != uint32(n.GID)) {
			r.vio("C12.access-decided-on-stale-attributes", "", "%s: ACCESS on %s answered NFS3_OK on mode %o owner %d:%d while the object has mode %o owner %d:%d (a backend error was injected earlier in this history)", name, p, res.Attr.Mode&0o7777, res.Attr.UID, res.Attr.GID, n.Perm&0o7777, n.UID, n.GID)
		}
	}
	isDir := res.Attr.Type == nfsclient.NF3DIR
	want := unixAccess(res.Attr.Mode, isDir, res.Attr.UID, res.Attr.GID, r.euid, r.egid, r.eaux, mask, r.readOnly)
	if res.Access != want {
		over := res.Access &^ want
		kind := "under-grant"
		if over != 0 {
			kind = "over-grant"
		}
		r.vio("C12.unix-rule", kind, "%s: ACCESS mask=%#x on %s (mode %o owner %d:%d dir=%v) by %d:%d aux=%v readOnly=%v granted %#x, UNIX rule gives %#x", name, mask, p, res.Attr.Mode, res.Attr.UID, res.Attr.GID, isDir, r.euid, r.egid, r.eaux, r.readOnly, res.Access, want)
	}
	if r.readOnly && res.Access&(0x04|0x08|0x10) != 0 {
		r.vio("C08.access-grants-write-on-read-only", "", "%s: granted %#x on a read-only export", name, res.Access)
	}
}

func (r *seqRun) stepCreate(name string, op Op, hr handleRef, base *mnode, res *nfsclient.CreateRes) {
	m := r.model
	child := joinPath(hr.path, op.Name)
	cn := m.get(child)
	dirOK := base != nil && base.kind == mDir && validName(op.Name) && !r.readOnly
	var before []byte
	var beforeSize uint64
	if cn != nil && cn.kind == mFile {
		before = cn.file.read(0, minU64(cn.file.size, 1<<16))
		beforeSize = cn.file.size
	}
	sizeSet := op.How != nfsclient.Exclusive && op.SA.Size != nil
	e := expect{ok: dirOK}
	if dirOK && cn != nil {
		switch op.How {
		case nfsclient.Guarded:
			e = expect{ok: false}
			r.o.Checks++
			if res.Status != nfsclient.NFS3ERR_EXIST && !(r.faulted() && res.Status != 0) {
				r.vio("C03.guarded-existing", "kind="+cn.kind+fmt.Sprintf(",status=%d", res.Status), "%s: GUARDED CREATE of existing %s %q got %s, want NFS3ERR_EXIST", name, cn.kind, child, nfsclient.NFSStatName(res.Status))
				e = expect{either: true}
				r.diverged = true
			}
		case nfsclient.Exclusive:
			same := cn.kind == mFile && cn.verf != nil && *cn.verf == verfBytes(op.Verf)
			e = expect{ok: same}
			r.o.Checks++
			if !same && res.Status != nfsclient.NFS3ERR_EXIST && !(r.faulted() && res.Status != 0) {
				facts := "kind=" + cn.kind + fmt.Sprintf(",status=%d", res.Status)
				if cn.verf != nil {
					// the file WAS made by an EXCLUSIVE create (a verifier is on record): not the recorded
					// finding about files of unknown origin
					facts += ",made-by-exclusive-create"
				}
				r.vio("C03.exclusive-other-verifier", facts, "%s: EXCLUSIVE CREATE of existing %s %q with a different verifier got %s, want NFS3ERR_EXIST", name, cn.kind, child, nfsclient.NFSStatName(res.Status))
				e = expect{either: true}
				r.diverged = true
			}
		default:
			if cn.kind == mFile {
				e = expect{ok: true}
			} else if cn.kind == mLink {
				e = expect{either: true}
			} else {
				e = expect{ok: false}
			}
		}
	}
	if dirOK && sizeSet && r.maxFile > 0 && *op.SA.Size > uint64(r.maxFile) {
		e = expect{either: true}
	}
	got := r.judge(op.Op, res.Status, e)
	// existing object must be untouched unless size was explicitly set
	if cn != nil && cn.kind == mFile {
		r.o.Checks++
		now, nowSize, _ := r.w.FS.ReadRange(child, 0, 1<<16) // sparse-safe: never materialise a huge file
		if sizeSet && got {
			cn.file.truncate(*op.SA.Size)
		} else if sizeSet && r.faulted() {
			// the request set size explicitly and failed under an injected fault before or after the
			// truncation: the file must still be there, with its old content or the old content resized
			c := &fileModel{}
			c.write(0, before)
			c.truncate(*op.SA.Size)
			resized := c.read(0, minU64(c.size, 1<<16))
			if n := r.w.FS.Lookup(child); n == nil || n.Kind != simfs.KindFile {
				r.vio("C03.existing-file-data-destroyed", fmt.Sprintf("how=%d,replied_ok=%v,file-gone", op.How, got), "%s: CREATE (how=%d) of existing file %q failed under an injected backend error and the file is gone", name, op.How, child)
			} else if beforeSize <= 1<<16 && !(uint64(nowSize) == beforeSize && eqBytes(now, before)) && !(uint64(nowSize) == c.size && eqBytes(now, resized)) {
				r.vio("C03.existing-file-data-destroyed", fmt.Sprintf("how=%d,replied_ok=%v,size-set", op.How, got), "%s: CREATE (how=%d, size=%d) of existing file %q failed under an injected backend error and left neither the old content nor the old content resized (size %d -> %d)", name, op.How, *op.SA.Size, child, beforeSize, nowSize)
			}
			r.diverged = true
		} else {
			if uint64(nowSize) != beforeSize || !eqBytes(now, before) {
				r.vio("C03.existing-file-data-destroyed", fmt.Sprintf("how=%d,replied_ok=%v", op.How, got), "%s: CREATE (how=%d, size not set) of existing file %q changed its data: size %d -> %d", name, op.How, child, beforeSize, nowSize)
				// resynchronise the model so later operations are judged against what the backend now holds
				r.diverged = true
			}
		}
		if got && op.SA.Mode != nil && op.How != nfsclient.Exclusive {
			cn.perm = *op.SA.Mode & 0o7777
		}
	}
	if got && sizeSet {
		// the initial size requested by sattr3 must be in force (RFC 1813 3.3.8); resynchronise on mismatch
		r.o.Checks++
		if n := r.w.FS.Lookup(child); n != nil && n.Kind == 0 && uint64(n.Size) != *op.SA.Size {
			existed := cn != nil
			r.vio("C01.create-size-not-applied", fmt.Sprintf("existing=%v", existed), "%s: CREATE(how=%d, size=%d) of %q replied OK but the backend file has size %d", name, op.How, *op.SA.Size, child, n.Size)
			if cn != nil && cn.kind == mFile {
				r.diverged = true
			} else {
				sz := uint64(n.Size)
				op.SA.Size = &sz
			}
		}
	}
	if got && cn == nil {
		n := &mnode{kind: mFile, perm: effPerm(op.SA, 0o644), file: &fileModel{}, uid: r.ownerUID(op.SA), gid: r.ownerGID(op.SA)}
		if op.How == nfsclient.Exclusive {
			v := verfBytes(op.Verf)
			n.verf = &v
			n.perm = 0o644
			n.uid, n.gid = r.euid, r.egid
		} else if op.SA.Size != nil {
			n.file.truncate(*op.SA.Size)
		}
		m.add(child, n)
		r.resetIdent(child)
		r.mut(child, "CREATE")
		r.mutatedDirs[hr.path] = true
		r.checkNewOwner(name, op, child)
	}
	if got {
		if res.FH != nil {
			r.sawHandle(res.FH, res.Attr)
			r.addHandle(res.FH, child)
			r.probeHandle(res.FH, child)
		}
		r.checkAttr(op.Op, child, res.Attr)
		if r.negLooked[child] {
			r.nNegPos++
		}
	}
}

func minU64(a, b uint64) uint64 {
	if a < b {
		return a
	}
	return b
}

// stepReaddir follows cookies to the end and compares the listing with the model (C02/C26).
func (r *seqRun) stepReaddir(name string, op Op, hr handleRef, base *mnode) {
	plus := op.Op == "READDIRPLUS"
	var cookie uint64
	var verf [8]byte
	seen := map[string]int{}
	count := op.Count
	if count == 0 {
		count = 4096
	}
	isDir := base != nil && base.kind == mDir
	if isDir && r.mutatedDirs[hr.path] {
		r.nReaddirAfterMut++
	}
	maxCalls := 4
	if isDir {
		maxCalls = len(r.model.children(hr.path)) + 3
	}
	for call := 0; ; call++ {
		var r0 any
		var err error
		if plus {
			dc := op.Dir2
			if dc == 0 {
				dc = count
			}
			r0, _, err = r.cl.NFS(nfsclient.NFSProcReaddirplus, nfsclient.ArgsReaddirplus(hr.fh, cookie, verf, dc, count))
		} else {
			r0, _, err = r.cl.NFS(nfsclient.NFSProcReaddir, nfsclient.ArgsReaddir(hr.fh, cookie, verf, count))
		}
		if err != nil || r0 == nil {
			return
		}
		res := r0.(*nfsclient.ReaddirRes)
		if r.faulted() && res.Status != 0 {
			return // a listing hit by an injected backend error may fail
		}
		if r.sc.Kind == "C26" && isDir && !r.faulted() {
			// size of a resok holding exactly the next entry: post_op_attr(4+84) + verf(8) + entry + list end(4) + eof(4)
			next := ""
			for _, n := range r.model.children(hr.path) {
				if seen[n] == 0 {
					next = n
					break
				}
			}
			entry := 4 + 8 + 4 + (len(next)+3)/4*4 + 8
			if plus {
				entry += 4 + 84 + 4 + 4 + 8
			}
			one := 4 + 84 + 8 + entry + 4 + 4
			fits := next != "" && uint32(one) <= count
			r.o.Checks++
			if res.Status == nfsclient.NFS3ERR_TOOSMALL {
				if fits || next == "" {
					r.vio("C26.toosmall-although-entry-fits", "plus="+fmt.Sprint(plus), "%s: NFS3ERR_TOOSMALL with count=%d although entry %q needs only %d bytes", name, count, next, one)
				}
				return
			}
			if res.Status == 0 && next != "" && !fits && !res.EOF && len(res.Entries) == 0 {
				r.vio("C26.no-toosmall", "plus="+fmt.Sprint(plus), "%s: count=%d cannot hold entry %q (%d bytes): want NFS3ERR_TOOSMALL, got an empty page without eof", name, count, next, one)
				return
			}
			if res.Status == 0 && next != "" && !fits && res.EOF && len(res.Entries) == 0 {
				r.vio("C26.eof-with-entries-left", "plus="+fmt.Sprint(plus), "%s: count=%d: empty page with eof although %q has not been listed", name, count, next)
				return
			}
			if res.Status == 0 && fits && len(res.Entries) == 0 {
				r.vio("C26.no-progress-although-entry-fits", "plus="+fmt.Sprint(plus), "%s: count=%d can hold entry %q (%d bytes) but the page is empty", name, count, next, one)
				return
			}
		}
		if call == 0 {
			if !r.judge(op.Op, res.Status, expect{ok: isDir}) {
				return
			}
		} else if res.Status != 0 {
			r.vio(r.own("readdir-continuation-failed"), "", "%s: page %d failed with %s", name, call, nfsclient.NFSStatName(res.Status))
			return
		}
		if !isDir || r.loose {
			// the listing is not of the directory the model thinks of (stale or reused handle):
			// the handle values it carries are remembered as unattributable
			for _, e := range res.Entries {
				if e.FH != nil {
					if r.reissued == nil {
						r.reissued = map[string]bool{}
					}
					r.reissued[string(e.FH)] = true
				}
			}
			if !isDir {
				return
			}
		}
		r.checkAttr(op.Op+".dir", hr.path, res.DirAttr)
		total, _ := res.EncodedSize(plus)
		r.o.Checks++
		if r.sc.Kind == "C26" && uint32(total) > count {
			facts := "plus=" + fmt.Sprint(plus) + ",entries>1"
			if len(res.Entries) <= 1 {
				facts = "plus=" + fmt.Sprint(plus) + ",single-entry-does-not-fit"
			}
			r.vio("C26.reply-exceeds-count", facts, "%s: encoded resok is %d bytes with %d entries, client limit %d", name, total, len(res.Entries), count)
		}
		for _, e := range res.Entries {
			if e.Name == "." || e.Name == ".." {
				continue
			}
			seen[e.Name]++
			child := joinPath(hr.path, e.Name)
			if !r.loose && r.sc.Kind != "C05" && r.sc.Kind != "C06" && e.Fileid != fileidFor(r, child, e.Fileid) {
				r.vio(r.own("readdir-fileid"), "plus="+fmt.Sprint(plus), "%s: entry %q has fileid %d, other replies report %d for that object", name, e.Name, e.Fileid, r.ident[child][1])
			}
			if plus {
				if e.Attr != nil {
					r.checkAttr(op.Op, child, e.Attr)
				}
				r.sawHandle(e.FH, e.Attr)
				if e.FH != nil && !r.loose {
					r.addHandle(e.FH, child)
				}
			}
			cookie = e.Cookie
		}
		verf = res.Verf
		if res.EOF {
			break
		}
		if len(res.Entries) == 0 {
			r.vio(r.own("readdir-no-progress"), "plus="+fmt.Sprint(plus), "%s: page %d returned no entries and no eof (count=%d)", name, call, count)
			return
		}
		if call > maxCalls {
			r.vio(r.own("readdir-no-progress"), "plus="+fmt.Sprint(plus)+",loop", "%s: listing did not terminate after %d pages", name, call)
			return
		}
	}
	if r.loose || r.sc.Kind == "C05" || r.sc.Kind == "C06" {
		return // listing completeness is C02/C26's business; handle workloads evict at will
	}
	want := r.model.children(hr.path)
	r.o.Checks++
	// a listing that misses or invents an entry after a mutation went through a symlinked handle path is the
	// recorded finding about path-keyed caches; it gets one canonical signature
	const aliased = "after-a-mutation-through-a-handle-whose-path-traverses-a-symlink"
	for _, n := range want {
		if seen[n] == 0 && r.aliasMut {
			r.vio(r.own("readdir-missing-entry"), aliased, "%s: %q is in directory %s but not in the (cached) listing; earlier in this history a mutating request used a handle whose path the backend resolved through a symbolic link", name, n, hr.path)
		} else if seen[n] == 0 {
			r.vio(r.own("readdir-missing-entry"), "plus="+fmt.Sprint(plus)+",last="+r.nearestMut(joinPath(hr.path, n)), "%s: %q is in directory %s but not in the listing (last mutation: %s)", name, n, hr.path, r.nearestMut(joinPath(hr.path, n)))
		} else if seen[n] > 1 {
			r.vio(r.own("readdir-duplicate-entry"), "plus="+fmt.Sprint(plus), "%s: %q listed %d times", name, n, seen[n])
		}
		delete(seen, n)
	}
	for n := range seen {
		if r.aliasMut {
			r.vio(r.own("readdir-phantom-entry"), aliased, "%s: the (cached) listing of %s contains %q which does not exist; earlier in this history a mutating request used a handle whose path the backend resolved through a symbolic link", name, hr.path, n)
			continue
		}
		r.vio(r.own("readdir-phantom-entry"), "plus="+fmt.Sprint(plus)+",last="+r.nearestMut(joinPath(hr.path, n)), "%s: listing of %s contains %q which does not exist (last mutation: %s)", name, hr.path, n, r.nearestMut(joinPath(hr.path, n)))
	}
}

// fileidFor returns the fileid other replies established for path (or got when none yet).
func fileidFor(r *seqRun, p string, got uint64) uint64 {
	if id, ok := r.ident[p]; ok {
		return id[1]
	}
	return got
}

// runSeqWorld drives the whole scenario against one server instance.
func runSeqWorld(o *Outcome, sc *SeqScn, cfg SrvCfg) *seqRun {
	w := NewWorld(o)
	r := &seqRun{o: o, sc: sc, w: w, model: newTreeModel(), ghost: map[string]string{}, ident: map[string][2]uint64{},
		lastMut: map[string]string{}, mutatedDirs: map[string]bool{}, negLooked: map[string]bool{}, looked: map[string]bool{}, cred: sc.Cred}
	populate(w.FS, r.model, sc.Tree)
	opts := cfg.options()
	if err := w.Start(opts); err != nil {
		o.Inconclusive = "server start: " + err.Error()
		return nil
	}
	if cfg.MaxHandles > 0 {
		absnfs.VerifSetMaxHandles(w.NFS, cfg.MaxHandles)
	}
	r.readOnly = cfg.ReadOnly
	r.transfer = absnfs.VerifTuning(w.NFS).TransferSize
	r.maxFile = cfg.MaxFileSize
	r.euid, r.egid, r.eaux, _ = squash(cfg.Squash, sc.Cred.Flavor, sc.Cred.UID, sc.Cred.GID, sc.Cred.Gids)
	r.strictAttrs = true
	r.faulty = len(sc.Faults) > 0
	addr := sc.Addr
	if addr == "" {
		addr = "10.0.0.7:900"
	}
	cl, err := w.Dial(addr, sc.Cred, &simrt.ConnFaults{Segment: sc.Segment, Latency: time.Millisecond})
	if err != nil {
		o.Inconclusive = "dial: " + err.Error()
		return nil
	}
	r.cl = cl
	fh, _, err := cl.Mount("/")
	if err != nil {
		o.Vio("C28.mount-failed", "", "MNT / failed: %v", err)
		return nil
	}
	r.addHandle(fh, "/")
	r.lastSeq = w.FS.LastSeq()
	for _, f := range sc.Faults {
		w.FS.AddFault(f)
	}
	return r
}

func (r *seqRun) applyUpdate(c *SrvCfg) {
	if c.ViaTuning {
		r.w.NFS.UpdateTuningOptions(func(tu *absnfs.TuningOptions) { tu.TransferSize = c.TransferSize })
		r.transfer = absnfs.VerifTuning(r.w.NFS).TransferSize
		return
	}
	opts := r.w.NFS.GetExportOptions()
	opts.TransferSize = c.TransferSize
	opts.MaxFileSize = c.MaxFileSize
	opts.ReadOnly = c.ReadOnly
	if err := r.w.NFS.UpdateExportOptions(opts); err != nil {
		r.o.Vio(r.own("runtime-update-failed"), "", "UpdateExportOptions: %v", err)
		return
	}
	r.readOnly = c.ReadOnly
	r.maxFile = c.MaxFileSize
	r.transfer = absnfs.VerifTuning(r.w.NFS).TransferSize
}

func (r *seqRun) finish() {
	r.cl.Close()
	r.w.Stop()
}

// mountClean is the path a MNT argument denotes inside the export.
func mountClean(p string) string {
	parts := []string{}
	for _, c := range strings.Split(p, "/") {
		switch c {
		case "", ".":
		case "..":
			if len(parts) > 0 {
				parts = parts[:len(parts)-1]
			}
		default:
			parts = append(parts, c)
		}
	}
	return "/" + strings.Join(parts, "/")
}

// stepC23: FSINFO, then READ and WRITE with counts taken from the advertised limits.
func (r *seqRun) stepC23(name string, op Op, hr handleRef, base *mnode) {
	if base == nil || base.kind != mFile {
		return
	}
	r0, _, err := r.cl.NFS(nfsclient.NFSProcFsinfo, nfsclient.ArgsFH(r.handles[0].fh))
	if err != nil || r0 == nil {
		return
	}
	fi := r0.(*nfsclient.FsinfoRes)
	if fi.Status != 0 {
		r.vio("C23.fsinfo-failed", "", "%s: FSINFO failed with %s", name, nfsclient.NFSStatName(fi.Status))
		return
	}
	r.o.Checks++
	if fi.Rtpref > fi.Rtmax || fi.Wtpref > fi.Wtmax {
		r.vio("C23.pref-exceeds-max", "", "%s: rtpref=%d rtmax=%d wtpref=%d wtmax=%d", name, fi.Rtpref, fi.Rtmax, fi.Wtpref, fi.Wtmax)
	}
	if sc := r.sc; sc.UpdCfg != nil && sc.UpdAt < 0 {
		// runtime change of the transfer size between FSINFO and the I/O
		r.applyUpdate(sc.UpdCfg)
	}
	pick := func(max, pref uint32) []uint32 {
		c := []uint32{1, pref, max}
		if max > 1 {
			c = append(c, max-1)
		}
		return c
	}
	rc := pick(fi.Rtmax, fi.Rtpref)
	count := rc[int(op.Seed%uint64(len(rc)))]
	res, err := r.cl.Read(hr.fh, 0, count)
	r.o.Checks++
	if err != nil {
		r.vio("C23.read-within-limits-dropped", fmt.Sprintf("which=%d", op.Seed%uint64(len(rc))), "%s: READ count=%d (rtmax=%d) got no reply: %v", name, count, fi.Rtmax, err)
	} else if res.Status != 0 {
		r.vio("C23.read-within-limits-refused", fmt.Sprintf("status=%d", res.Status), "%s: READ count=%d (rtmax=%d) refused with %s", name, count, fi.Rtmax, nfsclient.NFSStatName(res.Status))
	} else if base.file.size > 0 && res.Count == 0 {
		r.vio("C23.read-within-limits-returns-nothing", "", "%s: READ count=%d before EOF (size %d) returned no data", name, count, base.file.size)
	} else if !eqBytes(res.Data, base.file.read(0, uint64(res.Count))) {
		r.vio("C23.read-data", "", "%s: READ count=%d returned wrong bytes", name, count)
	}
	wc := pick(fi.Wtmax, fi.Wtpref)
	wcount := wc[int((op.Seed/7)%uint64(len(wc)))]
	data := PayloadBytes(op.Seed, int(wcount))
	oldHead := base.file.read(0, uint64(wcount)) // what the range held before
	wres, err := r.cl.Write(hr.fh, 0, 2, data)
	r.o.Checks++
	which := fmt.Sprintf("which=%d", (op.Seed/7)%uint64(len(wc)))
	if err != nil {
		r.vio("C23.write-within-limits-dropped", which, "%s: WRITE count=%d (wtmax=%d, transfer size %d) got no reply, the connection was dropped: %v", name, wcount, fi.Wtmax, r.transfer, err)
		r.cl.Dead = false
		r.cl.last = time.Time{} // force a reconnect for the following operations
	} else if wres.Status != 0 && r.faulted() {
		// an injected backend error landed in this WRITE: it may fail
	} else if wres.Status != 0 {
		facts := fmt.Sprintf("status=%d", wres.Status)
		if sc := r.sc; sc.UpdCfg != nil && sc.UpdAt < 0 && r.transfer < int(fi.Wtmax) && int(wcount) > r.transfer {
			facts += ",transfer-size-lowered-after-fsinfo"
		}
		r.vio("C23.write-within-limits-refused", facts, "%s: WRITE count=%d (wtmax=%d, wtpref=%d, transfer size %d) refused with %s", name, wcount, fi.Wtmax, fi.Wtpref, r.transfer, nfsclient.NFSStatName(wres.Status))
	} else {
		if wres.Count == 0 || wres.Count > wcount {
			r.vio("C23.write-count", "", "%s: WRITE count=%d reply count=%d", name, wcount, wres.Count)
		} else {
			base.file.write(0, data[:wres.Count])
			// "possibly storing fewer bytes and saying so": the count in the reply is exactly what is stored
			r.o.Checks++
			got, _, _ := r.w.FS.ReadRange(hr.path, 0, int(wcount))
			want := append(append([]byte(nil), data[:wres.Count]...), tailFrom(oldHead, int(wres.Count))...)
			if len(got) < len(want) {
				want = want[:len(got)]
			}
			if !eqBytes(got[:len(want)], want) || len(got) < int(wres.Count) {
				r.vio("C23.write-count-not-what-is-stored", "", "%s: WRITE count=%d replied count=%d, but the backend does not hold exactly the first %d bytes of the payload there (first difference at %d of %d bytes)", name, wcount, wres.Count, wres.Count, firstDiff(got, want), len(got))
			}
		}
	}
	r.resync()
}

func tailFrom(b []byte, i int) []byte {
	if i >= len(b) {
		return nil
	}
	return b[i:]
}
