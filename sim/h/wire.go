package h

import (
	"bytes"
	"fmt"
	"net"
	"strings"
	"testing"
	"time"

	"github.com/absfs/absnfs"

	"verif/sim/nfsclient"
	"verif/sim/simfs"
	"verif/sim/simrt"
)

// C14 (every reply well-formed, in every server state), C15 (arbitrary bytes),
// C09 (host filter / secure port), C08 (read-only): raw-call workloads.

type WireCall struct {
	Prog    uint32 `json:"prog"`
	Vers    uint32 `json:"vers"`
	Proc    uint32 `json:"proc"`
	Target  int    `json:"target"`           // which handle: 0 root, 1 file, 2 dir, 3 symlink, 4 bogus handle, 5 stale
	Seed    uint64 `json:"seed"`             // argument variation
	Mangle  string `json:"mangle,omitempty"` // "", trunc, garbage, badlen, extra
	Cut     int    `json:"cut,omitempty"`    // truncation point (in 4-byte words)
	Flavor  uint32 `json:"flavor,omitempty"`
	PauseUs int    `json:"pause_us,omitempty"`
}

type WireClient struct {
	Addr  string     `json:"addr"`
	Calls []WireCall `json:"calls"`
	Raw   []string   `json:"raw,omitempty"` // C15: hex-free description of raw byte actions, see rawAction
	// network faults on this client's connections (C15): a small receive window (the client of a "stall"
	// action does not read, so the server's replies back up), and streams cut after that many bytes
	Win    int `json:"win,omitempty"`
	CutS2C int `json:"cut_s2c,omitempty"`
	CutC2S int `json:"cut_c2s,omitempty"`
}

type WireScn struct {
	Kind      string        `json:"kind"`
	Pol       PolSpec       `json:"pol"`
	Cfg       SrvCfg        `json:"cfg"`
	TimeoutMs int           `json:"timeout_ms,omitempty"`
	Clients   []WireClient  `json:"clients"`
	Admin     []C16Admin    `json:"admin,omitempty"`
	Stalls    []simfs.Fault `json:"stalls,omitempty"`
	Segment   bool          `json:"segment,omitempty"`
	Sched     SchedCfg      `json:"sched"`
}

var mutatingProcs = map[uint32]bool{2: true, 7: true, 8: true, 9: true, 10: true, 11: true, 12: true, 13: true, 14: true, 15: true, 21: true}

// wireArgs builds well-formed arguments for (prog, proc) against the standard tree.
func wireArgs(c WireCall, fhs [][]byte) []byte {
	r := simrt.NewRand(c.Seed)
	fh := fhs[c.Target%len(fhs)]
	name := []string{"f", "d", "l", "new", "zz", "f2"}[r.Int(6)]
	if c.Prog == nfsclient.ProgMount {
		switch c.Proc {
		case 1, 3:
			return nfsclient.ArgsMountPath([]string{"/", "/d", "/nope", ""}[r.Int(4)])
		}
		return nil
	}
	m := uint32(r.Int(0o1000))
	sa := nfsclient.Sattr3{}
	if r.Pct(50) {
		sa.Mode = &m
	}
	if r.Pct(20) {
		sz := uint64(r.Int(300))
		sa.Size = &sz
	}
	switch c.Proc {
	case 0:
		return nil
	case 1, 5, 18, 19, 20:
		return nfsclient.ArgsFH(fh)
	case 2:
		return nfsclient.ArgsSetattr(fh, sa, nil)
	case 3, 12, 13:
		return nfsclient.ArgsDirOp(fh, name)
	case 4:
		return nfsclient.ArgsAccess(fh, uint32(r.Int(64)))
	case 6:
		return nfsclient.ArgsRead(fh, uint64(r.Int(200)), uint32(r.Int(300)))
	case 7:
		d := PayloadBytes(c.Seed, r.Int(100))
		return nfsclient.ArgsWrite(fh, uint64(r.Int(200)), uint32(len(d)), uint32(r.Int(3)), d)
	case 8:
		return nfsclient.ArgsCreate(fh, name, uint32(r.Int(3)), sa, [8]byte{1, 2, 3})
	case 9:
		return nfsclient.ArgsMkdir(fh, name, sa)
	case 10:
		return nfsclient.ArgsSymlink(fh, name, sa, "f")
	case 11:
		return nfsclient.ArgsMknod(fh, name, nfsclient.NF3FIFO, sa, 0, 0)
	case 14:
		return nfsclient.ArgsRename(fh, name, fhs[r.Int(len(fhs))], "r"+name)
	case 15:
		return nfsclient.ArgsLink(fhs[1], fh, name)
	case 16:
		return nfsclient.ArgsReaddir(fh, advCookie(r), [8]byte{}, uint32(200+r.Int(4000)))
	case 17:
		return nfsclient.ArgsReaddirplus(fh, advCookie(r), [8]byte{}, uint32(200+r.Int(4000)), uint32(300+r.Int(4000)))
	case 21:
		return nfsclient.ArgsCommit(fh, 0, 0)
	}
	return PayloadBytes(c.Seed, 4*r.Int(5))
}

// advCookie: small resume positions mostly, sometimes values that are negative or huge as signed integers.
func advCookie(r *simrt.Rand) uint64 {
	if r.Pct(75) {
		return uint64(r.Int(3))
	}
	return []uint64{1 << 63, 1<<64 - 1, 1 << 32, 1<<63 - 1, 1 << 31, 1000000}[r.Int(6)]
}

func mangle(c WireCall, args []byte) []byte {
	r := simrt.NewRand(c.Seed ^ 0x55)
	switch c.Mangle {
	case "trunc":
		cut := 4 * c.Cut
		if cut > len(args) {
			cut = len(args)
		}
		return args[:cut]
	case "garbage":
		return PayloadBytes(c.Seed, 4*r.Int(20))
	case "badlen":
		// overwrite one length-looking word with a huge value
		b := append([]byte(nil), args...)
		if len(b) >= 4 {
			i := 4 * r.Int(len(b)/4)
			v := []uint32{1 << 31, 1<<32 - 1, 8193, 65, 1 << 20}[r.Int(5)]
			b[i], b[i+1], b[i+2], b[i+3] = byte(v>>24), byte(v>>16), byte(v>>8), byte(v)
		}
		return b
	case "extra":
		return append(append([]byte(nil), args...), PayloadBytes(c.Seed, 4*(1+r.Int(4)))...)
	}
	return args
}

// wireWorld starts the standard world: / f (file) d (dir) l (symlink) d/g.
func wireWorld(o *Outcome, sc *WireScn) (*World, error) {
	w := NewWorld(o)
	w.FS.MustWriteFile("/f", PayloadBytes(3, 150), 0o644)
	w.FS.MustMkdir("/d", 0o755)
	w.FS.MustSymlink("f", "/l")
	w.FS.MustWriteFile("/d/g", PayloadBytes(4, 10), 0o600)
	p := sc.Pol.policy()
	opts := sc.Cfg.options()
	opts.ReadOnly, opts.Secure, opts.AllowedIPs, opts.EnableRateLimiting, opts.RateLimitConfig = p.ReadOnly, p.Secure, p.AllowedIPs, p.EnableRateLimiting, p.RateLimitConfig
	if sc.TimeoutMs > 0 {
		if opts.Timeouts == nil {
			opts.Timeouts = &absnfs.TimeoutConfig{}
		}
		opts.Timeouts.DefaultTimeout = time.Duration(sc.TimeoutMs) * time.Millisecond
	}
	if err := w.Start(opts); err != nil {
		return nil, err
	}
	return w, nil
}

// handlesFor obtains the standard handles through a privileged setup connection from loopback
// (allowed by every policy the generators draw) before faults and policy changes start.
func handlesFor(w *World) ([][]byte, error) {
	// direct allocation through the handler API: independent of the policy under test
	var out [][]byte
	for _, p := range []string{"/", "/f", "/d", "/l"} {
		n, err := w.NFS.Lookup(p)
		if err != nil {
			return nil, err
		}
		h := absnfs.VerifFileMap(w.NFS).Allocate(n)
		b := make([]byte, 8)
		for i := 0; i < 8; i++ {
			b[7-i] = byte(h >> (8 * i))
		}
		out = append(out, b)
	}
	out = append(out, []byte{0xde, 0xad, 0xbe, 0xef, 0, 0, 0, 1}) // never issued
	out = append(out, []byte{0, 0, 0, 0, 0, 0, 0x30, 0x39})       // never issued, small
	return out, nil
}

// checkWireReply is the C14 monitor for one reply (strict RFC 1831 + RFC 1813/MOUNT result type).
func checkWireReply(o *Outcome, c WireCall, rep *nfsclient.Reply, state string) {
	o.Tick()
	if rep.Stat != nfsclient.MsgAccepted || rep.AcceptStat != nfsclient.Success {
		return
	}
	var err error
	switch c.Prog {
	case nfsclient.ProgNFS:
		if c.Vers == 3 && c.Proc <= 21 {
			var v any
			v, err = nfsclient.DecodeNFS(c.Proc, rep.Results)
			if err == nil {
				if rr, ok := v.(*nfsclient.ReadRes); ok && rr.Status == 0 && int(rr.Count) != len(rr.Data) {
					err = fmt.Errorf("READ count %d but %d data bytes", rr.Count, len(rr.Data))
				}
			}
		}
	case nfsclient.ProgMount:
		if c.Vers == 3 && c.Proc <= 5 { // the property speaks about MOUNT v3 (v1 is kept for showmount only)
			var v any
			v, err = nfsclient.DecodeMount(c.Vers, c.Proc, rep.Results)
			if err == nil && c.Vers == 3 && c.Proc == 1 {
				if mr := v.(*nfsclient.MntRes); !nfsclient.ValidMountStat(mr.Status) {
					err = fmt.Errorf("status %d is not a mountstat3", mr.Status)
				}
			}
		}
	}
	if err != nil {
		facts := fmt.Sprintf("prog=%d,proc=%d,state=%s,", c.Prog, c.Proc, state)
		if c.Prog == nfsclient.ProgNFS {
			facts += strings.TrimPrefix(shapeFacts(c.Proc, rep.Results), fmt.Sprintf("proc=%d,", c.Proc))
		} else if len(rep.Results) >= 4 {
			facts += fmt.Sprintf("status=%d", uint32(rep.Results[0])<<24|uint32(rep.Results[1])<<16|uint32(rep.Results[2])<<8|uint32(rep.Results[3]))
		}
		if c.Mangle != "" {
			facts += ",args=" + c.Mangle
		}
		o.Vio("C14.result-malformed", facts, "reply to prog=%d vers=%d proc=%d (%s args, server state %s) does not decode as its RFC result type: %v; result bytes=%x", c.Prog, c.Vers, c.Proc, orWell(c.Mangle), state, err, trunc(rep.Results, 96))
	}
}

func orWell(m string) string {
	if m == "" {
		return "well-formed"
	}
	return m
}

func runWire(t *testing.T, scAny any, trace bool) *Outcome {
	sc := scAny.(*WireScn)
	o := &Outcome{HorizonOK: true}
	res := Bubble(t, sc.Sched.config(trace), nil, func() {
		simrt.Event("scenario %x", simrt.Hash(hashBytes(mustJSON(sc))))
		w, err := wireWorld(o, sc)
		if err != nil {
			o.Inconclusive = "start: " + err.Error()
			return
		}
		fhs, err := handlesFor(w)
		if err != nil {
			o.Inconclusive = "handles: " + err.Error()
			return
		}
		cw := &c16World{o: o, w: w}
		cw.addEra(&polEra{spec: sc.Pol})
		w.FS.OnCall = func(c simfs.Call) any { return absnfs.VerifPolicy(w.NFS) }
		for _, f := range sc.Stalls {
			w.FS.AddFault(f)
		}
		seq0 := w.FS.LastSeq()
		done := make(chan int, len(sc.Clients)+1)
		for ci, cl := range sc.Clients {
			ci, cl := ci, cl
			simrt.Go(fmt.Sprintf("client-%d", ci), func() {
				defer simrt.Send("client.done", done, ci)
				wireClient(cw, sc, ci, cl, fhs)
			})
		}
		simrt.Go("admin", func() {
			defer simrt.Send("admin.done", done, -1)
			last := 0
			for ai, a := range sc.Admin {
				if a.AtUs > last {
					simrt.Sleep(time.Duration(a.AtUs-last) * time.Microsecond)
					last = a.AtUs
				}
				era := &polEra{spec: a.Pol, start: simrt.Stamp(), ret: -1}
				cw.addEra(era)
				simrt.Event("admin update %d begins %+v", ai, a.Pol)
				var err error
				if a.ViaExport {
					eo := w.NFS.GetExportOptions()
					p := a.Pol.policy()
					eo.ReadOnly, eo.Secure, eo.AllowedIPs, eo.EnableRateLimiting, eo.RateLimitConfig, eo.MaxFileSize = p.ReadOnly, p.Secure, p.AllowedIPs, p.EnableRateLimiting, p.RateLimitConfig, p.MaxFileSize
					err = w.NFS.UpdateExportOptions(eo)
				} else {
					err = w.NFS.UpdatePolicyOptions(a.Pol.policy())
				}
				if err != nil {
					cw.setRet(era, -2, nil)
					continue
				}
				cw.setRet(era, simrt.Stamp(), absnfs.VerifPolicy(w.NFS))
				simrt.Event("admin update %d returned", ai)
			}
		})
		for i := 0; i < len(sc.Clients)+1; i++ {
			simrt.Recv("wire.wait", done)
		}
		// requests orphaned by a time-out may still be parked in a stalled backend call: let every
		// stall elapse so that whatever they go on to do is in the call log that is judged
		var maxStall time.Duration
		for _, f := range sc.Stalls {
			if f.Stall > maxStall {
				maxStall = f.Stall
			}
		}
		if maxStall > 0 {
			simrt.Sleep(maxStall + 100*time.Millisecond)
		}
		// C08 / C09 over the backend call log
		eras := cw.snapshot()
		for _, c := range w.FS.CallsSince(seq0) {
			if !c.Mutating {
				continue
			}
			o.Tick()
			// a modifying backend call may begin only while a writable policy is possibly in force
			ok := false
			for _, p := range admissible(eras, c.Start, c.Start) {
				if !p.ReadOnly {
					ok = true
				}
			}
			if !ok {
				o.Vio("C08.backend-modified-while-read-only", "op="+c.Op, "modifying backend call %s(%s) by %s began while the read-only policy was in force", c.Op, c.Path, c.Task)
			}
		}
		if sc.Kind == "C09" {
			// no backend call begins while every policy possibly in force excludes every client of the run
			for _, c := range w.FS.CallsSince(seq0) {
				o.Tick()
				pols := admissible(eras, c.Start, c.Start)
				excluded := len(pols) > 0
				for _, p := range pols {
					for _, cl := range sc.Clients {
						host, portStr, _ := net.SplitHostPort(cl.Addr)
						var port int
						fmt.Sscanf(portStr, "%d", &port)
						if ipAllowed(p.Allowed, host) && !(p.Secure && port >= 1024) {
							excluded = false
						}
					}
				}
				if excluded {
					o.Vio("C09.backend-call-while-every-client-excluded", "op="+c.Op, "backend call %s(%s) by %s began while the only policy possibly in force excluded every client of the run (allowed %v, secure %v): a request admitted under the replaced policy was still being processed after the update had returned", c.Op, c.Path, c.Task, pols[0].Allowed, pols[0].Secure)
					break
				}
			}
		}
		w.Stop()
	})
	o.finish(res, sc.Kind)
	if res != nil {
		for _, p := range res.Panics {
			o.Vio("C15.panic", panicFacts(p), "a panic escaped a server goroutine (fatal in production):\n%s", firstLines(p, 14))
		}
		if res.HorizonHit {
			o.Inconclusive = "horizon"
		}
	}
	keep := sc.Kind + "."
	kept := o.Violations[:0]
	for _, v := range o.Violations {
		if strings.HasPrefix(v.Signature, keep) || (sc.Kind == "C15" && strings.HasPrefix(v.Signature, "C15.")) {
			kept = append(kept, v)
		}
	}
	o.Violations = kept
	o.NonTrivial = true
	return o
}

func wireClient(cw *c16World, sc *WireScn, ci int, spec WireClient, fhs [][]byte) {
	o, w := cw.o, cw.w
	host, portStr, _ := net.SplitHostPort(spec.Addr)
	var port int
	fmt.Sscanf(portStr, "%d", &port)
	cl, err := w.Dial(spec.Addr, RootCred, &simrt.ConnFaults{Segment: sc.Segment, Latency: 20 * time.Microsecond, Window: spec.Win, CutS2CAfter: spec.CutS2C, CutC2SAfter: spec.CutC2S})
	if err != nil {
		return
	}
	defer cl.Close()
	cl.Timeout = 120 * time.Second
	if len(spec.Raw) > 0 {
		rawClient(cw, sc, ci, spec, cl, fhs)
		return
	}
	for _, c := range spec.Calls {
		if c.PauseUs > 0 {
			simrt.Sleep(time.Duration(c.PauseUs) * time.Microsecond)
		}
		args := mangle(c, wireArgs(c, fhs))
		cred := RootCred
		if c.Flavor != 1 {
			cred = Cred{Flavor: c.Flavor}
		}
		cl.Cred = cred
		before := w.FS.LastSeq()
		s := simrt.Stamp()
		rep, err := cl.RawCall(c.Prog, c.Vers, c.Proc, args)
		r := simrt.Stamp()
		if err != nil {
			if _, gone := err.(*ErrNoReply); !gone {
				continue // reply did not decode as RFC 1831: recorded by the client as C14.rpc-reply-malformed
			}
			// no reply: connection closed (filtered peer, undecodable stream, request timeout): reconnect
			if nc, derr := simrt.Dial(cl.addr, cl.port, cl.faults); derr == nil {
				cl.Conn.Close()
				cl.Conn, cl.Dead = nc, false
			} else {
				return
			}
			continue
		}
		eras := cw.snapshot()
		pols := admissible(eras, s, r)
		state := "normal"
		if len(rep.Results) >= 4 && rep.Stat == 0 && rep.AcceptStat == 0 && rep.Results[0] == 0 && rep.Results[1] == 0 && rep.Results[2] == 0x27 && rep.Results[3] == 0x18 {
			state = "drain"
			simrt.Probe("drain_window_hit")
		} else if len(pols) == 1 && pols[0].ReadOnly {
			state = "read-only"
		} else if len(pols) == 1 && pols[0].RL {
			state = "rate-limited"
		}
		if rep.Stat == nfsclient.MsgDenied {
			simrt.Probe("denied_reply")
		}
		checkWireReply(o, c, rep, state)
		// C09: a request from a peer that every possibly-in-force policy excludes must be denied and reach no handler
		o.Tick()
		if len(pols) > 0 {
			allDeny, allAdmit := true, true
			for _, p := range pols {
				d := !ipAllowed(p.Allowed, host) || (p.Secure && port >= 1024)
				allDeny = allDeny && d
				allAdmit = allAdmit && !d && !p.RL
			}
			calls := w.FS.CallsSince(before)
			if allDeny {
				if rep.Stat != nfsclient.MsgDenied {
					o.Vio("C09.excluded-peer-served", fmt.Sprintf("prog=%d", c.Prog), "client %s: call prog=%d proc=%d answered (stat=%d accept=%d) although every policy possibly in force excludes this address/port", spec.Addr, c.Prog, c.Proc, rep.Stat, rep.AcceptStat)
				}
				if len(sc.Clients) == 1 && len(calls) > 0 {
					o.Vio("C09.excluded-peer-reached-backend", "op="+calls[0].Op, "client %s: the rejected call made the backend call %s(%s)", spec.Addr, calls[0].Op, calls[0].Path)
				}
			}
			if allAdmit && rep.Stat == nfsclient.MsgDenied && cred.Flavor <= 1 {
				o.Vio("C09.admitted-peer-denied", "", "client %s: call prog=%d proc=%d denied although every policy possibly in force admits this address/port", spec.Addr, c.Prog, c.Proc)
			}
			// C08: every mutating procedure sent while read-only is certainly in force fails; ACCESS grants no write bits
			allRO := true
			for _, p := range pols {
				allRO = allRO && p.ReadOnly
			}
			if allRO && c.Prog == nfsclient.ProgNFS && c.Vers == 3 && rep.Stat == 0 && rep.AcceptStat == 0 && c.Mangle == "" && state != "drain" {
				if v, derr := nfsclient.DecodeNFS(c.Proc, rep.Results); derr == nil {
					st := statusOf(v)
					if mutatingProcs[c.Proc] && st == 0 {
						o.Vio("C08.mutating-procedure-succeeded-read-only", fmt.Sprintf("proc=%d", c.Proc), "client %s: %s succeeded on a read-only export", spec.Addr, nfsclient.NFSProcName(c.Proc))
					}
					if ar, ok := v.(*nfsclient.AccessRes); ok && ar.Status == 0 && ar.Access&(0x04|0x08|0x10) != 0 {
						o.Vio("C08.access-grants-write-on-read-only", "", "ACCESS granted %#x on a read-only export", ar.Access)
					}
				}
			}
		}
	}
}

func statusOf(v any) uint32 {
	switch r := v.(type) {
	case *nfsclient.GetattrRes:
		return r.Status
	case *nfsclient.SetattrRes:
		return r.Status
	case *nfsclient.LookupRes:
		return r.Status
	case *nfsclient.AccessRes:
		return r.Status
	case *nfsclient.ReadlinkRes:
		return r.Status
	case *nfsclient.ReadRes:
		return r.Status
	case *nfsclient.WriteRes:
		return r.Status
	case *nfsclient.CreateRes:
		return r.Status
	case *nfsclient.RemoveRes:
		return r.Status
	case *nfsclient.RenameRes:
		return r.Status
	case *nfsclient.LinkRes:
		return r.Status
	case *nfsclient.ReaddirRes:
		return r.Status
	case *nfsclient.FsstatRes:
		return r.Status
	case *nfsclient.FsinfoRes:
		return r.Status
	case *nfsclient.PathconfRes:
		return r.Status
	case *nfsclient.CommitRes:
		return r.Status
	}
	return 1 << 31
}

// ---- C15: raw byte streams ----

// rawClient interprets spec.Raw actions:
//
//	"call"      a valid NULL call (must be answered, same xid)
//	"getattr"   a valid GETATTR(root)
//	"two"       two valid calls in one write (answers in order)
//	"frag"      a valid call split into many fragments
//	"garbage"   random bytes (the stream becomes undecodable: the server must close)
//	"hugefrag"  a fragment header declaring 2^31-1 bytes
//	"hugecred"  a call whose credential length field is 2^32-1
//	"flip"      a valid call with a bit flipped somewhere
//	"cut"       a valid call truncated, then the connection is closed
//	"multi"     two calls inside ONE record
func rawClient(cw *c16World, sc *WireScn, ci int, spec WireClient, cl *Client, fhs [][]byte) {
	o, w := cw.o, cw.w
	r := simrt.NewRand(uint64(ci)*977 + sc.Sched.Seed)
	bigTraffic := false
	for _, c := range sc.Clients {
		for _, a := range c.Raw {
			if a == "overlimit" {
				bigTraffic = true
			}
		}
	}
	mk := func(proc uint32, args []byte) (uint32, []byte) {
		xid := uint32(w.xid.Add(1))
		c := nfsclient.Call{XID: xid, Prog: nfsclient.ProgNFS, Vers: 3, Proc: proc, Cred: RootCred.auth(), Verf: nfsclient.AuthNone(), Args: args}
		return xid, c.Encode()
	}
	expect := func(xids []uint32, what string) bool {
		for _, x := range xids {
			rep, err := cl.ReadReply(x, nfsclient.ProgNFS, 3, 0)
			o.Tick()
			if err != nil {
				if _, gone := err.(*ErrNoReply); gone && spec.CutS2C == 0 && spec.CutC2S == 0 {
					o.Vio("C15.decodable-call-not-answered", "after="+what, "client %d: a well-formed call (xid %d) sent %s got no reply: %v", ci, x, what, err)
				}
				// on a connection whose streams are cut by the network a lost reply is the network's doing
				return false
			}
			if rep.XID != x {
				o.Vio("C15.reply-out-of-order", "after="+what, "client %d: expected the reply to xid %d, got xid %d", ci, x, rep.XID)
				return false
			}
		}
		return true
	}
	for _, act := range spec.Raw {
		if cl.Dead {
			nc, derr := simrt.Dial(cl.addr, cl.port, cl.faults)
			if derr != nil {
				return
			}
			cl.Conn.Close()
			cl.Conn, cl.Dead = nc, false
		}
		var m1 runtimeMem
		switch act {
		case "call":
			x, b := mk(0, nil)
			cl.Conn.Write(nfsclient.Frame(b, nil))
			expect([]uint32{x}, "alone")
		case "getattr":
			x, b := mk(1, nfsclient.ArgsFH(fhs[0]))
			cl.Conn.Write(nfsclient.Frame(b, nil))
			expect([]uint32{x}, "alone")
		case "two":
			x1, b1 := mk(0, nil)
			x2, b2 := mk(1, nfsclient.ArgsFH(fhs[0]))
			cl.Conn.Write(append(nfsclient.Frame(b1, nil), nfsclient.Frame(b2, nil)...))
			expect([]uint32{x1, x2}, "back-to-back")
		case "frag":
			x, b := mk(1, nfsclient.ArgsFH(fhs[0]))
			var fr []int
			for left := len(b); left > 0 && len(fr) < 60; {
				f := r.Int(5)
				fr = append(fr, f)
				left -= f
			}
			cl.Conn.Write(nfsclient.Frame(b, fr))
			expect([]uint32{x}, "fragmented")
		case "multi":
			// two RPC messages inside one record: only the first is a call of that record
			x1, b1 := mk(0, nil)
			_, b2 := mk(0, nil)
			cl.Conn.Write(nfsclient.Frame(append(b1, b2...), nil))
			expect([]uint32{x1}, "two-in-one-record")
		case "flip":
			_, b := mk(1, nfsclient.ArgsFH(fhs[0]))
			i := r.Int(len(b))
			b[i] ^= 1 << uint(r.Int(8))
			cl.Conn.Write(nfsclient.Frame(b, nil))
			// may be answered, denied or dropped: read whatever comes (strictly decoded) until quiet
			cl.Conn.SetReadDeadline(time.Now().Add(40 * time.Second))
			if rec, err := nfsclient.ReadRecord(cl.Conn, 8<<20); err == nil {
				if _, derr := nfsclient.DecodeReply(rec); derr != nil {
					o.Vio("C14.rpc-reply-malformed", "after=bitflip", "reply to a bit-flipped call is not RFC 1831: %v", derr)
				}
			} else {
				cl.Dead = true
			}
		case "cookie":
			// a decodable READDIR/READDIRPLUS whose cookie is negative or huge as a signed number
			ck := []uint64{1 << 63, 1<<64 - 1, 1<<63 + 5, 1 << 40}[r.Int(4)]
			var x uint32
			var b []byte
			if r.Pct(50) {
				x, b = mk(16, nfsclient.ArgsReaddir(fhs[0], ck, [8]byte{}, 4096))
			} else {
				x, b = mk(17, nfsclient.ArgsReaddirplus(fhs[0], ck, [8]byte{}, 4096, 8192))
			}
			cl.Conn.Write(nfsclient.Frame(b, nil))
			expect([]uint32{x}, "adversarial-cookie")
		case "stall":
			// a client that pipelines many calls and does not read: the replies back up in its small window
			// and the server's writes block. The server must go on serving everybody else (the probe
			// connection judges that), and whatever this client reads when it wakes up is an in-order,
			// duplicate-free prefix of the answers (the server may have given up on the connection).
			var xs []uint32
			var wire []byte
			for k, n := 0, 20+r.Int(60); k < n; k++ {
				x, b := mk(1, nfsclient.ArgsFH(fhs[0]))
				xs = append(xs, x)
				wire = append(wire, nfsclient.Frame(b, nil)...)
			}
			cl.Conn.SetWriteDeadline(time.Now().Add(60 * time.Second))
			cl.Conn.Write(wire)
			simrt.Fault("net.stall_peer")
			simrt.Sleep(time.Duration([]int{1, 20, 100}[r.Int(3)]) * time.Second)
			cl.Conn.SetReadDeadline(time.Now().Add(20 * time.Second))
			next := 0
			for next < len(xs) {
				rec, err := nfsclient.ReadRecord(cl.Conn, 8<<20)
				if err != nil {
					break
				}
				o.Tick()
				rep, derr := nfsclient.DecodeReply(rec)
				if derr != nil {
					o.Vio("C14.rpc-reply-malformed", "after=stall", "reply on a stalled connection is not RFC 1831: %v", derr)
					break
				}
				if rep.XID != xs[next] {
					o.Vio("C15.reply-out-of-order", "after=stall", "client %d: after a stall expected the reply to xid %d (call %d of %d), got xid %d", ci, xs[next], next, len(xs), rep.XID)
					break
				}
				next++
			}
			cl.Dead = true
		case "slow":
			// a record that arrives in two parts with a silence longer than the server's read deadline in
			// between. The server may wait, or give up and close; what it must not do is lose its place in the
			// stream: the only reply that may ever come is the reply to this call.
			x, b := mk(1, nfsclient.ArgsFH(fhs[0]))
			wire := nfsclient.Frame(b, nil)
			cut := 1 + r.Int(len(wire)-1)
			if r.Pct(50) {
				// the worst place to lose one's position: a WRITE whose payload is itself a complete framed
				// call, cut exactly where the payload begins - a server that forgets it was inside a record
				// would take the payload for the next call and answer it
				_, inner := mk(0, nil)
				payload := nfsclient.Frame(inner, nil)
				x, b = mk(7, nfsclient.ArgsWrite(fhs[0], 0, uint32(len(payload)), 2, payload))
				wire = nfsclient.Frame(b, nil)
				if i := bytes.Index(wire, payload); i > 0 {
					cut = i
				}
			}
			switch r.Int(5) {
			case 0:
				// ... or between two fragments of the record: the silence begins right after a complete non-final
				// fragment, i.e. while the server waits for the next fragment header
				k := 4 * (1 + r.Int(len(b)/4-1))
				wire = nfsclient.Frame(b, []int{k})
				cut = 4 + k
			case 1:
				cut = 1 + r.Int(3) // ... or inside the four bytes of the record mark itself
			}
			cl.Conn.Write(wire[:cut])
			simrt.Fault("net.stall_midrecord")
			simrt.Sleep(time.Duration([]int{2, 8, 33, 70}[r.Int(4)]) * time.Second)
			cl.Conn.SetWriteDeadline(time.Now().Add(10 * time.Second))
			cl.Conn.Write(wire[cut:])
			cl.Conn.SetReadDeadline(time.Now().Add(75 * time.Second))
			rec, err := nfsclient.ReadRecord(cl.Conn, 8<<20)
			o.Tick()
			if err == nil {
				if rep, derr := nfsclient.DecodeReply(rec); derr != nil {
					o.Vio("C14.rpc-reply-malformed", "after=slow-record", "reply after a record that arrived in two parts is not RFC 1831: %v", derr)
				} else if rep.XID != x {
					o.Vio("C15.stream-desynchronised", "after=slow-record", "client %d: a call (xid %d) arrived in two parts %d bytes into the record with a long silence in between; the server answered xid %d, a call that was never sent", ci, x, cut, rep.XID)
				}
			} else if ne, ok := err.(net.Error); ok && ne.Timeout() {
				o.Vio("C15.undecodable-stream-not-closed", "act=slow", "client %d: after a record that arrived in two parts (silence in between) the server neither answered nor closed the connection for 75 simulated seconds", ci)
			}
			cl.Dead = true
		case "halfclose":
			// the last-fragment header announces more bytes than ever arrive, then the client half-closes its
			// side and keeps listening: a record that never became complete is not a call and gets no answer
			x, b := mk(0, nil)
			decl := len(b) + 4*(1+r.Int(40))
			if r.Pct(30) {
				b = b[:len(b)-4*(1+r.Int(3))] // not even a whole call
			}
			hdr := uint32(decl) | 0x80000000
			wire := append([]byte{byte(hdr >> 24), byte(hdr >> 16), byte(hdr >> 8), byte(hdr)}, b...)
			cl.Conn.Write(wire)
			cl.Conn.CloseWrite()
			simrt.Fault("net.half_close_midrecord")
			cl.Conn.SetReadDeadline(time.Now().Add(75 * time.Second))
			rec, err := nfsclient.ReadRecord(cl.Conn, 8<<20)
			o.Tick()
			if err == nil {
				xid := uint32(0)
				if rep, derr := nfsclient.DecodeReply(rec); derr == nil {
					xid = rep.XID
				}
				o.Vio("C15.truncated-record-answered", "", "client %d: a record whose header announced %d bytes was cut after %d bytes by a half-close; the server answered (xid %d, sent xid %d) as if the record were complete", ci, decl, len(b), xid, x)
			}
			cl.Dead = true
		case "burst":
			// several calls in one write: each answered once, in order
			var xs []uint32
			var wire []byte
			for k, n := 0, 3+r.Int(4); k < n; k++ {
				x, b := mk(0, nil)
				xs = append(xs, x)
				wire = append(wire, nfsclient.Frame(b, nil)...)
			}
			cl.Conn.Write(wire)
			expect(xs, "pipelined")
		case "overlimit":
			// fragments each within the record limit whose total exceeds it; the first fragment is a complete, valid call
			x, b := mk(0, nil)
			nfr := 5 + r.Int(8)
			wire := []byte{byte(len(b) >> 24), byte(len(b) >> 16), byte(len(b) >> 8), byte(len(b))}
			wire = append(wire, b...)
			filler := make([]byte, 512<<10)
			for k := 0; k < nfr; k++ {
				h := uint32(len(filler))
				if k == nfr-1 {
					h |= 0x80000000
				}
				wire = append(wire, byte(h>>24), byte(h>>16), byte(h>>8), byte(h))
				wire = append(wire, filler...)
			}
			m1 = memNow()
			read0 := cl.Conn.PeerBytesRead()
			cl.Conn.SetWriteDeadline(time.Now().Add(30 * time.Second))
			cl.Conn.Write(wire)
			cl.Conn.SetReadDeadline(time.Now().Add(75 * time.Second))
			closed := false
			rec, err := nfsclient.ReadRecord(cl.Conn, 8<<20)
			o.Tick()
			// the bound is on what the server takes in for ONE record: it has to give up at the fragment
			// header that crosses the documented 1 MiB, not after swallowing the whole record
			if took := cl.Conn.PeerBytesRead() - read0; took > len(b)+4+(1<<20)+(512<<10)+64 {
				o.Vio("C15.over-limit-record-consumed", "", "client %d: the server consumed %d bytes of one record of %d fragments (documented record limit 1 MiB) before giving up", ci, took, nfr+1)
			}
			if err == nil {
				if rep, derr := nfsclient.DecodeReply(rec); derr == nil && rep.XID == x {
					o.Vio("C15.over-limit-record-answered", "", "client %d: a record of %d fragments of 512 KiB (%d bytes in total, documented limit 1 MiB) was reassembled and answered", ci, nfr, nfr*len(filler)+len(b))
				}
			} else if ne, ok := err.(*ErrNoReply); ok || err != nil {
				_ = ne
				if te, isNet := err.(net.Error); !isNet || !te.Timeout() {
					closed = true
				}
			}
			if !closed && err != nil {
				o.Vio("C15.undecodable-stream-not-closed", "act=overlimit", "client %d: after an over-limit record the server kept the connection open for 75 simulated seconds", ci)
			}
			cl.Dead = true
		case "garbage", "hugefrag", "hugecred", "cut":
			var wire []byte
			switch act {
			case "garbage":
				wire = PayloadBytes(r.Uint64(), 8+r.Int(200))
				wire[0] &= 0x7f // not a last fragment of an absurd size
			case "hugefrag":
				wire = []byte{0xff, 0xff, 0xff, 0xff, 1, 2, 3, 4}
			case "hugecred":
				_, b := mk(0, nil)
				// credential length word is at offset 28
				b[28], b[29], b[30], b[31] = 0xff, 0xff, 0xff, 0xff
				wire = nfsclient.Frame(b, nil)
			case "cut":
				_, b := mk(1, nfsclient.ArgsFH(fhs[0]))
				wire = nfsclient.Frame(b, nil)
				wire = wire[:1+r.Int(len(wire)-1)]
			}
			m1 = memNow()
			cl.Conn.Write(wire)
			if act == "cut" {
				cl.Conn.Close()
				cl.Dead = true
				simrt.Sleep(time.Millisecond)
				break
			}
			// the stream is now undecodable (or will be): the server must close the connection
			// within its read timeout; it must not answer garbage with garbage forever
			cl.Conn.SetReadDeadline(time.Now().Add(75 * time.Second))
			buf := make([]byte, 4096)
			closed := false
			for k := 0; k < 50; k++ {
				_, err := cl.Conn.Read(buf)
				if err != nil {
					if ne, ok := err.(net.Error); !ok || !ne.Timeout() {
						closed = true
					}
					break
				}
			}
			o.Tick()
			// TotalAlloc is process-wide: in runs where some client pushes megabytes through the simulated
			// network (overlimit) the harness's own buffers would be charged to the server, so the bound is
			// only judged in the other runs
			if grown := memNow().sub(m1); grown > 8<<20 && !bigTraffic {
				o.Vio("C15.allocation-exceeds-bounds", "act="+act, "client %d: while the server processed %q bytes TotalAlloc grew by %d bytes", ci, act, grown)
			}
			if !closed && act != "garbage" {
				o.Vio("C15.undecodable-stream-not-closed", "act="+act, "client %d: after %s the server kept the connection open for 75 simulated seconds", ci, act)
			}
			cl.Dead = true
		}
	}
	// nothing more may arrive: a call is answered at most once
	if !cl.Dead {
		cl.Conn.SetReadDeadline(time.Now().Add(200 * time.Millisecond))
		if rec, err := nfsclient.ReadRecord(cl.Conn, 8<<20); err == nil {
			o.Tick()
			xid := uint32(0)
			if rep, derr := nfsclient.DecodeReply(rec); derr == nil {
				xid = rep.XID
			}
			o.Vio("C15.call-answered-twice", "", "client %d: after every call had been answered once, a further reply (xid %d) arrived", ci, xid)
		}
	}
	_ = bytes.Equal
}

type runtimeMem uint64

func (a runtimeMem) sub(b runtimeMem) uint64 { return uint64(a - b) }

func memNow() runtimeMem { return runtimeMem(totalAlloc()) }

// ---- generators ----

var wireAddrs = []string{"127.0.0.1:900", "10.0.0.7:900", "10.0.1.5:2000", "192.168.3.4:1023", "172.16.0.1:700", "10.0.0.9:50000", "[::ffff:10.0.0.7]:800", "[2001:db8::1]:600", "[::1]:1024"}

func genWireCall(r *simrt.Rand) WireCall {
	c := WireCall{Prog: nfsclient.ProgNFS, Vers: 3, Proc: uint32(r.Int(22)), Target: r.Int(6), Seed: r.Uint64(), Flavor: 1, PauseUs: []int{0, 0, 20, 900, 40000}[r.Int(5)]}
	if r.Pct(15) {
		c.Prog, c.Proc = nfsclient.ProgMount, uint32(r.Int(6))
		if r.Pct(20) {
			c.Vers = 1
		}
	}
	switch r.Int(14) {
	case 0:
		c.Mangle, c.Cut = "trunc", r.Int(12)
	case 1:
		c.Mangle = "garbage"
	case 2:
		c.Mangle = "badlen"
	case 3:
		c.Mangle = "extra"
	case 4:
		c.Prog = []uint32{100000, 100021, 7, 0}[r.Int(4)]
	case 5:
		c.Vers = []uint32{0, 2, 4, 99}[r.Int(4)]
	case 6:
		c.Proc = 22 + uint32(r.Int(5))
	case 7:
		c.Flavor = []uint32{0, 2, 3, 6}[r.Int(4)]
	}
	return c
}

func genC14(r *simrt.Rand, tier string) any {
	sc := &WireScn{Kind: "C14", Cfg: genCfg(r), TimeoutMs: []int{300, 3000, 30000}[r.Int(3)], Segment: r.Pct(30), Sched: RandSched(r)}
	sc.Sched.HorizonS = 3600
	sc.Pol = PolSpec{ReadOnly: r.Pct(30), RL: r.Pct(25)}
	if !sc.Pol.RL && r.Pct(25) {
		sc.Pol.RLGen = true // per-operation limits (mount, readdir, large I/O) are what refuses
	}
	nc := 1 + r.Int(3)
	for c := 0; c < nc; c++ {
		cl := WireClient{Addr: wireAddrs[r.Int(3)]}
		for i, n := 0, 3+r.Int(10); i < n; i++ {
			wc := genWireCall(r)
			if sc.Pol.RLGen && r.Pct(45) {
				// repeat the operations that have their own buckets
				switch r.Int(4) {
				case 0, 1:
					wc.Prog, wc.Vers, wc.Proc, wc.Mangle = nfsclient.ProgMount, 3, 1, ""
				case 2:
					wc.Prog, wc.Vers, wc.Proc, wc.Target, wc.Mangle = nfsclient.ProgNFS, 3, 16, 0, ""
				case 3:
					wc.Prog, wc.Vers, wc.Proc, wc.Target, wc.Mangle = nfsclient.ProgNFS, 3, 17, 2, ""
				}
				wc.PauseUs = 0
			}
			cl.Calls = append(cl.Calls, wc)
		}
		sc.Clients = append(sc.Clients, cl)
	}
	// drain windows: a stalled backend call and a policy update on top of it
	if r.Pct(60) {
		sc.Stalls = append(sc.Stalls, simfs.Fault{Op: []string{"Lstat", "OpenFile", "Stat", ""}[r.Int(4)], Nth: 1 + r.Int(6), Kind: "stall", Stall: time.Duration([]int{30, 800, 6000}[r.Int(3)]) * time.Millisecond})
		sc.Admin = append(sc.Admin, C16Admin{AtUs: []int{0, 500, 30000}[r.Int(3)], Pol: PolSpec{ReadOnly: r.Pct(50), RL: r.Pct(20)}})
	}
	// backend errors: the failure arms of the procedures (status mapped from whatever the backend
	// returned, failure-shaped wcc/post-op data) are replies like any other and must decode strictly
	if r.Pct(35) {
		for i, n := 0, 1+r.Int(3); i < n; i++ {
			sc.Stalls = append(sc.Stalls, simfs.Fault{
				Op:   []string{"", "", "Lstat", "Stat", "OpenFile", "File.Sync", "File.WriteAt", "File.ReadAt", "File.Readdir", "ReadDir", "Readlink", "Remove", "Rename", "Mkdir", "Symlink", "Create", "Chmod", "Truncate"}[r.Int(18)],
				Nth:  1 + r.Int(12),
				Kind: []string{"eio", "eio", "enospc", "eacces"}[r.Int(4)], Repeat: r.Pct(30)})
		}
		if r.Pct(30) {
			sc.Stalls = append(sc.Stalls, simfs.Fault{Op: "File.WriteAt", Nth: 1 + r.Int(3), Kind: []string{"short", "shortok"}[r.Int(2)], Short: r.Int(3), Repeat: r.Pct(50)})
		}
	}
	if r.Pct(10) {
		// multi-step procedures with a backend error at EVERY position in turn: one client sends a run of
		// CREATE / MKDIR / SYMLINK / RENAME / REMOVE calls in the export root (half of the names exist), and
		// one lstat/stat somewhere in the run fails - the second existence check of a CREATE, the look-up after
		// it, the attribute fetch for the wcc data ... each failure arm is a reply like any other
		sc.Pol, sc.Admin, sc.Stalls, sc.Segment = PolSpec{}, nil, nil, false
		cl := WireClient{Addr: wireAddrs[1]}
		for i, n := 0, 5+r.Int(6); i < n; i++ {
			cl.Calls = append(cl.Calls, WireCall{Prog: nfsclient.ProgNFS, Vers: 3, Proc: []uint32{8, 8, 8, 9, 10, 14, 12, 13}[r.Int(8)], Target: 0, Seed: r.Uint64(), Flavor: 1})
		}
		sc.Clients = []WireClient{cl}
		for i, n := 0, 1+r.Int(2); i < n; i++ {
			sc.Stalls = append(sc.Stalls, simfs.Fault{Op: []string{"Lstat", "Lstat", "Stat", ""}[r.Int(4)], Nth: 1 + r.Int(40), Kind: "eio"})
		}
	}
	return sc
}

func genC15(r *simrt.Rand, tier string) any {
	sc := &WireScn{Kind: "C15", Cfg: SrvCfg{MaxWorkers: 1 + r.Int(3)}, Segment: r.Pct(60), Sched: RandSched(r)}
	sc.Sched.HorizonS = 3600
	switch r.Int(6) {
	case 0:
		sc.Pol.RL = true
	case 1:
		sc.Pol.RLGen = true
	}
	acts := []string{"call", "getattr", "two", "frag", "multi", "flip", "garbage", "hugefrag", "hugecred", "cut", "overlimit", "cookie", "burst", "slow", "halfclose"}
	nc := 1 + r.Int(3)
	for c := 0; c < nc; c++ {
		cl := WireClient{Addr: wireAddrs[1+r.Int(2)]}
		for i, n := 0, 2+r.Int(6); i < n; i++ {
			cl.Raw = append(cl.Raw, acts[r.Pick([]int{15, 15, 10, 10, 6, 10, 10, 8, 8, 8, 6, 8, 8, 8, 6})])
		}
		sc.Clients = append(sc.Clients, cl)
	}
	// a well-behaved probe connection whose calls must all be answered
	// network faults on some hostile connections: a reader that stalls behind a small window, streams cut
	// after a drawn number of bytes (mid-record, mid-reply)
	for i := range sc.Clients {
		switch r.Int(6) {
		case 0:
			sc.Clients[i].Win = []int{256, 1024, 4096}[r.Int(3)]
			sc.Clients[i].Raw = append([]string{"stall"}, sc.Clients[i].Raw...)
			if r.Pct(50) {
				sc.Clients[i].Raw = []string{"call", "stall", "call"}
			}
		case 1:
			sc.Clients[i].CutS2C = 1 + r.Int(300)
		case 2:
			sc.Clients[i].CutC2S = 1 + r.Int(400)
		}
	}
	probe := WireClient{Addr: "10.0.0.77:901"}
	for i, n := 0, 3+r.Int(4); i < n; i++ {
		probe.Raw = append(probe.Raw, []string{"call", "getattr", "two", "burst"}[r.Int(4)])
	}
	sc.Clients = append(sc.Clients, probe)
	return sc
}

func genC09(r *simrt.Rand, tier string) any {
	sc := &WireScn{Kind: "C09", Cfg: SrvCfg{MaxWorkers: 1 + r.Int(2)}, Sched: SeqSched(r.Uint64())}
	sc.Sched.Mask = simrt.ClassAll
	sc.Sched.HorizonS = 3600
	lists := [][]string{nil, {"10.0.0.7"}, {"10.0.0.0/24"}, {"10.0.0.0/8", "192.168.3.4"}, {"0.0.0.0/0"}, {"10.0.0.7/32"}, {"10.0.0.6/31"}, {"::1"}, {"2001:db8::/32"}, {"not-an-ip", "10.0.0.300", "10.0.0.0/33"}, {"::ffff:10.0.0.7"}, {"10.0.1.5/30"}, {"::/0"}, {"128.0.0.0/1"}, {"10.0.0.0/33", "192.168.1.300"}, {"nonsense"}, {"10.0.0.7/"}, {"2001:db8::1"}, {"2001:db8::/128"}}
	pick := func() PolSpec { return PolSpec{Allowed: lists[r.Int(len(lists))], Secure: r.Pct(35)} }
	sc.Pol = pick()
	// one client only: "a rejected request reaches no backend call" is then attributable
	cl := WireClient{Addr: wireAddrs[r.Int(len(wireAddrs))]}
	for i, n := 0, 3+r.Int(8); i < n; i++ {
		c := genWireCall(r)
		c.Mangle = ""
		c.Flavor = 1
		if c.Vers != 3 && c.Prog == nfsclient.ProgNFS {
			c.Vers = 3
		}
		cl.Calls = append(cl.Calls, c)
	}
	sc.Clients = []WireClient{cl}
	if r.Pct(40) {
		sc.Admin = append(sc.Admin, C16Admin{AtUs: []int{0, 200, 5000}[r.Int(3)], Pol: pick(), ViaExport: r.Pct(50)})
	}
	if r.Pct(30) {
		// lock-out motif: 2-3 clients, all admitted at first, keep sending well-formed calls while the
		// administrator replaces the allow-list by one that excludes every one of them (or demands privileged
		// ports, which none of them uses). Requests that overlap the update may be judged by either policy; once
		// the update has returned, nothing is processed for these clients any more: no backend call begins.
		sc.Sched = RandSched(r)
		sc.Sched.Mask |= simrt.ClassUnlock
		sc.Sched.HorizonS = 3600
		sc.Cfg.MaxWorkers = 2 + r.Int(3)
		sc.Pol = PolSpec{Allowed: [][]string{nil, {"10.0.0.0/8", "127.0.0.1"}}[r.Int(2)]}
		out := PolSpec{Allowed: []string{"192.168.77.1"}}
		addrs := []string{"10.0.0.7:900", "10.0.1.5:2000", "10.0.0.9:50000"}
		if sc.Pol.Allowed == nil && r.Pct(30) {
			out = PolSpec{Secure: true}
			addrs = []string{"10.0.0.9:50000", "10.0.1.5:2000", "10.0.0.7:1024"}
		}
		sc.Clients = nil
		for c, nc := 0, 2+r.Int(2); c < nc; c++ {
			cl := WireClient{Addr: addrs[c]}
			for i, n := 0, 6+r.Int(10); i < n; i++ {
				wc := WireCall{Prog: nfsclient.ProgNFS, Vers: 3, Proc: []uint32{1, 3, 4, 6, 16, 17, 1, 3}[r.Int(8)], Target: r.Int(6), Seed: r.Uint64(), Flavor: 1, PauseUs: []int{0, 0, 20, 300, 900}[r.Int(5)]}
				cl.Calls = append(cl.Calls, wc)
			}
			sc.Clients = append(sc.Clients, cl)
		}
		sc.Admin = []C16Admin{{AtUs: []int{100, 700, 2500, 6000}[r.Int(4)], Pol: out, ViaExport: r.Pct(30)}}
		if r.Pct(50) {
			sc.Stalls = []simfs.Fault{{Op: []string{"Lstat", "Stat", "OpenFile", "ReadDir", ""}[r.Int(5)], Nth: 1 + r.Int(10), Kind: "stall", Stall: time.Duration([]int{2, 40, 400, 1100}[r.Int(4)]) * time.Millisecond}}
		}
	}
	return sc
}

func genC08(r *simrt.Rand, tier string) any {
	sc := &WireScn{Kind: "C08", Cfg: genCfg(r), TimeoutMs: []int{500, 30000}[r.Int(2)], Sched: RandSched(r)}
	sc.Sched.HorizonS = 3600
	sc.Pol = PolSpec{ReadOnly: r.Pct(50)}
	nc := 1 + r.Int(3)
	for c := 0; c < nc; c++ {
		cl := WireClient{Addr: wireAddrs[r.Int(3)]}
		for i, n := 0, 4+r.Int(10); i < n; i++ {
			wc := genWireCall(r)
			if r.Pct(60) {
				// bias to mutating procedures
				wc.Proc = []uint32{2, 7, 8, 9, 10, 11, 12, 13, 14, 15, 21, 4}[r.Int(12)]
				wc.Prog, wc.Vers = nfsclient.ProgNFS, 3
			}
			cl.Calls = append(cl.Calls, wc)
		}
		sc.Clients = append(sc.Clients, cl)
	}
	na := 1 + r.Int(3)
	at := 0
	ro := !sc.Pol.ReadOnly
	for a := 0; a < na; a++ {
		at += []int{0, 100, 3000, 60000, 700000}[r.Int(5)]
		sc.Admin = append(sc.Admin, C16Admin{AtUs: at, Pol: PolSpec{ReadOnly: ro}})
		ro = !ro
	}
	if r.Pct(50) {
		sc.Stalls = append(sc.Stalls, simfs.Fault{Op: []string{"Lstat", "OpenFile", "File.WriteAt", "Create", "Stat"}[r.Int(5)], Nth: 1 + r.Int(8), Kind: "stall", Stall: time.Duration([]int{5, 300, 2000, 6000}[r.Int(4)]) * time.Millisecond})
	}
	if r.Pct(25) {
		// a request that outlives its time-out (500 ms) inside a mutating procedure, with the switch to
		// read-only issued after the time-out but before the backend call returns
		sc.TimeoutMs = 500
		sc.Pol.ReadOnly = false
		sc.Stalls = []simfs.Fault{{Op: []string{"Lstat", "Stat", "OpenFile"}[r.Int(3)], Nth: 1 + r.Int(6), Kind: "stall", Stall: time.Duration([]int{2000, 6000}[r.Int(2)]) * time.Millisecond}}
		sc.Admin = []C16Admin{{AtUs: []int{600000, 900000, 1500000}[r.Int(3)], Pol: PolSpec{ReadOnly: true}}}
		if r.Pct(50) {
			// ... or its own per-procedure time-out (shorter than the request time-out), inside the data path
			sc.TimeoutMs = 30000
			sc.Cfg.OpTimeoutMs = []int{150, 400}[r.Int(2)]
			sc.Stalls = []simfs.Fault{{Op: []string{"OpenFile", "File.WriteAt", "File.Sync", "Create", "Truncate", "Lstat"}[r.Int(6)], Nth: 1 + r.Int(6), Kind: "stall", Stall: time.Duration([]int{2000, 6000}[r.Int(2)]) * time.Millisecond}}
		}
	}
	return sc
}

func shrinkWire(scAny any) []any {
	sc := scAny.(*WireScn)
	var out []any
	cp := func() *WireScn {
		c := *sc
		c.Clients = make([]WireClient, len(sc.Clients))
		for i := range sc.Clients {
			c.Clients[i] = sc.Clients[i]
			c.Clients[i].Calls = append([]WireCall(nil), sc.Clients[i].Calls...)
			c.Clients[i].Raw = append([]string(nil), sc.Clients[i].Raw...)
		}
		c.Admin = append([]C16Admin(nil), sc.Admin...)
		c.Stalls = append([]simfs.Fault(nil), sc.Stalls...)
		return &c
	}
	for i := range sc.Clients {
		if len(sc.Clients) > 1 {
			c := cp()
			c.Clients = append(c.Clients[:i], c.Clients[i+1:]...)
			out = append(out, c)
		}
	}
	for i := range sc.Clients {
		for j := range sc.Clients[i].Calls {
			c := cp()
			c.Clients[i].Calls = append(c.Clients[i].Calls[:j], c.Clients[i].Calls[j+1:]...)
			out = append(out, c)
		}
		for j := range sc.Clients[i].Raw {
			c := cp()
			c.Clients[i].Raw = append(c.Clients[i].Raw[:j], c.Clients[i].Raw[j+1:]...)
			out = append(out, c)
		}
	}
	for i := range sc.Admin {
		c := cp()
		c.Admin = append(c.Admin[:i], c.Admin[i+1:]...)
		out = append(out, c)
	}
	for i := range sc.Stalls {
		c := cp()
		c.Stalls = append(c.Stalls[:i], c.Stalls[i+1:]...)
		out = append(out, c)
	}
	if sc.Segment {
		c := cp()
		c.Segment = false
		out = append(out, c)
	}
	if sc.Sched.Policy != simrt.PolDefault {
		c := cp()
		c.Sched = SchedCfg{Seed: sc.Sched.Seed, Policy: simrt.PolDefault, Mask: simrt.ClassAll, HorizonS: sc.Sched.HorizonS}
		out = append(out, c)
	}
	return out
}

func init() {
	wireReal := append([]string{"UpdatePolicyOptions", "ValidateAuthentication", "accept-time IP filter", "rate limiting in the connection loop"}, seqReal...)
	Register(&Prop{ID: "C14", Level: "exploration",
		Rule: "one case = 1-3 clients each sending 3-12 calls drawn from all 22 NFSv3 and 6 MOUNT procedures (v1 and v3) with well-formed arguments against handles of a file, directory, symlink, root, a never-issued and a stale handle, or arguments truncated at a 4-byte boundary, replaced by garbage, with a length word overwritten by 2^31/2^32-1/limit+1, or with trailing words; unknown programs, versions, procedures and credential flavors; under a drawn initial policy (read-only, rate limiting with per-client burst 1, or rate limiting with generous request limits and per-operation limits of 1/s for MNT, READDIR and large I/O with those calls repeated) and, in 60% of runs, a backend call stalled for 30 ms-6 s with a policy update issued on top of it (so arriving calls hit the drain window), in 35% of runs 1-3 backend errors (EIO/ENOSPC/EACCES on a drawn or on any backend operation, once or repeating) so that the failure arms of the procedures are produced from real backend errors, random scheduler, optional stream segmentation; monitor on every reply: strict RFC 1831 reply decode, XID echo, and strict decode of the result as the RFC 1813 / MOUNT result type of its procedure and status (nfsstat3 / mountstat3 membership, exact consumption); the same monitor runs in every other server-level check; 10% of the cases are a run of CREATE/MKDIR/SYMLINK/RENAME/REMOVE/RMDIR calls in the export root (half of the names exist) with one or two lstat/stat failures at a drawn position 1-40, so that every failure arm of the multi-step procedures is reached in turn; non-trivial = every run (at least one reply decoded); distinct by event digest",
		Gen:  genC14, New: func() any { return &WireScn{} }, Run: runWire, Shrink: shrinkWire, Real: wireReal, Stubbed: seqStubbed})
	Register(&Prop{ID: "C15", Level: "exploration",
		Rule: "one case = 1-3 hostile connections each performing 2-7 actions from {valid call, two calls back to back, call split into up to 60 fragments incl. empty ones, two messages in one record, single bit flip, random bytes, fragment header declaring 2^31-1 bytes, credential length 2^32-1, truncated record followed by close, a record of 5-12 fragments of 512 KiB whose first fragment is a complete valid call (must be refused, never answered), READDIR/READDIRPLUS with cookies >= 2^63, 3-6 pipelined calls in one write}, under no, strict or per-operation rate limiting, plus one well-behaved probe connection, all interleaved by the random scheduler with arbitrary transport segmentation; network faults on half of the hostile connections: a client that pipelines 20-80 calls behind a 256-4096 byte window and does not read for 1-100 s (the server's writes block; what it reads afterwards must be an in-order duplicate-free prefix of the answers), client->server or server->client streams cut after 1-400 bytes (mid-record, mid-reply; lost replies on such a connection are not held against the server); oracle: no panic escapes any goroutine; every well-formed call is answered once, in order, with its XID (also on the probe connection afterwards); after an undecodable stream the server closes the connection within its read timeout (75 simulated s); runtime TotalAlloc growth while the server digests a hostile message stays below 8 MiB (judged in runs without megabyte-sized client traffic); after the last call nothing more arrives (a call is answered at most once); replies that do come decode strictly; the two-part record is cut at a drawn byte, at the start of an embedded framed payload, exactly between two fragments of the record, or inside the four bytes of the record mark; non-trivial = every run; distinct by event digest",
		Gen:  genC15, New: func() any { return &WireScn{} }, Run: runWire, Shrink: shrinkWire, Real: wireReal, Stubbed: seqStubbed})
	Register(&Prop{ID: "C09", Level: "exploration",
		Rule: "one case = one client from one of 9 peer addresses (IPv4, IPv6, IPv4-mapped, loopback; ports either side of 1024) sending 3-10 well-formed calls of any program/procedure to a server whose AllowedIPs is one of 14 lists (single addresses, CIDRs of prefix length 0,1,8,24,30,31,32,33(malformed), IPv6, IPv4-mapped, malformed entries, lists in which every entry is malformed, single IPv6 hosts) with Secure on/off, optionally switched to another such policy at runtime on the live connection through UpdatePolicyOptions or UpdateExportOptions; oracle: independent membership function (bit arithmetic over the normalised address); a peer excluded by every policy possibly in force gets MSG_DENIED (or is disconnected at accept time) and causes no backend call; a peer admitted by every such policy is never denied; 30% of the cases are the lock-out motif: 2-3 clients, all admitted at first, keep sending GETATTR/LOOKUP/ACCESS/READ/READDIR(PLUS) calls (2-5 workers, optional backend stall of 2 ms-1.1 s, every interleaving incl. the windows after each unlock decided by the seeded scheduler) while the administrator installs an allow-list (or the secure-port rule) that excludes every one of them - requests overlapping the update may be judged by either policy, but once the update has returned no backend call begins any more; non-trivial = every run; distinct by event digest. The input space (addresses x lists) is sampled.",
		Gen:  genC09, New: func() any { return &WireScn{} }, Run: runWire, Shrink: shrinkWire, Real: wireReal, Stubbed: seqStubbed})
	Register(&Prop{ID: "C08", Level: "exploration",
		Rule: "one case = 1-3 clients sending 4-13 calls biased to the 11 mutating procedures (well-formed, truncated, garbage and oversize arguments, arbitrary credentials) while an admin toggles ReadOnly 1-3 times at drawn instants, with a backend call stalled so that the switch lands inside a request, every interleaving decided by the random scheduler; monitors: no modifying backend call (write-mode open, write, truncate, create, remove, rename, mkdir, symlink, chmod, chown, chtimes) BEGINS while the read-only policy is certainly in force (from the return of update(ReadOnly=true) to the call of the next update); every mutating procedure sent and answered inside such an interval fails; ACCESS grants none of MODIFY/EXTEND/DELETE there; also evaluated for read-only set at construction; half of the time-out motif runs shorten the per-procedure time-outs (150-400 ms) instead and stall a data-path backend call (open for writing, WriteAt, Sync, Create, Truncate) for 2-6 s while the switch to read-only is made; non-trivial = every run; distinct by event digest",
		Gen:  genC08, New: func() any { return &WireScn{} }, Run: runWire, Shrink: shrinkWire, Real: wireReal, Stubbed: seqStubbed})
}
