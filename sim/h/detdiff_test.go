package h

import (
	"fmt"
	"os"
	"testing"

	"verif/sim/simrt"
)

// TestDetDiff (debug aid): VERIF_DETDIFF=<prop> VERIF_SEED=<n> VERIF_RUNS=<k> runs k scenarios twice with
// tracing and prints the first diverging event/decision.
func TestDetDiff(t *testing.T) {
	id := os.Getenv("VERIF_DETDIFF")
	if id == "" {
		t.Skip()
	}
	p := registry[id]
	base := envU64("VERIF_SEED", 1)
	n := envInt("VERIF_RUNS", 50)
	for i := 0; i < n; i++ {
		seed := simrt.Hash(base, propSeedWord(id), 0, uint64(i))
		sc := p.Gen(simrt.NewRand(seed), "quick")
		o1 := p.Run(t, clone(p, sc), true)
		o2 := p.Run(t, clone(p, sc), true)
		if o1.Res == nil || o2.Res == nil || o1.Res.Digest == o2.Res.Digest {
			continue
		}
		fmt.Printf("MISMATCH i=%d seed=%d steps %d vs %d\n", i, seed, o1.Res.Steps, o2.Res.Steps)
		e1, e2 := o1.Res.Events, o2.Res.Events
		for k := 0; k < len(e1) && k < len(e2); k++ {
			if e1[k] != e2[k] {
				fmt.Printf(" event %d:\n  A %v\n  B %v\n", k, e1[k], e2[k])
				break
			}
		}
		d1, d2 := o1.Res.Decisions, o2.Res.Decisions
		for k := 0; k < len(d1) && k < len(d2); k++ {
			if d1[k] != d2[k] {
				lo := k - 3
				if lo < 0 {
					lo = 0
				}
				fmt.Printf(" decision %d:\n  A %v\n  B %v\n", k, d1[lo:k+1], d2[lo:k+1])
				break
			}
		}
		fmt.Printf(" lens events %d/%d decisions %d/%d\n", len(e1), len(e2), len(d1), len(d2))
		return
	}
	fmt.Println("no mismatch")
}
