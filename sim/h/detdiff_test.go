package h

import (
	"encoding/json"
	"fmt"
	"os"
	"testing"
	"verif/sim/simfs"

	"verif/sim/simrt"
)

// TestDetDiff (debug aid): VERIF_DETDIFF=<prop> VERIF_SEED=<n> VERIF_RUNS=<k> runs k scenarios twice with
// tracing and prints the first diverging event/decision.
func TestDetDiff(t *testing.T) {
	id := os.Getenv("VERIF_DETDIFF")
	if id == "" {
		t.Skip()
	}
	p := registry[id]
	base := envU64("VERIF_SEED", 1)
	n := envInt("VERIF_RUNS", 50)
	for i := 0; i < n; i++ {
		seed := simrt.Hash(base, propSeedWord(id), 0, uint64(i))
		sc := p.Gen(simrt.NewRand(seed), "quick")
		o1 := p.Run(t, clone(p, sc), true)
		o2 := p.Run(t, clone(p, sc), true)
		if o1.Res == nil || o2.Res == nil || o1.Res.Digest == o2.Res.Digest {
			continue
		}
		fmt.Printf("MISMATCH i=%d seed=%d steps %d vs %d\n", i, seed, o1.Res.Steps, o2.Res.Steps)
		e1, e2 := o1.Res.Events, o2.Res.Events
		for k := 0; k < len(e1) && k < len(e2); k++ {
			if e1[k] != e2[k] {
				fmt.Printf(" event %d:\n  A %v\n  B %v\n", k, e1[k], e2[k])
				break
			}
		}
		d1, d2 := o1.Res.Decisions, o2.Res.Decisions
		for k := 0; k < len(d1) && k < len(d2); k++ {
			if d1[k] != d2[k] {
				lo := k - 3
				if lo < 0 {
					lo = 0
				}
				fmt.Printf(" decision %d:\n  A %v\n  B %v\n", k, d1[lo:k+1], d2[lo:k+1])
				break
			}
		}
		fmt.Printf(" lens events %d/%d decisions %d/%d\n", len(e1), len(e2), len(d1), len(d2))
		return
	}
	fmt.Println("no mismatch")
}

// TestTraceReplay (debug aid): VERIF_TRACE_REPLAY=<replay or scenario file> VERIF_PROP=<id> prints the event log.
func TestTraceReplay(t *testing.T) {
	f := os.Getenv("VERIF_TRACE_REPLAY")
	if f == "" {
		t.Skip()
	}
	p := registry[os.Getenv("VERIF_PROP")]
	simfs.TraceCalls = os.Getenv("VERIF_TRACE_FS") != ""
	b, err := os.ReadFile(f)
	if err != nil {
		t.Fatal(err)
	}
	var rf ReplayFile
	if err := json.Unmarshal(b, &rf); err != nil {
		t.Fatal(err)
	}
	sc := p.New()
	if err := json.Unmarshal(rf.Scenario, sc); err != nil {
		t.Fatal(err)
	}
	o := p.Run(t, sc, true)
	if o.Res != nil {
		for _, e := range o.Res.Events {
			fmt.Println(e)
		}
	}
	for _, v := range o.Violations {
		fmt.Println("VIOLATION", v.Signature, v.Detail)
	}
	fmt.Println("inconclusive:", o.Inconclusive)
}
