package h

import (
	"fmt"
	"os"
	"sort"
	"strings"
	"testing"
	"time"

	"github.com/absfs/absnfs"
	"github.com/anishathalye/porcupine"

	"verif/sim/simrt"
)

// C21: attribute and directory caches as bounded TTL-LRU maps, driven directly.

var cacheKeys = []string{"/", "/a", "/b", "/a/x", "/a/y", "/b/x", "/a/x/p", "/a/x/q", "/ab", "/a/xy"}

type CacheOp struct {
	Op   string `json:"op"` // put putneg get inval invalneg resize ttl clear negcfg sleep
	Key  int    `json:"key,omitempty"`
	Val  int64  `json:"val,omitempty"`
	N    int    `json:"n,omitempty"`
	DtNs int64  `json:"dt_ns,omitempty"`
	On   bool   `json:"on,omitempty"`
}

type CacheScn struct {
	Target  string      `json:"target"` // attr | dir
	Cap     int         `json:"cap"`
	TTLNs   int64       `json:"ttl_ns"`
	NegOn   bool        `json:"neg_on"`
	NegTTL  int64       `json:"neg_ttl_ns"`
	MaxDir  int         `json:"max_dir,omitempty"`
	Ops     []CacheOp   `json:"ops,omitempty"`
	Threads [][]CacheOp `json:"threads,omitempty"` // concurrent variant
	// concurrent variant with expiry: Pre is applied sequentially first, then PreSleepNs pass on the fake
	// clock (chosen beyond the TTL so that the clients meet expired entries), then the clients start
	Pre        []CacheOp `json:"pre,omitempty"`
	PreSleepNs int64     `json:"pre_sleep_ns,omitempty"`
	Sched      SchedCfg  `json:"sched"`
}

// ---- exact reference: lazy-expiry TTL-LRU (expired entries stay until looked up) ----

type cEntry struct {
	key    string
	val    int64
	neg    bool
	expire time.Duration
}

type cModel struct {
	cap     int
	ttl     time.Duration
	negTTL  time.Duration
	negOn   bool
	maxDir  int
	entries []cEntry // index 0 = most recently used
}

func (m *cModel) find(k string) int {
	for i := range m.entries {
		if m.entries[i].key == k {
			return i
		}
	}
	return -1
}

func (m *cModel) touch(i int) {
	e := m.entries[i]
	copy(m.entries[1:i+1], m.entries[:i])
	m.entries[0] = e
}

func (m *cModel) remove(i int) { m.entries = append(m.entries[:i], m.entries[i+1:]...) }

func (m *cModel) put(k string, val int64, neg bool, now time.Duration, ttl time.Duration) {
	if i := m.find(k); i >= 0 {
		m.entries[i] = cEntry{k, val, neg, now + ttl}
		m.touch(i)
		return
	}
	if len(m.entries) >= m.cap && len(m.entries) > 0 {
		m.entries = m.entries[:len(m.entries)-1]
	}
	m.entries = append([]cEntry{{k, val, neg, now + ttl}}, m.entries...)
}

// get returns (val, neg, hit)
func (m *cModel) get(k string, now time.Duration, attr bool) (int64, bool, bool) {
	i := m.find(k)
	if i < 0 {
		return 0, false, false
	}
	e := m.entries[i]
	live := now < e.expire
	if !attr {
		live = now <= e.expire
	}
	if !live {
		m.remove(i)
		return 0, false, false
	}
	m.touch(i)
	return e.val, e.neg, true
}

func (m *cModel) clone() *cModel {
	n := *m
	n.entries = append([]cEntry(nil), m.entries...)
	return &n
}

func isDirectChild(p, dir string) bool {
	if p == "/" || p == dir {
		return false
	}
	pre := dir
	if pre != "/" {
		pre += "/"
	}
	return strings.HasPrefix(p, pre) && !strings.Contains(p[len(pre):], "/") && len(p) > len(pre)
}

// ---- driving the real caches ----

type fakeInfo struct {
	name string
	size int64
}

func (f fakeInfo) Name() string       { return f.name }
func (f fakeInfo) Size() int64        { return f.size }
func (f fakeInfo) Mode() os.FileMode  { return 0o644 }
func (f fakeInfo) ModTime() time.Time { return time.Time{} }
func (f fakeInfo) IsDir() bool        { return false }
func (f fakeInfo) Sys() any           { return nil }

type cacheDriver struct {
	attr *absnfs.AttrCache
	dir  *absnfs.DirCache
}

func newCacheDriver(sc *CacheScn) *cacheDriver {
	d := &cacheDriver{}
	if sc.Target == "attr" {
		d.attr = absnfs.NewAttrCache(time.Duration(sc.TTLNs), sc.Cap)
		d.attr.ConfigureNegativeCaching(sc.NegOn, time.Duration(sc.NegTTL))
	} else {
		d.dir = absnfs.NewDirCache(time.Duration(sc.TTLNs), sc.Cap, sc.MaxDir)
	}
	return d
}

// apply executes op on the real cache; for get it returns (val, neg, hit).
func (d *cacheDriver) apply(op CacheOp, o *Outcome) (int64, bool, bool) {
	k := cacheKeys[op.Key%len(cacheKeys)]
	if d.attr != nil {
		switch op.Op {
		case "put":
			a := &absnfs.NFSAttrs{Mode: 0o644, Size: op.Val, FileId: uint64(op.Val), Uid: uint32(op.Val), Gid: 7}
			d.attr.Put(k, a)
			a.Size, a.Uid = -1, 99 // copy isolation: mutate the caller's struct after Put
		case "putneg":
			d.attr.PutNegative(k)
		case "get":
			a, found := d.attr.Get(k)
			if !found {
				return 0, false, false
			}
			if a == nil {
				return 0, true, true
			}
			v := a.Size
			if uint64(v) != a.FileId || uint32(v) != a.Uid || a.Gid != 7 {
				o.Vio("C21.torn-or-aliased-value", "target=attr", "Get(%s) returned size=%d fileid=%d uid=%d gid=%d: not a value that was ever stored", k, a.Size, a.FileId, a.Uid, a.Gid)
			}
			a.Size, a.FileId = -2, 12345 // copy isolation: mutate the returned struct
			return v, false, true
		case "inval":
			d.attr.Invalidate(k)
		case "invalneg":
			d.attr.InvalidateNegativeInDir(k)
		case "resize":
			d.attr.Resize(op.N)
		case "ttl":
			d.attr.UpdateTTL(time.Duration(op.DtNs))
		case "clear":
			d.attr.Clear()
		case "negcfg":
			d.attr.ConfigureNegativeCaching(op.On, time.Duration(op.DtNs))
		}
		return 0, false, false
	}
	switch op.Op {
	case "put":
		n := op.N
		list := make([]os.FileInfo, n)
		for i := range list {
			list[i] = fakeInfo{fmt.Sprintf("e%d", i), op.Val}
		}
		d.dir.Put(k, list)
		if n > 0 {
			list[0] = fakeInfo{"mutated", -1}
		}
	case "get":
		l, ok := d.dir.Get(k)
		if !ok {
			return 0, false, false
		}
		v := int64(-7)
		for i, fi := range l {
			if i == 0 {
				v = fi.Size()
			}
			if fi.Size() != v || fi.Name() != fmt.Sprintf("e%d", i) {
				o.Vio("C21.torn-or-aliased-value", "target=dir", "Get(%s) returned a listing that was never stored (entry %d = %s/%d)", k, i, fi.Name(), fi.Size())
			}
		}
		if len(l) > 0 {
			l[0] = fakeInfo{"mutated-by-reader", -3}
		}
		return v*1000 + int64(len(l)), false, true
	case "inval":
		d.dir.Invalidate(k)
	case "resize":
		d.dir.Resize(op.N)
	case "ttl":
		d.dir.UpdateTTL(time.Duration(op.DtNs))
	case "clear":
		d.dir.Clear()
	}
	return 0, false, false
}

func (d *cacheDriver) size() int {
	if d.attr != nil {
		return d.attr.Size()
	}
	return d.dir.Size()
}

// modelApply mirrors op on the reference; for get it returns the reference answer.
func modelApply(m *cModel, op CacheOp, now time.Duration, attr bool) (int64, bool, bool) {
	k := cacheKeys[op.Key%len(cacheKeys)]
	switch op.Op {
	case "put":
		if attr {
			m.put(k, op.Val, false, now, m.ttl)
		} else if op.N <= m.maxDir {
			m.put(k, op.Val*1000+int64(op.N), false, now, m.ttl)
			if op.N == 0 {
				m.entries[0].val = -7*1000 + 0
			}
		}
	case "putneg":
		if attr && m.negOn {
			m.put(k, 0, true, now, m.negTTL)
		}
	case "get":
		return m.get(k, now, attr)
	case "inval":
		if i := m.find(k); i >= 0 {
			m.remove(i)
		}
	case "invalneg":
		for i := 0; i < len(m.entries); {
			if m.entries[i].neg && isDirectChild(m.entries[i].key, k) {
				m.remove(i)
			} else {
				i++
			}
		}
	case "resize":
		n := op.N
		if n <= 0 {
			if attr {
				n = 10000
			} else {
				n = 1000
			}
		}
		m.cap = n
		for len(m.entries) > m.cap {
			m.entries = m.entries[:len(m.entries)-1]
		}
	case "ttl":
		if op.DtNs > 0 {
			m.ttl = time.Duration(op.DtNs)
		} else if attr {
			m.ttl = 5 * time.Second
		} else {
			m.ttl = 10 * time.Second
		}
	case "clear":
		m.entries = nil
	case "negcfg":
		m.negOn = op.On
		if op.DtNs > 0 {
			m.negTTL = time.Duration(op.DtNs)
		}
		if !op.On {
			for i := 0; i < len(m.entries); {
				if m.entries[i].neg {
					m.remove(i)
				} else {
					i++
				}
			}
		}
	}
	return 0, false, false
}

func newCModel(sc *CacheScn) *cModel {
	m := &cModel{cap: sc.Cap, ttl: time.Duration(sc.TTLNs), negTTL: time.Duration(sc.NegTTL), negOn: sc.NegOn, maxDir: sc.MaxDir}
	if sc.Target == "attr" {
		if m.cap <= 0 {
			m.cap = 10000
		}
		if m.negTTL <= 0 {
			m.negTTL = 5 * time.Second
		}
	} else {
		if m.cap <= 0 {
			m.cap = 1000
		}
		if m.maxDir <= 0 {
			m.maxDir = 10000
		}
		if m.ttl <= 0 {
			m.ttl = 10 * time.Second
		}
	}
	return m
}

func runCache(t *testing.T, scAny any, trace bool) *Outcome {
	sc := scAny.(*CacheScn)
	o := &Outcome{}
	attr := sc.Target == "attr"
	res := Bubble(t, sc.Sched.config(trace), nil, func() {
		simrt.Event("scenario %x", simrt.Hash(hashBytes(mustJSON(sc))))
		d := newCacheDriver(sc)
		m := newCModel(sc)
		if len(sc.Threads) > 0 {
			simrt.Probe("run_class.concurrent")
			if len(sc.Pre) > 0 {
				simrt.Probe("run_class.concurrent_with_expired_entries")
			}
			runCacheConcurrent(o, sc, d, m, attr)
			return
		}
		simrt.Probe("run_class.sequential")
		o.NonTrivial = len(sc.Ops) >= 3
		start := simrt.Now()
		for i, op := range sc.Ops {
			if op.Op == "sleep" {
				// never land exactly on an expiry instant (the property does not say
				// which side of the boundary an entry is on); holds under shrinking too
				dt := time.Duration(op.DtNs)
				for again := true; again; {
					again = false
					for _, e := range m.entries {
						if e.expire == simrt.Now()-start+dt {
							dt++
							again = true
						}
					}
				}
				simrt.Sleep(dt)
				continue
			}
			now := simrt.Now() - start
			gv, gneg, ghit := d.apply(op, o)
			mv, mneg, mhit := modelApply(m, op, now, attr)
			o.Checks++
			if op.Op == "get" {
				k := cacheKeys[op.Key%len(cacheKeys)]
				switch {
				case ghit != mhit:
					kind := "spurious-hit"
					if mhit {
						kind = "lost-entry"
					}
					o.Vio("C21."+kind, "target="+sc.Target, "op %d: Get(%s) hit=%v, the bounded TTL-LRU reference says hit=%v (cap %d, %d entries)", i, k, ghit, mhit, m.cap, len(m.entries))
					// realign the reference with what the cache answered
					if ghit {
						m.put(k, gv, gneg, now, time.Hour)
					} else if j := m.find(k); j >= 0 {
						m.remove(j)
					}
				case ghit && gneg != mneg:
					o.Vio("C21.negative-mismatch", "target="+sc.Target, "op %d: Get(%s) negative=%v, reference says %v", i, k, gneg, mneg)
				case ghit && !gneg && gv != mv:
					o.Vio("C21.stale-or-foreign-value", "target="+sc.Target, "op %d: Get(%s) returned value %d, the most recent value stored is %d", i, k, gv, mv)
				}
				if ghit && gneg && !m.negOn {
					o.Vio("C21.negative-hit-while-disabled", "", "op %d: Get(%s) is a negative hit although negative caching is disabled", i, k)
				}
			}
			if sz := d.size(); sz > m.cap {
				o.Vio("C21.capacity-exceeded", "target="+sc.Target, "op %d (%s): cache holds %d entries, capacity %d", i, op.Op, sz, m.cap)
			}
		}
	})
	o.finish(res, "C21")
	return o
}

// ---- concurrent variant: linearizability against the exact reference ----

type cacheIn struct {
	op  CacheOp
	now time.Duration
}
type cacheOut struct {
	val int64
	neg bool
	hit bool
}

func runCacheConcurrent(o *Outcome, sc *CacheScn, d *cacheDriver, m *cModel, attr bool) {
	var ops []porcupine.Operation
	start := simrt.Now()
	for _, op := range sc.Pre {
		d.apply(op, o)
		modelApply(m, op, simrt.Now()-start, attr)
	}
	if sc.PreSleepNs > 0 {
		dt := time.Duration(sc.PreSleepNs)
		for again := true; again; {
			again = false
			for _, e := range m.entries {
				if e.expire == simrt.Now()-start+dt {
					dt++
					again = true
				}
			}
		}
		simrt.Sleep(dt)
	}
	// no time passes while the clients run: one instant for the whole concurrent phase
	phase := simrt.Now() - start
	done := make(chan []porcupine.Operation, len(sc.Threads))
	for ti, th := range sc.Threads {
		ti, th := ti, th
		simrt.Go(fmt.Sprintf("cache-client-%d", ti), func() {
			var mine []porcupine.Operation
			for _, op := range th {
				call := simrt.Stamp()
				v, neg, hit := d.apply(op, o)
				ret := simrt.Stamp()
				mine = append(mine, porcupine.Operation{ClientId: ti, Input: cacheIn{op, phase}, Call: call, Output: cacheOut{v, neg, hit}, Return: ret})
			}
			simrt.Send("cache.done", done, mine)
		})
	}
	total := 0
	for range sc.Threads {
		ops = append(ops, simrt.Recv("cache.wait", done)...)
	}
	for _, th := range sc.Threads {
		total += len(th)
	}
	o.NonTrivial = total >= 4
	model := porcupine.Model{
		Init: func() any { return m.clone() },
		Step: func(state, in, out any) (bool, any) {
			st := state.(*cModel).clone()
			i, ou := in.(cacheIn), out.(cacheOut)
			v, neg, hit := modelApply(st, i.op, i.now, attr)
			if i.op.Op == "get" {
				if hit != ou.hit || (hit && (neg != ou.neg || (!neg && v != ou.val))) {
					return false, state
				}
			}
			return true, st
		},
		Equal: func(a, b any) bool {
			x, y := a.(*cModel), b.(*cModel)
			if x.cap != y.cap || x.negOn != y.negOn || len(x.entries) != len(y.entries) {
				return false
			}
			for i := range x.entries {
				if x.entries[i] != y.entries[i] {
					return false
				}
			}
			return true
		},
		DescribeOperation: func(in, out any) string {
			return fmt.Sprintf("%+v -> %+v", in.(cacheIn).op, out)
		},
	}
	// relaxed reference used only to classify a failure: a hit may or may not refresh recency
	stateEq := model.Equal
	relaxed := (&porcupine.NondeterministicModel{
		Init: func() []any { return []any{m.clone()} },
		Step: func(state, in, out any) []any {
			i, ou := in.(cacheIn), out.(cacheOut)
			st := state.(*cModel).clone()
			if i.op.Op != "get" {
				modelApply(st, i.op, 0, attr)
				return []any{st}
			}
			k := cacheKeys[i.op.Key%len(cacheKeys)]
			idx := st.find(k)
			if idx < 0 {
				if ou.hit {
					return nil
				}
				return []any{st}
			}
			e := st.entries[idx]
			if !ou.hit || ou.neg != e.neg || (!e.neg && ou.val != e.val) {
				return nil
			}
			bumped := st.clone()
			bumped.touch(idx)
			return []any{st, bumped}
		},
		Equal: stateEq,
	}).ToModel()
	o.Checks++
	switch porcupine.CheckOperationsTimeout(model, ops, 20*time.Second) {
	case porcupine.Illegal:
		var desc []string
		sort.Slice(ops, func(i, j int) bool { return ops[i].Call < ops[j].Call })
		for _, op := range ops {
			desc = append(desc, fmt.Sprintf("c%d[%d,%d] %s", op.ClientId, op.Call, op.Return, model.DescribeOperation(op.Input, op.Output)))
		}
		cause := "cause=other"
		if porcupine.CheckOperationsTimeout(relaxed, ops, 20*time.Second) == porcupine.Ok {
			cause = "cause=hit-does-not-refresh-recency-atomically"
		}
		o.Vio("C21.not-linearizable", "target="+sc.Target+","+cause, "concurrent history is not linearizable w.r.t. the TTL-LRU reference (%s):\n%s", cause, strings.Join(desc, "\n"))
	case porcupine.Unknown:
		simrt.Probe("porcupine_timeout")
	}
	if sz := d.size(); sz > m.cap && m.cap > 0 {
		// capacity may have been resized concurrently; compare with the largest capacity ever configured
		maxCap := sc.Cap
		for _, th := range sc.Threads {
			for _, op := range th {
				if op.Op == "resize" && op.N > maxCap {
					maxCap = op.N
				}
				if op.Op == "resize" && op.N <= 0 {
					maxCap = 10000 // documented default for an invalid size
				}
			}
		}
		if sz > maxCap {
			o.Vio("C21.capacity-exceeded", "target="+sc.Target+",concurrent", "cache holds %d entries, largest capacity configured %d", sz, maxCap)
		}
	}
}

func genCacheOp(r *simrt.Rand, attr bool, val *int64, ttl int64) CacheOp {
	k := r.Int(len(cacheKeys))
	*val++
	if attr {
		switch r.Pick([]int{30, 10, 35, 6, 6, 3, 3, 2, 3}) {
		case 0:
			return CacheOp{Op: "put", Key: k, Val: *val}
		case 1:
			return CacheOp{Op: "putneg", Key: k}
		case 2:
			return CacheOp{Op: "get", Key: k}
		case 3:
			return CacheOp{Op: "inval", Key: k}
		case 4:
			return CacheOp{Op: "invalneg", Key: []int{0, 1, 2, 3}[r.Int(4)]}
		case 5:
			return CacheOp{Op: "resize", N: []int{1, 2, 3, 5, 8, 0}[r.Int(6)]}
		case 6:
			return CacheOp{Op: "ttl", DtNs: []int64{ttl, ttl * 3, ttl/2 + 1, 0}[r.Int(4)]}
		case 7:
			return CacheOp{Op: "clear"}
		default:
			return CacheOp{Op: "negcfg", On: r.Pct(60), DtNs: []int64{0, ttl, ttl * 2}[r.Int(3)]}
		}
	}
	switch r.Pick([]int{35, 40, 8, 5, 4, 3}) {
	case 0:
		return CacheOp{Op: "put", Key: k, Val: *val, N: []int{0, 1, 2, 3, 5, 9}[r.Int(6)]}
	case 1:
		return CacheOp{Op: "get", Key: k}
	case 2:
		return CacheOp{Op: "inval", Key: k}
	case 3:
		return CacheOp{Op: "resize", N: []int{1, 2, 3, 5, 0}[r.Int(5)]}
	case 4:
		return CacheOp{Op: "ttl", DtNs: []int64{ttl, ttl * 3, 0}[r.Int(3)]}
	default:
		return CacheOp{Op: "clear"}
	}
}

func genC21(r *simrt.Rand, tier string) any {
	sc := &CacheScn{Target: []string{"attr", "dir"}[r.Int(2)], Cap: 1 + r.Int(8), TTLNs: []int64{1, 1000, 1e6, 1e9, 5e9, 3600e9}[r.Int(6)],
		NegOn: r.Pct(60), NegTTL: []int64{0, 1000, 1e9, 7e9}[r.Int(4)], Sched: SeqSched(r.Uint64())}
	attr := sc.Target == "attr"
	if !attr {
		sc.MaxDir = []int{0, 1, 3, 100}[r.Int(4)]
	}
	var val int64 = 100
	if r.Pct(25) {
		// concurrent variant: 2-3 clients, <= 12 operations in total
		sc.Sched = RandSched(r)
		sc.TTLNs = 3600e9
		sc.NegTTL = 3600e9
		nth := 2 + r.Int(2)
		left := 12
		for i := 0; i < nth; i++ {
			n := 1 + r.Int(4)
			if n > left {
				n = left
			}
			left -= n
			var th []CacheOp
			for j := 0; j < n; j++ {
				op := genCacheOp(r, attr, &val, sc.TTLNs)
				op.Key = op.Key % 4 // few keys so that clients collide
				if op.Op == "ttl" || op.Op == "negcfg" {
					op = CacheOp{Op: "get", Key: op.Key}
				}
				th = append(th, op)
			}
			sc.Threads = append(sc.Threads, th)
		}
		if r.Pct(50) {
			// the clients meet entries that have just expired: a look-up that removes an expired entry races
			// with a Put that refreshes it
			sc.TTLNs = 1e9
			sc.NegTTL = 1e9
			for i, n := 0, 1+r.Int(4); i < n; i++ {
				val++
				sc.Pre = append(sc.Pre, CacheOp{Op: "put", Key: r.Int(4), Val: val, N: 1 + r.Int(3)})
			}
			sc.PreSleepNs = 2e9 + int64(r.Int(1000))
			for ti := range sc.Threads {
				for j := range sc.Threads[ti] {
					if r.Pct(40) {
						sc.Threads[ti][j] = CacheOp{Op: "get", Key: sc.Pre[r.Int(len(sc.Pre))].Key}
					} else if r.Pct(40) {
						val++
						sc.Threads[ti][j] = CacheOp{Op: "put", Key: sc.Pre[r.Int(len(sc.Pre))].Key, Val: val, N: 1 + r.Int(3)}
					}
				}
			}
		}
		return sc
	}
	n := 8 + r.Int(50)
	for i := 0; i < n; i++ {
		if r.Pct(15) {
			// never exactly on an expiry boundary: odd offsets
			sc.Ops = append(sc.Ops, CacheOp{Op: "sleep", DtNs: []int64{sc.TTLNs/2 + 1, sc.TTLNs + 3, sc.TTLNs*2 + 1, 7}[r.Int(4)]})
			continue
		}
		sc.Ops = append(sc.Ops, genCacheOp(r, attr, &val, sc.TTLNs))
	}
	sc.Sched.HorizonS = 100000000
	return sc
}

func shrinkCache(scAny any) []any {
	sc := scAny.(*CacheScn)
	var out []any
	n := len(sc.Ops)
	for chunk := n / 2; chunk >= 1; chunk /= 2 {
		for start := 0; start+chunk <= n; start += chunk {
			c := *sc
			c.Ops = append(append([]CacheOp(nil), sc.Ops[:start]...), sc.Ops[start+chunk:]...)
			out = append(out, &c)
		}
		if chunk == 1 {
			break
		}
	}
	for ti := range sc.Threads {
		for j := range sc.Threads[ti] {
			c := *sc
			c.Threads = make([][]CacheOp, len(sc.Threads))
			for k := range sc.Threads {
				c.Threads[k] = append([]CacheOp(nil), sc.Threads[k]...)
			}
			c.Threads[ti] = append(c.Threads[ti][:j], c.Threads[ti][j+1:]...)
			out = append(out, &c)
		}
	}
	return out
}

func init() {
	Register(&Prop{ID: "C21", Level: "exploration", Race: true,
		Rule: "one case = a sequence of 8-58 Put/PutNegative/Get/Invalidate/InvalidateNegativeInDir/Resize/UpdateTTL/Clear/ConfigureNegativeCaching calls and fake-clock advances (never exactly on an expiry instant) on AttrCache or DirCache with capacity 1-8 and TTL 1 ns..1 h over a 3-level key alphabet (75%), or 2-3 concurrent clients with <= 12 operations under the seeded scheduler (25%, also built with -race; in half of those 1-4 entries are stored first and the clock is advanced beyond the TTL, so that look-ups that remove an expired entry race with Puts that refresh it); oracle sequential: operation-by-operation equality with a bounded TTL-LRU reference (hit/miss, negative flag, value of the most recent Put, copy isolation by mutating stored and returned values), size <= capacity after every call, negative entries only while enabled and removed exactly for direct children; oracle concurrent: porcupine linearizability against the same reference (timeouts counted, never reported); non-trivial = >=3 sequential operations or >=4 concurrent; distinct by event digest",
		Gen:  genC21, New: func() any { return &CacheScn{} }, Run: runCache, Shrink: shrinkCache,
		Real:    []string{"AttrCache (all exported methods)", "DirCache (all exported methods)"},
		Stubbed: []string{"clock (synctest fake clock)", "sync.RWMutex (simrt equivalents)", "goroutine scheduling (simrt driver)"}})
}
