package h

import (
	"testing"
	"time"

	"github.com/absfs/absnfs"

	"verif/sim/nfsclient"
	"verif/sim/simfs"
	"verif/sim/simrt"
)

// C22: data acknowledged as stable survives a crash (fault enumeration: every
// crash point between backend operations of each sampled history).

type C22Op struct {
	Op     string `json:"op"` // WRITE COMMIT CREATE
	Off    uint64 `json:"off,omitempty"`
	Len    int    `json:"len,omitempty"`
	Stable uint32 `json:"stable,omitempty"`
	Seed   uint64 `json:"seed,omitempty"`
}

type C22Scn struct {
	Ops      []C22Op  `json:"ops"`
	InitSize int      `json:"init_size"`
	Transfer int      `json:"transfer,omitempty"`
	Torn     bool     `json:"torn"`
	SyncFail []int    `json:"sync_fail,omitempty"` // which File.Sync calls fail with EIO (1-based), injected in every crash-point run alike
	OnlyK    int      `json:"only_k,omitempty"` // replay/minimised: run only this crash point (-1 = all)
	Sched    SchedCfg `json:"sched"`
}

type c22Write struct {
	off   uint64
	data  []byte
	must  bool // acknowledged FILE_SYNC/DATA_SYNC before the crash, or covered by an acknowledged COMMIT
	acked bool
}

// c22Run executes the history with a crash after the k-th backend call (k<0: no crash).
// It returns the number of backend calls the history makes (for k<0) and records violations.
func c22Run(t *testing.T, sc *C22Scn, k int, o *Outcome, trace bool) (ncalls int, res *simrt.Result) {
	res = Bubble(t, sc.Sched.config(trace), nil, func() {
		simrt.Event("scenario %x k=%d", simrt.Hash(hashBytes(mustJSON(sc))), k)
		w := NewWorld(o)
		init := PayloadBytes(999, sc.InitSize)
		w.FS.MustWriteFile("/f", init, 0o644)
		for _, nth := range sc.SyncFail {
			w.FS.AddFault(simfs.Fault{Op: "File.Sync", Nth: nth, Kind: "eio"})
		}
		opts := absnfs.ExportOptions{MaxWorkers: 1, TransferSize: sc.Transfer, AttrCacheTimeout: time.Millisecond}
		if err := w.Start(opts); err != nil {
			o.Inconclusive = "start: " + err.Error()
			return
		}
		cl, err := w.Dial("10.0.0.7:900", RootCred, nil)
		if err != nil {
			o.Inconclusive = "dial"
			return
		}
		root, _, err := cl.Mount("/")
		if err != nil {
			o.Inconclusive = "mount"
			return
		}
		lr, err := cl.Lookup(root, "f")
		if err != nil || lr.Status != 0 {
			o.Inconclusive = "lookup"
			return
		}
		fh := lr.FH
		base := w.FS.Completed()
		if k >= 0 {
			w.FS.ArmCrash(k+0, sc.Torn, simrt.NewRand(uint64(k)*7919+sc.Sched.Seed))
			if k == 0 {
				// crash before the first backend call of the history
				w.FS.Crash(sc.Torn, simrt.NewRand(sc.Sched.Seed))
			}
		}
		var writes []*c22Write
		var verfs [][8]byte
		for _, op := range sc.Ops {
			simrt.Sleep(time.Millisecond)
			switch op.Op {
			case "WRITE":
				data := PayloadBytes(op.Seed, op.Len)
				wr := &c22Write{off: op.Off, data: data}
				writes = append(writes, wr)
				res, err := cl.Write(fh, op.Off, op.Stable, data)
				if err != nil || res.Status != 0 {
					continue
				}
				wr.acked = true
				wr.data = data[:res.Count] // only the acknowledged prefix is promised
				if int(res.Count) < len(data) {
					// the rest was never accepted: a separate, unacknowledged candidate
					writes = append(writes, &c22Write{off: op.Off + uint64(res.Count), data: data[res.Count:]})
				}
				if res.Committed == nfsclient.FileSync || res.Committed == nfsclient.DataSync {
					wr.must = true
				}
				verfs = append(verfs, res.Verf)
			case "COMMIT":
				r0, _, err := cl.NFS(nfsclient.NFSProcCommit, nfsclient.ArgsCommit(fh, 0, 0))
				if err != nil || r0 == nil {
					continue
				}
				cr := r0.(*nfsclient.CommitRes)
				if cr.Status != 0 {
					continue
				}
				for _, wr := range writes {
					if wr.acked {
						wr.must = true
					}
				}
				verfs = append(verfs, cr.Verf)
			case "CREATE":
				cl.Create(root, "other", 0, nfsclient.Sattr3{}, [8]byte{})
			}
		}
		ncalls = w.FS.Completed() - base
		o.Tick()
		for i := 1; i < len(verfs); i++ {
			if verfs[i] != verfs[0] {
				o.Vio("C22.verifier-changed-within-instance", "", "write verifier changed from %x to %x within one server instance", verfs[0], verfs[i])
			}
		}
		if k < 0 {
			cl.Close()
			w.Stop()
			return
		}
		crashed := w.FS.Crashed
		cl.Close()
		w.Stop()
		if !crashed {
			// the history finished before the k-th call: crash now (everything acknowledged must survive)
			w.FS.Crash(sc.Torn, simrt.NewRand(sc.Sched.Seed+1))
		}
		// restart on the durable state after a restart gap
		simrt.Sleep(5 * time.Millisecond)
		w2 := &World{O: o, FS: w.FS}
		w2.xid.Store(5000)
		if err := w2.Start(opts); err != nil {
			o.Inconclusive = "restart: " + err.Error()
			return
		}
		defer w2.Stop()
		if len(verfs) > 0 && absnfs.VerifWriteVerf(w2.Srv) == verfs[0] {
			o.Vio("C22.verifier-not-changed-by-restart", "", "the restarted instance uses the same write verifier %x", verfs[0])
		}
		// read back the durable content directly from the backend and through the new instance
		size, ext, _ := w.FS.Extents("/f")
		content := func(p uint64) (byte, bool) {
			if int64(p) >= size {
				return 0, false
			}
			for _, e := range ext {
				if p >= uint64(e.Off) && p < uint64(e.Off)+uint64(len(e.Data)) {
					return e.Data[p-uint64(e.Off)], true
				}
			}
			return 0, true
		}
		initial := func(p uint64) (byte, bool) {
			if p < uint64(len(init)) {
				return init[p], true
			}
			return 0, false
		}
		// per byte position touched by any write: the set of allowed values
		o.Tick()
		checked := map[uint64]bool{}
		for wi, wr := range writes {
			for j := range wr.data {
				p := wr.off + uint64(j)
				if checked[p] {
					continue
				}
				checked[p] = true
				// last promised value at p, and every candidate written after it
				var must *byte
				var cands []byte
				if b, ok := initial(p); ok {
					cands = append(cands, b)
				} else {
					cands = append(cands, 0)
				}
				for _, x := range writes {
					if p >= x.off && p < x.off+uint64(len(x.data)) {
						v := x.data[p-x.off]
						if x.must {
							vv := v
							must = &vv
							cands = cands[:0]
						}
						cands = append(cands, v)
					}
				}
				got, present := content(p)
				if must != nil && !present {
					o.Vio("C22.acked-stable-data-lost", "kind=file-too-short", "crash point %d (torn=%v): byte %d was acknowledged as stable (write #%d) but the file is only %d bytes after the crash", k, sc.Torn, p, wi, size)
					return
				}
				if !present {
					continue
				}
				okv := false
				for _, c := range cands {
					if c == got {
						okv = true
					}
				}
				if !okv {
					if must != nil {
						o.Vio("C22.acked-stable-data-lost", "kind=wrong-bytes", "crash point %d (torn=%v): byte %d holds %#x after the crash; it was acknowledged as stable with %#x (allowed: %x)", k, sc.Torn, p, got, *must, cands)
					} else {
						o.Vio("C22.garbage-after-crash", "", "crash point %d (torn=%v): byte %d holds %#x, neither old nor any written value (%x)", k, sc.Torn, p, got, cands)
					}
					return
				}
			}
		}
	})
	return ncalls, res
}

func runC22(t *testing.T, scAny any, trace bool) *Outcome {
	sc := scAny.(*C22Scn)
	o := &Outcome{}
	n, res := c22Run(t, sc, -1, o, trace)
	if o.Inconclusive != "" || res == nil {
		o.finish(res, "C22")
		return o
	}
	points := 0
	var digest uint64
	steps := 0
	for k := 0; k <= n+1; k++ {
		if sc.OnlyK > 0 && k != sc.OnlyK-1 {
			continue
		}
		_, r := c22Run(t, sc, k, o, trace)
		points++
		if r != nil {
			digest = digest*1099511628211 ^ r.Digest
			steps += r.Steps
			for f, c := range r.Faults {
				res.Faults[f] += c
			}
		}
		if len(o.Violations) > 0 && sc.OnlyK == 0 {
			break
		}
	}
	res.Digest ^= digest
	res.Steps += steps
	if res.Probes == nil {
		res.Probes = map[string]int{}
	}
	res.Probes["crash_points_enumerated"] += points
	o.NonTrivial = n > 0
	o.finish(res, "C22")
	return o
}

func genC22(r *simrt.Rand, tier string) any {
	sc := &C22Scn{InitSize: []int{0, 10, 5000}[r.Int(3)], Transfer: []int{0, 16, 4096}[r.Int(3)], Torn: r.Pct(50), Sched: SeqSched(r.Uint64())}
	n := 1 + r.Int(6)
	for i := 0; i < n; i++ {
		switch r.Pick([]int{65, 25, 10}) {
		case 0:
			sc.Ops = append(sc.Ops, C22Op{Op: "WRITE", Off: uint64([]int{0, 0, 5, 4090, 4096, 9000}[r.Int(6)]), Len: []int{1, 10, 16, 17, 100, 5000}[r.Int(6)], Stable: uint32(r.Int(3)), Seed: r.Uint64()})
		case 1:
			sc.Ops = append(sc.Ops, C22Op{Op: "COMMIT"})
		case 2:
			sc.Ops = append(sc.Ops, C22Op{Op: "CREATE"})
		}
	}
	if r.Pct(30) {
		// the backend's sync fails (EIO): nothing may then be acknowledged as stable that is not
		for k, n := 0, 1+r.Int(2); k < n; k++ {
			sc.SyncFail = append(sc.SyncFail, 1+r.Int(4))
		}
	}
	return sc
}

func shrinkC22(scAny any) []any {
	sc := scAny.(*C22Scn)
	var out []any
	for i := range sc.Ops {
		c := *sc
		c.Ops = append(append([]C22Op(nil), sc.Ops[:i]...), sc.Ops[i+1:]...)
		out = append(out, &c)
	}
	for i, op := range sc.Ops {
		if op.Len > 1 {
			c := *sc
			c.Ops = append([]C22Op(nil), sc.Ops...)
			c.Ops[i].Len = op.Len / 2
			out = append(out, &c)
		}
	}
	if sc.Torn {
		c := *sc
		c.Torn = false
		out = append(out, &c)
	}
	for i := range sc.SyncFail {
		c := *sc
		c.SyncFail = append(append([]int(nil), sc.SyncFail[:i]...), sc.SyncFail[i+1:]...)
		out = append(out, &c)
	}
	return out
}

func init() {
	Register(&Prop{ID: "C22", Level: "fault_enumeration",
		Rule: "one case = one sampled history of 1-6 requests (WRITE with each stable_how at offsets around page boundaries and lengths 1..5000 incl. above the transfer size, COMMIT, CREATE) on a file of 0/10/5000 initial bytes, in 30% of the histories with 1-2 of the first four backend Sync calls failing with EIO; the history is first run crash-free to count its B backend operations, then EVERY crash point k=0..B+1 (crash right after the k-th backend call returns; clean = all unsynced data lost, or torn = an arbitrary page subset and old-or-new size survive, drawn per history) is executed in its own simulated world: crash, restart of a new server instance on the durable state after a restart gap, read-back; oracle per byte: a byte acknowledged with committed=FILE_SYNC/DATA_SYNC or covered by an acknowledged COMMIT (and not superseded) holds that value; other touched bytes hold the old or one of the written values; the write verifier is constant within an instance and differs after the restart; non-trivial = the history makes at least one backend call; distinct by event digest over all crash points",
		Gen:  genC22, New: func() any { return &C22Scn{} }, Run: runC22, Shrink: shrinkC22,
		Real:        seqReal,
		Stubbed:     []string{"backend with durability model (simfs: namespace ops durable on return, data/size volatile until Sync or O_SYNC; crash discards volatile state; old views fail after the crash)", "kernel TCP (simnet)", "clock", "scheduler"},
		Assumptions: []string{"crash points are enumerated exhaustively per sampled history (between backend operations); histories themselves are sampled", "the durability contract of the backend is the simfs model: metadata operations are durable when they return"}})
}
