package h

import (
	"fmt"
	"testing"
	"time"

	"github.com/absfs/absnfs"

	"verif/sim/nfsclient"
	"verif/sim/simfs"
	"verif/sim/simrt"
)

// C22: data acknowledged as stable survives a crash (fault enumeration: every
// crash point between backend operations of each sampled history).

type C22Op struct {
	Op     string `json:"op"` // WRITE COMMIT CREATE
	Off    uint64 `json:"off,omitempty"`
	Len    int    `json:"len,omitempty"`
	Stable uint32 `json:"stable,omitempty"`
	Seed   uint64 `json:"seed,omitempty"`
}

type C22Scn struct {
	Ops      []C22Op  `json:"ops"`
	InitSize int      `json:"init_size"`
	Transfer int      `json:"transfer,omitempty"`
	Torn     bool     `json:"torn"`
	SyncFail []int    `json:"sync_fail,omitempty"` // which File.Sync calls fail with EIO (1-based), injected in every crash-point run alike
	OnlyK    int      `json:"only_k,omitempty"`    // replay/minimised: run only this crash point (-1 = all)
	Sched    SchedCfg `json:"sched"`
	// concurrent class: Conc[i] is the request list of client i (its own connection); Ops is then empty.
	// Requests of different clients overlap under the seeded scheduler, so backend calls of several WRITEs
	// and COMMITs on the one file interleave; the crash points enumerated are those of that interleaving.
	Conc    [][]C22Op     `json:"conc,omitempty"`
	Workers int           `json:"workers,omitempty"`
	Stalls  []simfs.Fault `json:"stalls,omitempty"`
}

type c22Write struct {
	off      uint64
	data     []byte
	must     bool // acknowledged FILE_SYNC/DATA_SYNC before the crash, or covered by an acknowledged COMMIT
	acked    bool
	inv, ret int64 // scheduler stamps of the call and of its reply (ret = 0: never answered)
	trunc    bool  // a SETATTR(size = off): bytes at and beyond off may be gone, promises made before it are void there
}

// c22Client runs one request list on its own connection and returns what it wrote and the verifiers it saw.
// commits holds the call stamps of acknowledged COMMITs: such a COMMIT covers every WRITE (of any client)
// that had been acknowledged before the COMMIT was sent.
func c22Client(cl *Client, root, fh []byte, ops []C22Op) (writes []*c22Write, verfs [][8]byte, commits []int64) {
	for _, op := range ops {
		simrt.Sleep(time.Millisecond)
		switch op.Op {
		case "WRITE":
			data := PayloadBytes(op.Seed, op.Len)
			wr := &c22Write{off: op.Off, data: data, inv: simrt.Stamp()}
			writes = append(writes, wr)
			res, err := cl.Write(fh, op.Off, op.Stable, data)
			if err != nil || res.Status != 0 {
				continue
			}
			wr.ret = simrt.Stamp()
			wr.acked = true
			wr.data = data[:res.Count] // only the acknowledged prefix is promised
			if int(res.Count) < len(data) {
				// the rest was never accepted: a separate, unacknowledged candidate
				writes = append(writes, &c22Write{off: op.Off + uint64(res.Count), data: data[res.Count:], inv: wr.inv})
			}
			if res.Committed == nfsclient.FileSync || res.Committed == nfsclient.DataSync {
				wr.must = true
			}
			verfs = append(verfs, res.Verf)
		case "COMMIT":
			inv := simrt.Stamp()
			r0, _, err := cl.NFS(nfsclient.NFSProcCommit, nfsclient.ArgsCommit(fh, 0, 0))
			if err != nil || r0 == nil {
				continue
			}
			cr := r0.(*nfsclient.CommitRes)
			if cr.Status != 0 {
				continue
			}
			commits = append(commits, inv)
			verfs = append(verfs, cr.Verf)
		case "CREATE":
			cl.Create(root, "other", 0, nfsclient.Sattr3{}, [8]byte{})
		case "SETATTR":
			sz := op.Off
			tr := &c22Write{off: sz, trunc: true, inv: simrt.Stamp()}
			writes = append(writes, tr)
			if r, err := cl.Setattr(fh, nfsclient.Sattr3{Size: &sz}); err == nil && r.Status == 0 {
				tr.ret = simrt.Stamp()
				tr.acked = true
			}
		}
	}
	return
}

// c22Void: the promise of write x at byte p is void when a truncation to a size at or below p may have
// taken effect after x (it was not answered before x was sent).
func c22Void(writes []*c22Write, x *c22Write, p uint64) bool {
	for _, t := range writes {
		if t.trunc && t.off <= p && !(t.ret != 0 && t.ret < x.inv) {
			return true
		}
	}
	return false
}

func c22Workers(sc *C22Scn) int {
	if sc.Workers > 0 {
		return sc.Workers
	}
	return 1
}

// c22Run executes the history with a crash after the k-th backend call (k<0: no crash).
// It returns the number of backend calls the history makes (for k<0) and records violations.
func c22Run(t *testing.T, sc *C22Scn, k int, o *Outcome, trace bool) (ncalls int, res *simrt.Result) {
	res = Bubble(t, sc.Sched.config(trace), nil, func() {
		simrt.Event("scenario %x k=%d", simrt.Hash(hashBytes(mustJSON(sc))), k)
		if k < 0 && len(sc.Conc) > 0 {
			simrt.Probe("run_class.concurrent_writers")
		} else if k < 0 {
			simrt.Probe("run_class.sequential")
		}
		w := NewWorld(o)
		init := PayloadBytes(999, sc.InitSize)
		w.FS.MustWriteFile("/f", init, 0o644)
		for _, nth := range sc.SyncFail {
			w.FS.AddFault(simfs.Fault{Op: "File.Sync", Nth: nth, Kind: "eio"})
		}
		opts := absnfs.ExportOptions{MaxWorkers: c22Workers(sc), TransferSize: sc.Transfer, AttrCacheTimeout: time.Millisecond}
		if err := w.Start(opts); err != nil {
			o.Inconclusive = "start: " + err.Error()
			return
		}
		cl, err := w.Dial("10.0.0.7:900", RootCred, nil)
		if err != nil {
			o.Inconclusive = "dial"
			return
		}
		root, _, err := cl.Mount("/")
		if err != nil {
			o.Inconclusive = "mount"
			return
		}
		lr, err := cl.Lookup(root, "f")
		if err != nil || lr.Status != 0 {
			o.Inconclusive = "lookup"
			return
		}
		fh := lr.FH
		base := w.FS.Completed()
		if k >= 0 {
			w.FS.ArmCrash(k+0, sc.Torn, simrt.NewRand(uint64(k)*7919+sc.Sched.Seed))
			if k == 0 {
				// crash before the first backend call of the history
				w.FS.Crash(sc.Torn, simrt.NewRand(sc.Sched.Seed))
			}
		}
		var writes []*c22Write
		var verfs [][8]byte
		var commits []int64
		if len(sc.Conc) == 0 {
			writes, verfs, commits = c22Client(cl, root, fh, sc.Ops)
		} else {
			for _, f := range sc.Stalls {
				w.FS.AddFault(f)
			}
			type part struct {
				w []*c22Write
				v [][8]byte
				c []int64
			}
			parts := make([]part, len(sc.Conc))
			done := make(chan int, len(sc.Conc))
			for ci := range sc.Conc {
				ci := ci
				ccl, err := w.Dial(fmt.Sprintf("10.0.0.%d:900", 8+ci), RootCred, nil)
				if err != nil {
					o.Inconclusive = "dial"
					return
				}
				defer ccl.Close()
				simrt.Go(fmt.Sprintf("c22-client-%d", ci), func() {
					defer simrt.Send("c22.done", done, ci)
					parts[ci].w, parts[ci].v, parts[ci].c = c22Client(ccl, root, fh, sc.Conc[ci])
				})
			}
			for range sc.Conc {
				simrt.Recv("c22.wait", done)
			}
			for _, p := range parts {
				writes = append(writes, p.w...)
				verfs = append(verfs, p.v...)
				commits = append(commits, p.c...)
			}
		}
		// an acknowledged COMMIT covers every WRITE acknowledged before the COMMIT was sent
		for _, ci := range commits {
			for _, wr := range writes {
				if wr.acked && wr.ret != 0 && wr.ret < ci {
					wr.must = true
				}
			}
		}
		ncalls = w.FS.Completed() - base
		o.Tick()
		for i := 1; i < len(verfs); i++ {
			if verfs[i] != verfs[0] {
				o.Vio("C22.verifier-changed-within-instance", "", "write verifier changed from %x to %x within one server instance", verfs[0], verfs[i])
			}
		}
		if k < 0 {
			cl.Close()
			w.Stop()
			return
		}
		crashed := w.FS.Crashed
		cl.Close()
		w.Stop()
		if !crashed {
			// the history finished before the k-th call: crash now (everything acknowledged must survive)
			w.FS.Crash(sc.Torn, simrt.NewRand(sc.Sched.Seed+1))
		}
		// restart on the durable state after a restart gap
		simrt.Sleep(5 * time.Millisecond)
		w2 := &World{O: o, FS: w.FS}
		w2.xid.Store(5000)
		if err := w2.Start(opts); err != nil {
			o.Inconclusive = "restart: " + err.Error()
			return
		}
		defer w2.Stop()
		if len(verfs) > 0 && absnfs.VerifWriteVerf(w2.Srv) == verfs[0] {
			o.Vio("C22.verifier-not-changed-by-restart", "", "the restarted instance uses the same write verifier %x", verfs[0])
		}
		// read back the durable content directly from the backend and through the new instance
		size, ext, _ := w.FS.Extents("/f")
		content := func(p uint64) (byte, bool) {
			if int64(p) >= size {
				return 0, false
			}
			for _, e := range ext {
				if p >= uint64(e.Off) && p < uint64(e.Off)+uint64(len(e.Data)) {
					return e.Data[p-uint64(e.Off)], true
				}
			}
			return 0, true
		}
		initial := func(p uint64) (byte, bool) {
			if p < uint64(len(init)) {
				return init[p], true
			}
			return 0, false
		}
		// per byte position touched by any write: the set of allowed values
		o.Tick()
		checked := map[uint64]bool{}
		for wi, wr := range writes {
			for j := range wr.data {
				p := wr.off + uint64(j)
				if checked[p] {
					continue
				}
				checked[p] = true
				// allowed at p: the value of every write covering p that is not certainly superseded by a
				// promised (stable) write - one whose call began after that write had been answered; the
				// initial value only when no promised write covers p. (For a sequential history this is
				// "the last promised value and everything written after it".)
				var must *byte
				var cands []byte
				anyMust := false
				truncated := false
				for _, x := range writes {
					if x.trunc && x.off <= p {
						truncated = true
					}
				}
				for _, x := range writes {
					if x.must && p >= x.off && p < x.off+uint64(len(x.data)) && !c22Void(writes, x, p) {
						anyMust = true
						vv := x.data[p-x.off]
						must = &vv
					}
				}
				if !anyMust {
					if b, ok := initial(p); ok {
						cands = append(cands, b)
					} else {
						cands = append(cands, 0)
					}
				}
				if truncated {
					cands = append(cands, 0) // cut off and possibly re-extended with zeros
				}
				for _, x := range writes {
					if p < x.off || p >= x.off+uint64(len(x.data)) {
						continue
					}
					superseded := false
					for _, y := range writes {
						if y != x && y.must && !c22Void(writes, y, p) && p >= y.off && p < y.off+uint64(len(y.data)) && x.ret != 0 && y.inv > x.ret {
							superseded = true
							break
						}
					}
					if !superseded {
						cands = append(cands, x.data[p-x.off])
					}
				}
				got, present := content(p)
				if must != nil && !present {
					o.Vio("C22.acked-stable-data-lost", "kind=file-too-short", "crash point %d (torn=%v): byte %d was acknowledged as stable (write #%d) but the file is only %d bytes after the crash", k, sc.Torn, p, wi, size)
					return
				}
				if !present {
					continue
				}
				okv := false
				for _, c := range cands {
					if c == got {
						okv = true
					}
				}
				if !okv {
					if must != nil {
						o.Vio("C22.acked-stable-data-lost", "kind=wrong-bytes", "crash point %d (torn=%v): byte %d holds %#x after the crash; it was acknowledged as stable with %#x (allowed: %x)", k, sc.Torn, p, got, *must, cands)
					} else {
						o.Vio("C22.garbage-after-crash", "", "crash point %d (torn=%v): byte %d holds %#x, neither old nor any written value (%x)", k, sc.Torn, p, got, cands)
					}
					return
				}
			}
		}
	})
	return ncalls, res
}

func runC22(t *testing.T, scAny any, trace bool) *Outcome {
	sc := scAny.(*C22Scn)
	o := &Outcome{}
	n, res := c22Run(t, sc, -1, o, trace)
	if o.Inconclusive != "" || res == nil {
		o.finish(res, "C22")
		return o
	}
	points := 0
	var digest uint64
	steps := 0
	for k := 0; k <= n+1; k++ {
		if sc.OnlyK > 0 && k != sc.OnlyK-1 {
			continue
		}
		_, r := c22Run(t, sc, k, o, trace)
		points++
		if r != nil {
			digest = digest*1099511628211 ^ r.Digest
			steps += r.Steps
			for f, c := range r.Faults {
				res.Faults[f] += c
			}
		}
		if len(o.Violations) > 0 && sc.OnlyK == 0 {
			break
		}
	}
	res.Digest ^= digest
	res.Steps += steps
	if res.Probes == nil {
		res.Probes = map[string]int{}
	}
	res.Probes["crash_points_enumerated"] += points
	o.NonTrivial = n > 0
	o.finish(res, "C22")
	return o
}

// genC22Conc: 2-3 clients writing (and committing) the one file at the same time.
func genC22Conc(r *simrt.Rand) any {
	sc := &C22Scn{InitSize: []int{0, 10, 5000}[r.Int(3)], Transfer: []int{0, 0, 4096}[r.Int(3)], Torn: r.Pct(50), Sched: RandSched(r), Workers: 2 + r.Int(3)}
	sc.Sched.HorizonS = 600
	nc := 2 + r.Int(2)
	for ci := 0; ci < nc; ci++ {
		var ops []C22Op
		for i, n := 0, 1+r.Int(3); i < n; i++ {
			if r.Pct(78) {
				ops = append(ops, C22Op{Op: "WRITE", Off: uint64([]int{0, 0, 5, 100, 4090, 4096, 9000}[r.Int(7)]), Len: []int{1, 10, 17, 100, 3000}[r.Int(5)], Stable: uint32(r.Int(3)), Seed: r.Uint64()})
			} else if r.Pct(70) {
				ops = append(ops, C22Op{Op: "COMMIT"})
			} else {
				ops = append(ops, C22Op{Op: "SETATTR", Off: uint64([]int{0, 3, 10, 100, 4096, 6000}[r.Int(6)])})
			}
		}
		sc.Conc = append(sc.Conc, ops)
	}
	for i, n := 0, r.Int(3); i < n; i++ {
		sc.Stalls = append(sc.Stalls, simfs.Fault{Op: []string{"File.Sync", "File.WriteAt", "OpenFile", "File.Close", ""}[r.Int(5)], Nth: 1 + r.Int(8), Kind: "stall",
			Stall: []time.Duration{time.Microsecond, time.Millisecond, 5 * time.Millisecond}[r.Int(3)]})
	}
	return sc
}

func genC22(r *simrt.Rand, tier string) any {
	if r.Pct(35) {
		return genC22Conc(r)
	}
	sc := &C22Scn{InitSize: []int{0, 10, 5000}[r.Int(3)], Transfer: []int{0, 16, 4096}[r.Int(3)], Torn: r.Pct(50), Sched: SeqSched(r.Uint64())}
	n := 1 + r.Int(6)
	for i := 0; i < n; i++ {
		switch r.Pick([]int{65, 25, 10}) {
		case 0:
			sc.Ops = append(sc.Ops, C22Op{Op: "WRITE", Off: uint64([]int{0, 0, 5, 4090, 4096, 9000}[r.Int(6)]), Len: []int{1, 10, 16, 17, 100, 5000}[r.Int(6)], Stable: uint32(r.Int(3)), Seed: r.Uint64()})
		case 1:
			sc.Ops = append(sc.Ops, C22Op{Op: "COMMIT"})
		case 2:
			sc.Ops = append(sc.Ops, C22Op{Op: "CREATE"})
		}
		if r.Pct(12) {
			sc.Ops = append(sc.Ops, C22Op{Op: "SETATTR", Off: uint64([]int{0, 3, 10, 100, 4096, 6000}[r.Int(6)])})
		}
	}
	if r.Pct(30) {
		// the backend's sync fails (EIO): nothing may then be acknowledged as stable that is not
		for k, n := 0, 1+r.Int(2); k < n; k++ {
			sc.SyncFail = append(sc.SyncFail, 1+r.Int(4))
		}
	}
	return sc
}

func shrinkC22(scAny any) []any {
	sc := scAny.(*C22Scn)
	var out []any
	for ci := range sc.Conc {
		if len(sc.Conc) > 1 {
			c := *sc
			c.Conc = append(append([][]C22Op(nil), sc.Conc[:ci]...), sc.Conc[ci+1:]...)
			out = append(out, &c)
		}
		for i := range sc.Conc[ci] {
			c := *sc
			c.Conc = append([][]C22Op(nil), sc.Conc...)
			c.Conc[ci] = append(append([]C22Op(nil), sc.Conc[ci][:i]...), sc.Conc[ci][i+1:]...)
			out = append(out, &c)
		}
	}
	for i := range sc.Stalls {
		c := *sc
		c.Stalls = append(append([]simfs.Fault(nil), sc.Stalls[:i]...), sc.Stalls[i+1:]...)
		out = append(out, &c)
	}
	for i := range sc.Ops {
		c := *sc
		c.Ops = append(append([]C22Op(nil), sc.Ops[:i]...), sc.Ops[i+1:]...)
		out = append(out, &c)
	}
	for i, op := range sc.Ops {
		if op.Len > 1 {
			c := *sc
			c.Ops = append([]C22Op(nil), sc.Ops...)
			c.Ops[i].Len = op.Len / 2
			out = append(out, &c)
		}
	}
	if sc.Torn {
		c := *sc
		c.Torn = false
		out = append(out, &c)
	}
	for i := range sc.SyncFail {
		c := *sc
		c.SyncFail = append(append([]int(nil), sc.SyncFail[:i]...), sc.SyncFail[i+1:]...)
		out = append(out, &c)
	}
	return out
}

func init() {
	Register(&Prop{ID: "C22", Level: "fault_enumeration",
		Rule: "one case = one sampled history of 1-6 requests (WRITE with each stable_how at offsets around page boundaries and lengths 1..5000 incl. above the transfer size, COMMIT, CREATE, SETATTR(size) - a truncation voids earlier promises at and beyond the new size unless it was answered before that write was sent) on a file of 0/10/5000 initial bytes, in 30% of the histories with 1-2 of the first four backend Sync calls failing with EIO; the history is first run crash-free to count its B backend operations, then EVERY crash point k=0..B+1 (crash right after the k-th backend call returns; clean = all unsynced data lost, or torn = an arbitrary page subset and old-or-new size survive, drawn per history) is executed in its own simulated world; 35% of the histories are concurrent: 2-3 clients on their own connections issue 1-3 WRITE/COMMIT requests each on the one file (overlapping and disjoint ranges), 2-4 workers, 0-2 short backend stalls, every interleaving decided by the seeded scheduler - the crash points enumerated are then those of that interleaving (the run is deterministic, so the prefix before the crash repeats exactly) and a COMMIT covers the WRITEs acknowledged before it was sent: crash, restart of a new server instance on the durable state after a restart gap, read-back; oracle per byte: a byte acknowledged with committed=FILE_SYNC/DATA_SYNC or covered by an acknowledged COMMIT (and not superseded) holds that value; other touched bytes hold the old or one of the written values; the write verifier is constant within an instance and differs after the restart; non-trivial = the history makes at least one backend call; distinct by event digest over all crash points",
		Gen:  genC22, New: func() any { return &C22Scn{} }, Run: runC22, Shrink: shrinkC22,
		Real:        seqReal,
		Stubbed:     []string{"backend with durability model (simfs: namespace ops durable on return, data/size volatile until Sync or O_SYNC; crash discards volatile state; old views fail after the crash)", "kernel TCP (simnet)", "clock", "scheduler"},
		Assumptions: []string{"crash points are enumerated exhaustively per sampled history (between backend operations); histories themselves are sampled", "the durability contract of the backend is the simfs model: metadata operations are durable when they return"}})
}
