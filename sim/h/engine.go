// Package h is the verification harness: scenario generation, simulated runs,
// oracles, shrinking and result reporting for properties C01..C30.
package h

import (
	"encoding/json"
	"fmt"
	"os"
	"sort"
	"strings"
	"testing"
	"testing/synctest"
	"time"

	"verif/sim/simrt"
)

// SchedCfg is the schedule part of a scenario (plain data).
type SchedCfg struct {
	Seed        uint64 `json:"seed"`
	Policy      int    `json:"policy"`
	Mask        int    `json:"mask"`
	PreemptPct  int    `json:"preempt_pct,omitempty"`
	PCTDepth    int    `json:"pct_depth,omitempty"`
	PCTSteps    int    `json:"pct_steps,omitempty"`
	RandomUntil int    `json:"random_until,omitempty"`
	HorizonS    int    `json:"horizon_s,omitempty"`
}

func (s SchedCfg) config(trace bool) simrt.Config {
	hz := time.Duration(s.HorizonS) * time.Second
	if hz == 0 {
		hz = 2 * time.Hour
	}
	return simrt.Config{Seed: s.Seed, Policy: s.Policy, Mask: s.Mask, PreemptPct: s.PreemptPct, PCTDepth: s.PCTDepth,
		PCTSteps: s.PCTSteps, RandomUntil: s.RandomUntil, Horizon: hz, KeepTrace: trace, StepCap: 400000}
}

// SeqSched is the schedule used by single-client sequential histories: one
// causal chain, nothing to interleave, pre-yields off.
func SeqSched(seed uint64) SchedCfg { return SchedCfg{Seed: seed, Policy: simrt.PolDefault, Mask: 0} }

// RandSched draws an interleaving-exploring schedule configuration.
func RandSched(r *simrt.Rand) SchedCfg {
	s := SchedCfg{Seed: r.Uint64(), Mask: simrt.ClassAll}
	switch r.Int(4) {
	case 0:
		s.Policy = simrt.PolRandom
	case 1:
		s.Policy = simrt.PolPCT
		s.PCTDepth = 1 + r.Int(3)
		s.PCTSteps = 200 + r.Int(3000)
	case 2:
		s.Policy = simrt.PolSticky
		s.PreemptPct = 1 + r.Int(30)
	default:
		s.Policy = simrt.PolSticky
		s.PreemptPct = 50
	}
	// swarm: sometimes switch whole yield classes off
	if r.Pct(30) {
		s.Mask &^= simrt.ClassLock
	} else if r.Pct(40) {
		s.Mask |= simrt.ClassUnlock // also decide who runs right after every unlock
	}
	if r.Pct(15) {
		s.Mask &^= simrt.ClassFS
	}
	return s
}

// Violation is one oracle failure.
type Violation struct {
	Oracle    string `json:"oracle"`
	Signature string `json:"signature"`
	Detail    string `json:"detail"`
}

// Outcome of one simulated run.
type Outcome struct {
	Violations   []Violation
	NonTrivial   bool
	Inconclusive string // harness trouble (step cap ...): never a violation
	Res          *simrt.Result
	Checks       int  // oracle evaluations performed
	HorizonOK    bool // the property uses the horizon as its bounded-liveness signal and judges it itself
}

// Tick counts one oracle evaluation (safe to call from any task; invisible to the race detector).
//
//go:norace
func (o *Outcome) Tick() { o.Checks++ }

// Vio records a violation (deduplicated by signature within the run). It may be
// called from any task: only one task runs at a time, and the bookkeeping is
// hidden from the race detector so that it neither reports it nor learns
// happens-before edges from it.
//
//go:norace
func (o *Outcome) Vio(oracle, sigFacts, format string, a ...any) {
	sig := oracle
	if sigFacts != "" {
		sig += "/" + sigFacts
	}
	// fmt uses a sync.Pool: formatting inside a race-disabled region would drop the
	// pool's edges and make later, unrelated uses of the pooled printer look racy
	detail := fmt.Sprintf(format, a...)
	simrt.RaceOff()
	defer simrt.RaceOn()
	for _, v := range o.Violations {
		if v.Signature == sig {
			return
		}
	}
	if len(o.Violations) < 64 {
		o.Violations = append(o.Violations, Violation{Oracle: oracle, Signature: sig, Detail: detail})
	}
}

// Prop is one property check.
type Prop struct {
	ID    string
	Level string // exploration | fault_enumeration
	Rule  string // evidence: how cases are generated and what makes one non-trivial
	// Gen draws a scenario (pointer to a JSON-serialisable struct).
	Gen func(r *simrt.Rand, tier string) any
	// New returns an empty scenario for decoding a replay file.
	New func() any
	// Run executes the scenario in a fresh bubble.
	Run func(t *testing.T, sc any, trace bool) *Outcome
	// Shrink returns strictly smaller candidate scenarios (may be nil).
	Shrink func(sc any) []any
	// Components for the evidence file.
	Real, Stubbed []string
	Assumptions   []string
	// Race: also meaningful under the -race build.
	Race bool
}

var registry = map[string]*Prop{}

// Register adds a property.
func Register(p *Prop) { registry[p.ID] = p }

var bubblePanic any

// Bubble runs main as one simulated run inside a fresh synctest bubble.
func Bubble(t *testing.T, cfg simrt.Config, knobs map[string]int, main func()) (res *simrt.Result) {
	defer func() {
		if r := recover(); r != nil {
			if res == nil {
				panic(r)
			}
			// synctest's end-of-bubble deadlock panic for abandoned (leaked) goroutines
		}
	}()
	// synctest.Test ends the calling goroutine (FailNow) when the bubble's test failed - which
	// is what a race-detector report does; run it in a goroutine of its own so that the
	// search loop survives and attributes the report to this run.
	done := make(chan struct{})
	go func() {
		defer close(done)
		defer func() {
			if r := recover(); r != nil && res == nil {
				bubblePanic = r
			}
		}()
		synctest.Test(t, func(t *testing.T) {
			res = simrt.Run(cfg, knobs, main)
		})
	}()
	<-done
	if bubblePanic != nil {
		p := bubblePanic
		bubblePanic = nil
		panic(p)
	}
	return res
}

// finish folds generic simulator findings into the outcome.
func (o *Outcome) finish(res *simrt.Result, propID string) {
	o.Res = res
	if res == nil {
		o.Inconclusive = "no result"
		return
	}
	if res.StepCapHit {
		o.Inconclusive = "step cap hit"
	}
	if res.HorizonHit && !o.HorizonOK {
		o.Inconclusive = fmt.Sprintf("simulated-time horizon reached before the scenario finished (leaked: %v)", res.Leaked)
	}
	if res.MainPanic != "" {
		o.Inconclusive = "harness main panicked: " + res.MainPanic
	}
}

// ---------- result file ----------

// VioReport is one reported violation.
type VioReport struct {
	Violation
	Seed      uint64          `json:"seed"`
	Replay    string          `json:"replay,omitempty"`
	Scenario  json.RawMessage `json:"scenario,omitempty"`
	Known     bool            `json:"known"`
	Minimised bool            `json:"minimised"`
	Count     int             `json:"count"`
}

// ProcResult is what one OS process reports to the driver.
type ProcResult struct {
	Prop          string            `json:"prop"`
	Tier          string            `json:"tier"`
	Seed          uint64            `json:"seed"`
	Proc          int               `json:"proc"`
	Runs          int               `json:"runs"`
	NonTrivial    int               `json:"nontrivial"`
	Digests       []uint64          `json:"digests"` // digests of non-trivial runs (for distinct counting across processes)
	Inconclusive  int               `json:"inconclusive"`
	InconclSample string            `json:"inconclusive_sample,omitempty"`
	Violations    []*VioReport      `json:"violations"`
	Faults        map[string]int    `json:"faults"`
	Probes        map[string]int    `json:"probes"`
	Steps         int64             `json:"steps"`
	SimSeconds    float64           `json:"sim_seconds"`
	WallS         float64           `json:"wall_s"`
	Samples       []json.RawMessage `json:"samples"`
	Checks        int64             `json:"checks"`
	DistinctSched int               `json:"distinct_schedules"`
	Race          bool              `json:"race"`
	DetRechecked  int               `json:"determinism_rechecked"`
	DetMismatch   []string          `json:"determinism_mismatch,omitempty"`
	Error         string            `json:"error,omitempty"`
	RaceReports   int               `json:"race_reports"`
}

// Replay file.
type ReplayFile struct {
	Property  string          `json:"property"`
	Oracle    string          `json:"oracle"`
	Signature string          `json:"signature"`
	Detail    string          `json:"detail"`
	Seed      uint64          `json:"seed"`
	Scenario  json.RawMessage `json:"scenario"`
	Digest    uint64          `json:"event_digest"`
	Steps     int             `json:"steps"`
	Decisions []string        `json:"schedule_decisions,omitempty"`
	Events    []string        `json:"events,omitempty"`
	Race      bool            `json:"race_build"`
}

func mustJSON(v any) json.RawMessage {
	b, err := json.Marshal(v)
	if err != nil {
		panic(err)
	}
	return b
}

func clone(p *Prop, sc any) any {
	n := p.New()
	if err := json.Unmarshal(mustJSON(sc), n); err != nil {
		panic(err)
	}
	return n
}

func hasSig(o *Outcome, sig string) *Violation {
	if o == nil {
		return nil
	}
	for i := range o.Violations {
		if o.Violations[i].Signature == sig {
			return &o.Violations[i]
		}
	}
	return nil
}

// minimise greedily shrinks sc while the same signature keeps firing.
func minimise(t *testing.T, p *Prop, sc any, sig string, budget time.Duration) any {
	if p.Shrink == nil {
		return sc
	}
	deadline := time.Now().Add(budget)
	cur := sc
	for improved := true; improved && time.Now().Before(deadline); {
		improved = false
		for _, cand := range p.Shrink(cur) {
			if time.Now().After(deadline) {
				break
			}
			o := p.Run(t, clone(p, cand), false)
			if hasSig(o, sig) != nil {
				cur = cand
				improved = true
				break
			}
		}
	}
	return cur
}

func decisionsText(res *simrt.Result) []string {
	var out []string
	for _, d := range res.Decisions {
		switch d.Kind {
		case 's':
			out = append(out, fmt.Sprintf("s %d/%d %s %s", d.Choice, d.N, d.ID, d.Tag))
		case 'o':
			out = append(out, fmt.Sprintf("o %d/%d %s", d.Choice, d.N, d.Tag))
		default:
			out = append(out, fmt.Sprintf("d %d/%d %s", d.Choice, d.N, d.Tag))
		}
	}
	return out
}

func writeReplay(dir string, p *Prop, sc any, v *Violation, seed uint64, t *testing.T) (string, error) {
	// re-run with tracing to capture schedule and events
	o := p.Run(t, clone(p, sc), true)
	rf := ReplayFile{Property: p.ID, Oracle: v.Oracle, Signature: v.Signature, Detail: v.Detail, Seed: seed, Scenario: mustJSON(sc), Race: simrt.RaceEnabled}
	if o != nil && o.Res != nil {
		rf.Digest = o.Res.Digest
		rf.Steps = o.Res.Steps
		dec := decisionsText(o.Res)
		if len(dec) > 4000 {
			dec = append(dec[:4000], fmt.Sprintf("... %d more", len(dec)-4000))
		}
		rf.Decisions = dec
		ev := o.Res.Events
		if len(ev) > 2000 {
			ev = append(ev[:2000], "...")
		}
		rf.Events = ev
		if vv := hasSig(o, v.Signature); vv != nil {
			rf.Detail = vv.Detail
		}
	}
	if err := os.MkdirAll(dir, 0o755); err != nil {
		return "", err
	}
	name := fmt.Sprintf("%s/%s-%016x-%s.json", dir, p.ID, seed, sanitize(v.Signature))
	b, _ := json.MarshalIndent(rf, "", " ")
	return name, os.WriteFile(name, b, 0o644)
}

func sanitize(s string) string {
	var b strings.Builder
	for _, c := range s {
		switch {
		case c >= 'a' && c <= 'z', c >= 'A' && c <= 'Z', c >= '0' && c <= '9', c == '-', c == '.':
			b.WriteRune(c)
		default:
			b.WriteByte('_')
		}
	}
	out := b.String()
	if len(out) > 80 {
		out = out[:80]
	}
	return out
}

func sortedKeys(m map[string]int) []string {
	ks := make([]string, 0, len(m))
	for k := range m {
		ks = append(ks, k)
	}
	sort.Strings(ks)
	return ks
}
