package h

import (
	"fmt"
	"os"
	"sort"
	"strconv"
	"strings"
	"testing"
	"time"

	"github.com/absfs/absnfs"
	"github.com/anishathalye/porcupine"

	"verif/sim/nfsclient"
	"verif/sim/simfs"
	"verif/sim/simrt"
)

// C29: concurrent request streams are race-free and linearizable.

type C29Op struct {
	Op    string `json:"op"` // create mkdir symlink remove rmdir rename write read lookup getattr setattr readdir peek
	Dir   int    `json:"dir,omitempty"`
	Name  int    `json:"name,omitempty"`
	Dir2  int    `json:"dir2,omitempty"`
	Name2 int    `json:"name2,omitempty"`
	Off   int    `json:"off,omitempty"`
	Len   int    `json:"len,omitempty"`
	Seed  uint64 `json:"seed,omitempty"`
	Mode  uint32 `json:"mode,omitempty"`
	Size  int    `json:"size,omitempty"` // setattr: -1 = not set
	Peer  int    `json:"peer,omitempty"` // peek: whose name
}

type C29Scn struct {
	Cached  bool          `json:"cached"` // caches enabled with long TTLs (staleness allowed) vs minimal TTL (linearizable)
	Clients [][]C29Op     `json:"clients"`
	Pre     []bool        `json:"pre"` // client i's name 0 exists beforehand in dir 0
	Workers int           `json:"workers"`
	Stalls  []simfs.Fault `json:"stalls,omitempty"`
	Sched   SchedCfg      `json:"sched"`
}

// hasErrFaults: the fault plan holds backend errors (not only delays): a look-up may then fail for that reason.
func (sc *C29Scn) hasErrFaults() bool {
	for _, f := range sc.Stalls {
		if f.Kind != "stall" && f.Kind != "stall_ret" {
			return true
		}
	}
	return false
}

var c29Dirs = []string{"/", "/d"}

func c29Path(dir, client, name int) string {
	return strings.TrimSuffix(c29Dirs[dir%2], "/") + fmt.Sprintf("/c%d_%d", client, name%3)
}

// ---- sequential specification (path based) ----

type c29Ent struct {
	kind byte // f d l
	mode uint32
	data string
}

type c29Model struct{ ents map[string]c29Ent }

func (m *c29Model) clone() *c29Model {
	n := &c29Model{ents: make(map[string]c29Ent, len(m.ents))}
	for k, v := range m.ents {
		n.ents[k] = v
	}
	return n
}

func (m *c29Model) equal(o *c29Model) bool {
	if len(m.ents) != len(o.ents) {
		return false
	}
	for k, v := range m.ents {
		if o.ents[k] != v {
			return false
		}
	}
	return true
}

func (m *c29Model) children(dir string) []string {
	var out []string
	pre := dir
	if pre != "/" {
		pre += "/"
	}
	for p := range m.ents {
		if p != "/" && strings.HasPrefix(p, pre) && !strings.Contains(p[len(pre):], "/") {
			out = append(out, p[len(pre):])
		}
	}
	sort.Strings(out)
	return out
}

type c29In struct {
	Op, Path, Path2 string
	Off             int
	Data            string
	Count           int
	Mode            uint32
	HasMode         bool
	Size            int // -1 = not set
}

type c29Out struct {
	OK     bool
	Status uint32
	Kind   byte
	Size   uint64
	Mode   uint32
	Data   string
	EOF    bool
	Count  uint32
	Names  string
}

// step applies in to m (mutating it) and says whether out is the specified answer.
func (m *c29Model) step(in c29In, out c29Out) bool {
	e, ok := m.ents[in.Path]
	attrOK := func(e c29Ent) bool {
		if out.Kind != e.kind {
			return false
		}
		if e.kind == 'f' && out.Size != uint64(len(e.data)) {
			return false
		}
		return true
	}
	switch in.Op {
	case "lookup", "getattr":
		if !ok {
			return !out.OK
		}
		return out.OK && attrOK(e) && (in.Op != "getattr" || e.mode == 0 || out.Mode&0o777 == e.mode)
	case "create":
		if ok {
			if out.OK && e.kind == 'f' {
				e.mode = 0 // UNCHECKED on an existing file may apply the sattr3 mode
				m.ents[in.Path] = e
			}
			return out.OK == (e.kind == 'f')
		}
		if !out.OK {
			return false
		}
		m.ents[in.Path] = c29Ent{kind: 'f'}
		return true
	case "mkdir", "symlink":
		if ok {
			return !out.OK
		}
		if !out.OK {
			return false
		}
		k := byte('d')
		d := ""
		if in.Op == "symlink" {
			k, d = 'l', in.Data
		}
		m.ents[in.Path] = c29Ent{kind: k, data: d}
		return true
	case "remove":
		if !ok {
			return !out.OK
		}
		if !out.OK {
			// RFC 1813: REMOVE of a directory may be refused or carried out
			return e.kind == 'd'
		}
		delete(m.ents, in.Path)
		return true
	case "rmdir":
		if !ok || e.kind != 'd' {
			return !out.OK
		}
		if !out.OK {
			return false
		}
		delete(m.ents, in.Path)
		return true
	case "rename":
		if !ok {
			return !out.OK
		}
		if in.Path == in.Path2 {
			return out.OK
		}
		if t, tok := m.ents[in.Path2]; tok && (t.kind == 'd') != (e.kind == 'd') {
			return !out.OK
		}
		if !out.OK {
			return false
		}
		delete(m.ents, in.Path)
		m.ents[in.Path2] = e
		return true
	case "write":
		if !ok || e.kind != 'f' {
			return !out.OK
		}
		if !out.OK || int(out.Count) != len(in.Data) {
			return false
		}
		b := []byte(e.data)
		for len(b) < in.Off+len(in.Data) {
			b = append(b, 0)
		}
		copy(b[in.Off:], in.Data)
		e.data = string(b)
		m.ents[in.Path] = e
		return true
	case "read":
		if !ok || e.kind != 'f' {
			return !out.OK
		}
		if !out.OK {
			return false
		}
		want := ""
		if in.Off < len(e.data) {
			end := in.Off + in.Count
			if end > len(e.data) {
				end = len(e.data)
			}
			want = e.data[in.Off:end]
		}
		return out.Data == want && out.EOF == (in.Off+len(want) >= len(e.data))
	case "setattr":
		if !ok {
			return !out.OK
		}
		if e.kind == 'l' {
			return true // whether attributes of a (dangling) link can be set is not this property's business
		}
		if !out.OK {
			// a size change of a non-file may be refused (nothing changes then)
			return in.Size >= 0 && e.kind != 'f'
		}
		if in.HasMode {
			e.mode = in.Mode & 0o777
		}
		if in.Size >= 0 && e.kind == 'f' {
			b := []byte(e.data)
			for len(b) < in.Size {
				b = append(b, 0)
			}
			e.data = string(b[:in.Size])
		}
		m.ents[in.Path] = e
		return true
	case "readdir":
		return out.OK && out.Names == strings.Join(m.children(in.Path), ",")
	case "dsetattr":
		return out.OK // permission bits of the shared directory: always possible for root, no effect on names
	case "dgetattr":
		return out.OK && out.Kind == 'd'
	}
	return true
}

// attrKey formats without fmt (fmt's sync.Pool must not be used inside race-disabled regions).
func attrKey(k string, size uint64, perm uint32) string {
	return k + "/" + strconv.FormatUint(size, 10) + "/" + strconv.FormatUint(uint64(perm), 8)
}

// ---- backend state history (for the "never in a state the object was never in" clause) ----

// c29Hist is written from server goroutines (backend return hook) and read from
// client tasks. It uses slices and linear scans only: maps, fmt and copy() are
// visible to the race detector even in //go:norace code.
type c29Hist struct {
	attrs    []c29KV // path -> "kind/size/perm"
	contents []c29KV // path -> content
	listings []c29KV // dir -> listing
	absent   []string
}

type c29KV struct{ k, v string }

//go:norace
func kvHas(l []c29KV, k, v string) bool {
	for i := range l {
		if l[i].k == k && l[i].v == v {
			return true
		}
	}
	return false
}

//go:norace
func strHas(l []string, k string) bool {
	for i := range l {
		if l[i] == k {
			return true
		}
	}
	return false
}

//go:norace
func (h *c29Hist) record(fs *simfs.FS, tracked []string) {
	snap := fs.Snapshot()
	var present []string
	list := [2]string{}
	first := [2]bool{true, true}
	for _, n := range snap { // sorted by path, so each listing comes out sorted
		present = append(present, n.Path)
		k := "f"
		switch n.Kind {
		case simfs.KindDir:
			k = "d"
		case simfs.KindSymlink:
			k = "l"
		}
		key := "d"
		if k != "d" {
			key = attrKey(k, uint64(n.Size), uint32(n.Perm&0o777))
		}
		if !kvHas(h.attrs, n.Path, key) {
			h.attrs = append(h.attrs, c29KV{n.Path, key})
		}
		if k == "f" {
			if b, ok := fs.ReadAll(n.Path); ok && !kvHas(h.contents, n.Path, string(b)) {
				h.contents = append(h.contents, c29KV{n.Path, string(b)})
			}
		}
		if n.Path != "/" {
			di, name := -1, ""
			if strings.HasPrefix(n.Path, "/d/") {
				if !strings.Contains(n.Path[3:], "/") {
					di, name = 1, n.Path[3:]
				}
			} else if !strings.Contains(n.Path[1:], "/") {
				di, name = 0, n.Path[1:]
			}
			if di >= 0 {
				if !first[di] {
					list[di] += ","
				}
				first[di] = false
				list[di] += name
			}
		}
	}
	for di, d := range c29Dirs {
		if !kvHas(h.listings, d, list[di]) {
			h.listings = append(h.listings, c29KV{d, list[di]})
		}
	}
	for _, p := range tracked {
		if !strHas(present, p) && !strHas(h.absent, p) {
			h.absent = append(h.absent, p)
		}
	}
}

//go:norace
func (h *c29Hist) attrSeen(path string, a *nfsclient.Fattr3) (bool, string) {
	k := "f"
	switch a.Type {
	case 2:
		return kvHas(h.attrs, path, "d"), "d"
	case 5:
		k = "l"
	}
	key := attrKey(k, a.Size, a.Mode&0o777)
	return kvHas(h.attrs, path, key), key
}

//go:norace
func (h *c29Hist) known(path string) []string {
	var out []string
	for i := range h.attrs {
		if h.attrs[i].k == path {
			out = append(out, h.attrs[i].v)
		}
	}
	return out
}

//go:norace
func (h *c29Hist) readSeen(path string, off, count int, data string) bool {
	for i := range h.contents {
		if h.contents[i].k != path {
			continue
		}
		c := h.contents[i].v
		want := ""
		if off < len(c) {
			end := off + count
			if end > len(c) {
				end = len(c)
			}
			want = c[off:end]
		}
		if want == data {
			return true
		}
	}
	return false
}

// readPrefixSeen: the data are a non-empty proper prefix of what some state held at that range. A READ
// racing with a WRITE that grows the file may legitimately return fewer bytes than the new state has
// (it sized its buffer before the write) as long as it does not claim eof.
//
//go:norace
func (h *c29Hist) readPrefixSeen(path string, off int, data string) bool {
	for i := range h.contents {
		if h.contents[i].k != path {
			continue
		}
		c := h.contents[i].v
		if len(data) > 0 && off+len(data) < len(c) && c[off:off+len(data)] == data {
			return true
		}
	}
	return false
}

// sizeAtMostSeen: some state of the file was no longer than end bytes (the eof flag of a READ is computed
// from attributes fetched after the data, i.e. possibly from a later state than the data)
//
//go:norace
func (h *c29Hist) sizeAtMostSeen(path string, end int) bool {
	for i := range h.contents {
		if h.contents[i].k == path && len(h.contents[i].v) <= end {
			return true
		}
	}
	return false
}

//go:norace
func (h *c29Hist) listingSeen(dir, l string) bool { return kvHas(h.listings, dir, l) }

//go:norace
func (h *c29Hist) wasAbsent(p string) bool { return strHas(h.absent, p) }

// ---- clients ----

type c29Client struct {
	idx  int
	cl   *Client
	dirs [2][]byte
	fh   map[string][]byte
	ops  []porcupine.Operation
	o    *Outcome
	hist *c29Hist
	sc   *C29Scn
}

func kindOf(t uint32) byte {
	switch t {
	case 1:
		return 'f'
	case 2:
		return 'd'
	case 5:
		return 'l'
	}
	return '?'
}

func (c *c29Client) checkAttr(op, path string, a *nfsclient.Fattr3) {
	if a == nil {
		return
	}
	c.o.Tick()
	if ok, key := c.hist.attrSeen(path, a); !ok {
		c.o.Vio("C29.attributes-of-a-state-never-held", fmt.Sprintf("op=%s,cached=%v", op, c.sc.Cached), "client %d %s %s: reply attributes %s (kind/size/perm) match no state the backend object ever had: %v", c.idx, op, path, key, c.hist.known(path))
	}
}

func (c *c29Client) rec(in c29In, out c29Out, call int64) {
	c.ops = append(c.ops, porcupine.Operation{ClientId: c.idx, Input: in, Call: call, Output: out, Return: simrt.Stamp()})
}

func splitPath(p string) (dir int, name string) {
	if strings.HasPrefix(p, "/d/") {
		return 1, p[3:]
	}
	return 0, p[1:]
}

// lookup performs and records a LOOKUP; it returns the handle (nil when absent).
func (c *c29Client) lookup(path string) []byte {
	d, name := splitPath(path)
	call := simrt.Stamp()
	r, err := c.cl.Lookup(c.dirs[d], name)
	if err != nil {
		c.noReply("lookup", path, err)
		return nil
	}
	out := c29Out{OK: r.Status == 0, Status: r.Status}
	if r.Status == 0 && r.Attr != nil {
		out.Kind, out.Size, out.Mode = kindOf(r.Attr.Type), r.Attr.Size, r.Attr.Mode
		c.checkAttr("lookup", path, r.Attr)
	} else if r.Status == 0 {
		out.Kind = '?'
	}
	c.rec(c29In{Op: "lookup", Path: path, Size: -1}, out, call)
	if r.Status != 0 {
		return nil
	}
	c.fh[path] = r.FH
	return r.FH
}

func (c *c29Client) noReply(op, path string, err error) {
	c.o.Tick()
	if err == errNotAccepted {
		c.o.Vio("C29.call-not-accepted", "op="+op, "client %d %s %s: the call was not accepted with SUCCESS", c.idx, op, path)
		return
	}
	c.o.Vio("C29.no-reply", "op="+op, "client %d %s %s: %v (fault-free run: every request must be answered)", c.idx, op, path, err)
}

func (c *c29Client) handle(path string) []byte {
	if fh := c.fh[path]; fh != nil {
		return fh
	}
	return c.lookup(path)
}

func (c *c29Client) run(ops []C29Op) {
	for _, op := range ops {
		if c.cl.Dead {
			return
		}
		path := c29Path(op.Dir, c.idx, op.Name)
		d, name := splitPath(path)
		switch op.Op {
		case "lookup":
			c.lookup(path)
		case "peek":
			// another client's name: staleness allowed, impossible states are not (cached mode only)
			pp := c29Path(op.Dir, op.Peer, op.Name)
			pd, pn := splitPath(pp)
			r, err := c.cl.Lookup(c.dirs[pd], pn)
			if err != nil {
				c.noReply("peek", pp, err)
				continue
			}
			c.o.Tick()
			if r.Status == 0 {
				c.checkAttr("peek", pp, r.Attr)
				if g, err := c.cl.Getattr(r.FH); err == nil && g.Status == 0 {
					c.checkAttr("peek-getattr", pp, g.Attr)
				}
				if op.Len > 0 && r.Attr != nil && r.Attr.Type == 1 {
					// and its data: whatever comes back is the content of some state the file had
					off, cnt := op.Off%48, 1+op.Len%64
					if rd, err := c.cl.Read(r.FH, uint64(off), uint32(cnt)); err == nil && rd.Status == 0 {
						c.checkAttr("peek-read", pp, rd.Attr)
						c.o.Tick()
						// (a READ is three backend steps - size, data, attributes for eof - and its parts may come from
						// different states when the owner changes the file meanwhile: data that are a proper prefix of
						// what some state held there are a short read; eof then needs some state that ended there)
						if !c.hist.readSeen(pp, off, cnt, string(rd.Data)) && !(c.hist.readPrefixSeen(pp, off, string(rd.Data)) && (!rd.EOF || c.hist.sizeAtMostSeen(pp, off+len(rd.Data)))) {
							c.o.Vio("C29.read-data-of-no-state", fmt.Sprintf("cached=%v,peer", c.sc.Cached), "client %d READ of client %d's %s off=%d count=%d returned %x, which is the content of no state the file ever had", c.idx, op.Peer, pp, off, cnt, rd.Data)
						}
					}
				}
			} else if !c.hist.wasAbsent(pp) && !c.sc.hasErrFaults() {
				c.o.Vio("C29.absence-never-true", "op=peek", "client %d LOOKUP %s failed with status %d although the name existed during the whole run", c.idx, pp, r.Status)
			}
		case "create", "mkdir", "symlink":
			call := simrt.Stamp()
			var r *nfsclient.CreateRes
			var err error
			in := c29In{Op: op.Op, Path: path, Size: -1}
			switch op.Op {
			case "create":
				r, err = c.cl.Create(c.dirs[d], name, 0, nfsclient.Sattr3{Mode: u32p(0o644)}, [8]byte{})
			case "mkdir":
				var x any
				x, _, err = c.cl.NFS(nfsclient.NFSProcMkdir, nfsclient.ArgsMkdir(c.dirs[d], name, nfsclient.Sattr3{Mode: u32p(0o755)}))
				if err == nil && x != nil {
					r = x.(*nfsclient.CreateRes)
				} else if err == nil {
					err = errNotAccepted
				}
			case "symlink":
				in.Data = "tgt"
				var x any
				x, _, err = c.cl.NFS(nfsclient.NFSProcSymlink, nfsclient.ArgsSymlink(c.dirs[d], name, nfsclient.Sattr3{}, "tgt"))
				if err == nil && x != nil {
					r = x.(*nfsclient.CreateRes)
				} else if err == nil {
					err = errNotAccepted
				}
			}
			if err != nil {
				c.noReply(op.Op, path, err)
				continue
			}
			c.rec(in, c29Out{OK: r.Status == 0, Status: r.Status}, call)
			if r.Status == 0 {
				c.checkAttr(op.Op, path, r.Attr)
				if r.FH != nil {
					c.fh[path] = r.FH
				}
			}
		case "remove", "rmdir":
			proc := uint32(nfsclient.NFSProcRemove)
			if op.Op == "rmdir" {
				proc = nfsclient.NFSProcRmdir
			}
			call := simrt.Stamp()
			x, _, err := c.cl.NFS(proc, nfsclient.ArgsDirOp(c.dirs[d], name))
			if err != nil || x == nil {
				c.noReply(op.Op, path, orNotAccepted(err))
				continue
			}
			r := x.(*nfsclient.RemoveRes)
			c.rec(c29In{Op: op.Op, Path: path, Size: -1}, c29Out{OK: r.Status == 0, Status: r.Status}, call)
			if r.Status == 0 {
				delete(c.fh, path)
			}
		case "rename":
			p2 := c29Path(op.Dir2, c.idx, op.Name2)
			d2, n2 := splitPath(p2)
			call := simrt.Stamp()
			x, _, err := c.cl.NFS(nfsclient.NFSProcRename, nfsclient.ArgsRename(c.dirs[d], name, c.dirs[d2], n2))
			if err != nil || x == nil {
				c.noReply("rename", path, orNotAccepted(err))
				continue
			}
			r := x.(*nfsclient.RenameRes)
			c.rec(c29In{Op: "rename", Path: path, Path2: p2, Size: -1}, c29Out{OK: r.Status == 0, Status: r.Status}, call)
			if r.Status == 0 {
				delete(c.fh, path)
				delete(c.fh, p2)
			}
		case "write":
			fh := c.handle(path)
			if fh == nil {
				continue
			}
			data := PayloadBytes(op.Seed, 1+op.Len%40)
			call := simrt.Stamp()
			r, err := c.cl.Write(fh, uint64(op.Off%48), 2, data)
			if err != nil {
				c.noReply("write", path, err)
				continue
			}
			c.rec(c29In{Op: "write", Path: path, Off: op.Off % 48, Data: string(data), Size: -1}, c29Out{OK: r.Status == 0, Status: r.Status, Count: r.Count}, call)
			if r.Status == 0 {
				c.checkAttr("write", path, r.Wcc.After)
			}
		case "read":
			fh := c.handle(path)
			if fh == nil {
				continue
			}
			call := simrt.Stamp()
			cnt := 1 + op.Len%64
			r, err := c.cl.Read(fh, uint64(op.Off%48), uint32(cnt))
			if err != nil {
				c.noReply("read", path, err)
				continue
			}
			c.rec(c29In{Op: "read", Path: path, Off: op.Off % 48, Count: cnt, Size: -1}, c29Out{OK: r.Status == 0, Status: r.Status, Data: string(r.Data), EOF: r.EOF}, call)
			if r.Status == 0 {
				c.checkAttr("read", path, r.Attr)
				c.o.Tick()
				if !c.hist.readSeen(path, op.Off%48, cnt, string(r.Data)) {
					c.o.Vio("C29.read-data-of-no-state", fmt.Sprintf("cached=%v", c.sc.Cached), "client %d READ %s off=%d count=%d returned %x, which is the content of no state the file ever had", c.idx, path, op.Off%48, cnt, r.Data)
				}
			}
		case "getattr":
			fh := c.handle(path)
			if fh == nil {
				continue
			}
			call := simrt.Stamp()
			r, err := c.cl.Getattr(fh)
			if err != nil {
				c.noReply("getattr", path, err)
				continue
			}
			out := c29Out{OK: r.Status == 0, Status: r.Status}
			if r.Status == 0 && r.Attr != nil {
				out.Kind, out.Size, out.Mode = kindOf(r.Attr.Type), r.Attr.Size, r.Attr.Mode
				c.checkAttr("getattr", path, r.Attr)
			}
			c.rec(c29In{Op: "getattr", Path: path, Size: -1}, out, call)
		case "setattr":
			fh := c.handle(path)
			if fh == nil {
				continue
			}
			sa := nfsclient.Sattr3{}
			in := c29In{Op: "setattr", Path: path, Size: -1}
			if op.Mode != 0 {
				sa.Mode = u32p(op.Mode & 0o777)
				in.Mode, in.HasMode = op.Mode&0o777, true
			}
			if op.Size >= 0 {
				sa.Size = u64p(uint64(op.Size % 64))
				in.Size = op.Size % 64
			}
			call := simrt.Stamp()
			r, err := c.cl.Setattr(fh, sa)
			if err != nil {
				c.noReply("setattr", path, err)
				continue
			}
			c.rec(in, c29Out{OK: r.Status == 0, Status: r.Status}, call)
			if r.Status == 0 {
				c.checkAttr("setattr", path, r.Wcc.After)
			}
		case "dsetattr", "dgetattr":
			// the shared directory itself, through the handle every client holds
			dir := c29Dirs[op.Dir%2]
			call := simrt.Stamp()
			if op.Op == "dsetattr" {
				r, err := c.cl.Setattr(c.dirs[op.Dir%2], nfsclient.Sattr3{Mode: u32p([]uint32{0o755, 0o750, 0o711}[op.Name%3])})
				if err != nil {
					c.noReply("dsetattr", dir, err)
					continue
				}
				c.rec(c29In{Op: "dsetattr", Path: dir, Size: -1}, c29Out{OK: r.Status == 0, Status: r.Status}, call)
			} else {
				r, err := c.cl.Getattr(c.dirs[op.Dir%2])
				if err != nil {
					c.noReply("dgetattr", dir, err)
					continue
				}
				out := c29Out{OK: r.Status == 0, Status: r.Status}
				if r.Status == 0 && r.Attr != nil {
					out.Kind = kindOf(r.Attr.Type)
				}
				c.rec(c29In{Op: "dgetattr", Path: dir, Size: -1}, out, call)
			}
		case "readdir", "readdirplus":
			dir := c29Dirs[op.Dir%2]
			call := simrt.Stamp()
			var x any
			var err error
			if op.Op == "readdirplus" {
				x, _, err = c.cl.NFS(nfsclient.NFSProcReaddirplus, nfsclient.ArgsReaddirplus(c.dirs[op.Dir%2], 0, [8]byte{}, 8192, 32768))
			} else {
				x, _, err = c.cl.NFS(nfsclient.NFSProcReaddir, nfsclient.ArgsReaddir(c.dirs[op.Dir%2], 0, [8]byte{}, 8192))
			}
			if err != nil || x == nil {
				c.noReply(op.Op, dir, orNotAccepted(err))
				continue
			}
			r := x.(*nfsclient.ReaddirRes)
			var names []string
			for _, e := range r.Entries {
				if e.Name != "." && e.Name != ".." {
					names = append(names, e.Name)
					if e.Attr != nil && strings.HasPrefix(e.Name, "c") {
						// READDIRPLUS: the attributes of each entry are those of some state the object had
						c.checkAttr("readdirplus", strings.TrimSuffix(dir, "/")+"/"+e.Name, e.Attr)
					}
				}
			}
			sort.Strings(names)
			l := strings.Join(names, ",")
			c.rec(c29In{Op: "readdir", Path: dir, Size: -1}, c29Out{OK: r.Status == 0 && r.EOF, Status: r.Status, Names: l}, call)
			c.o.Tick()
			if r.Status == 0 && r.EOF && !c.hist.listingSeen(dir, l) {
				c.o.Vio("C29.listing-of-no-state", fmt.Sprintf("cached=%v", c.sc.Cached), "client %d READDIR %s returned [%s], a set of names the directory never held at any instant", c.idx, dir, l)
			}
		}
	}
}

// runC29 is C29's own run: it keeps the verdicts stated under C29's name.
func runC29(t *testing.T, scAny any, trace bool) *Outcome {
	return keepOwned(runC29All(t, scAny, trace), "C29.")
}

// keepOwned drops the verdicts that belong to other properties' checks.
func keepOwned(o *Outcome, owners ...string) *Outcome {
	kept := o.Violations[:0]
	for _, v := range o.Violations {
		for _, pre := range owners {
			if strings.HasPrefix(v.Signature, pre) {
				kept = append(kept, v)
				break
			}
		}
	}
	o.Violations = kept
	return o
}

func runC29All(t *testing.T, scAny any, trace bool) *Outcome {
	sc := scAny.(*C29Scn)
	o := &Outcome{HorizonOK: true}
	var all []porcupine.Operation
	init := &c29Model{ents: map[string]c29Ent{"/d": {kind: 'd'}}}
	finished := false
	total := 0
	res := Bubble(t, sc.Sched.config(trace), nil, func() {
		simrt.Event("scenario %x", simrt.Hash(hashBytes(mustJSON(sc))))
		w := NewWorld(o)
		w.FS.MustMkdir("/d", 0o755)
		var tracked []string
		for ci := range sc.Clients {
			for d := 0; d < 2; d++ {
				for n := 0; n < 3; n++ {
					tracked = append(tracked, c29Path(d, ci, n))
				}
			}
			if ci < len(sc.Pre) && sc.Pre[ci] {
				data := PayloadBytes(uint64(900+ci), 20)
				w.FS.MustWriteFile(c29Path(0, ci, 0), data, 0o644)
				init.ents[c29Path(0, ci, 0)] = c29Ent{kind: 'f', data: string(data)}
			}
		}
		for _, f := range sc.Stalls {
			if f.Kind == "stall" || f.Kind == "stall_ret" {
				w.FS.AddFault(f)
			}
		}
		hist := &c29Hist{}
		hist.record(w.FS, tracked)
		w.FS.OnRet = func(c simfs.Call) {
			if c.Mutating {
				hist.record(w.FS, tracked)
			}
		}
		opts := absnfs.ExportOptions{MaxWorkers: sc.Workers, AttrCacheTimeout: time.Nanosecond, AttrCacheSize: 1}
		if sc.Cached {
			opts = absnfs.ExportOptions{MaxWorkers: sc.Workers, AttrCacheTimeout: time.Hour, EnableDirCache: true, DirCacheTimeout: time.Hour, CacheNegativeLookups: true, NegativeCacheTimeout: time.Hour}
		}
		if err := w.Start(opts); err != nil {
			o.Inconclusive = "start: " + err.Error()
			return
		}
		var clients []*c29Client
		for ci := range sc.Clients {
			cl, err := w.Dial(fmt.Sprintf("10.0.0.%d:%d", 10+ci, 800+ci), RootCred, nil)
			if err != nil {
				o.Inconclusive = "dial"
				return
			}
			root, _, err := cl.Mount("/")
			if err != nil {
				o.Inconclusive = "mount"
				return
			}
			lr, err := cl.Lookup(root, "d")
			if err != nil || lr.Status != 0 {
				o.Inconclusive = "lookup d"
				return
			}
			clients = append(clients, &c29Client{idx: ci, cl: cl, dirs: [2][]byte{root, lr.FH}, fh: map[string][]byte{}, o: o, hist: hist, sc: sc})
		}
		if !sc.Cached {
			// minimal TTL: let the set-up entries expire before the concurrent phase
			simrt.Sleep(time.Millisecond)
		}
		for _, f := range sc.Stalls {
			if f.Kind != "stall" && f.Kind != "stall_ret" {
				w.FS.AddFault(f) // backend errors start with the concurrent phase (the set-up above is not what is judged)
			}
		}
		done := make(chan int, len(clients))
		for ci, c := range clients {
			ci, c := ci, c
			simrt.Go(fmt.Sprintf("client-%d", ci), func() {
				defer simrt.Send("client.done", done, ci)
				c.run(sc.Clients[ci])
			})
		}
		for range clients {
			simrt.Recv("clients.wait", done)
		}
		finished = true
		for _, c := range clients {
			all = append(all, c.ops...)
			total += len(c.ops)
		}
		// afterwards: what a fresh client is told agrees with the backend (judged under the names of the
		// properties that speak about replies: C02, C04, C07, C26 - kept only when the run belongs to their checks)
		w.FS.ClearFaults()
		c29AfterQuiescence(o, w, sc, tracked)
		// ... and handle table and caches agree with the backend
		c29Agreement(o, w, sc)
		for _, c := range clients {
			c.cl.Close()
		}
		w.Stop()
	})
	o.finish(res, "C29")
	o.NonTrivial = total >= 4 && len(sc.Clients) >= 2
	if res != nil {
		for _, p := range res.Panics {
			o.Vio("C29.panic", panicFacts(p), "%s", firstLines(p, 14))
		}
		if !finished && o.Inconclusive == "" {
			for _, l := range res.Leaked {
				if contains(l, "client-") {
					o.Vio("C29.deadlock", "where="+blockedWhere(l), "a client is still waiting at the end of simulated time: %s", l)
				}
			}
		}
	}
	if !finished || sc.Cached || len(o.Violations) > 0 {
		return o
	}
	// linearizability of the recorded history against the path-based specification
	model := porcupine.Model{
		Init: func() any { return init.clone() },
		Step: func(state, in, out any) (bool, any) {
			st := state.(*c29Model).clone()
			ok := st.step(in.(c29In), out.(c29Out))
			if !ok {
				return false, state
			}
			return true, st
		},
		Equal:             func(a, b any) bool { return a.(*c29Model).equal(b.(*c29Model)) },
		DescribeOperation: func(in, out any) string { return fmt.Sprintf("%+v -> %+v", in, out) },
	}
	o.Checks++
	r := porcupine.CheckOperationsTimeout(model, all, 10*time.Second)
	switch r {
	case porcupine.Illegal:
		sort.Slice(all, func(i, j int) bool { return all[i].Call < all[j].Call })
		var sb strings.Builder
		for _, op := range all {
			in, out := op.Input.(c29In), op.Output.(c29Out)
			fmt.Fprintf(&sb, "c%d[%d,%d] %s %s %s off=%d len=%d -> ok=%v st=%d kind=%c size=%d names=[%s] data=%x\n", op.ClientId, op.Call, op.Return, in.Op, in.Path, in.Path2, in.Off, len(in.Data)+in.Count, out.OK, out.Status, printable(out.Kind), out.Size, out.Names, out.Data)
		}
		// the operation kinds involved give the signature
		o.Vio("C29.not-linearizable", "culprit="+c29Culprit(model, all), "with caches at minimal TTL the history equals no serial execution that respects real-time order:\n%s", sb.String())
	case porcupine.Unknown:
		if o.Res != nil {
			if o.Res.Probes == nil {
				o.Res.Probes = map[string]int{}
			}
			o.Res.Probes["linearizability_check_timed_out"]++
		}
	}
	return o
}

func printable(b byte) byte {
	if b == 0 {
		return '-'
	}
	return b
}

// c29Culprit names the operation kind whose removal makes the history linearizable
// (first such kind in a fixed order), for a stable signature.
func c29Culprit(model porcupine.Model, all []porcupine.Operation) string {
	for _, k := range []string{"readdir", "lookup", "getattr", "read", "write", "setattr", "create", "mkdir", "symlink", "remove", "rmdir", "rename"} {
		var rest []porcupine.Operation
		n := 0
		for _, op := range all {
			in := op.Input.(c29In)
			// only observers can be dropped without changing the state others see
			if in.Op == k && (k == "readdir" || k == "lookup" || k == "getattr" || k == "read") {
				n++
				continue
			}
			rest = append(rest, op)
		}
		if n == 0 {
			continue
		}
		if porcupine.CheckOperationsTimeout(model, rest, 5*time.Second) == porcupine.Ok {
			return k
		}
	}
	return "mutation"
}

// c29Agreement: after the run the handle table and the caches agree with the backend.
// c29AfterQuiescence: every request of the concurrent phase has been answered. A fresh client now looks every
// tracked name up and lists both directories; with caches enabled and long-lived, whatever a request of the
// concurrent phase wrongly left behind in a cache is what these replies are made of.
func c29AfterQuiescence(o *Outcome, w *World, sc *C29Scn, tracked []string) {
	for _, c := range w.FS.CallsSince(0) {
		for _, p := range []string{c.Path, pathArg2(c)} {
			if p != "" && (!strings.HasPrefix(p, "/") || cleanPath(p) != p) {
				o.Vio("C07.unclean-backend-path", "op="+c.Op+",concurrent", "backend call %s(%q) made during the concurrent phase is not absolute and normalized", c.Op, p)
				return
			}
		}
	}
	cl, err := w.Dial("10.0.0.99:999", RootCred, nil)
	if err != nil {
		return
	}
	defer cl.Close()
	root, _, err := cl.Mount("/")
	if err != nil || root == nil {
		return
	}
	dl, err := cl.Lookup(root, "d")
	if err != nil || dl == nil || dl.Status != 0 {
		return
	}
	dirs := [2][]byte{root, dl.FH}
	for _, p := range tracked {
		d, name := splitPath(p)
		r, err := cl.Lookup(dirs[d], name)
		if err != nil || r == nil {
			return
		}
		n := w.FS.Lookup(p)
		o.Tick()
		switch {
		case r.Status == nfsclient.NFS3ERR_NOENT && n != nil:
			o.Vio("C02.cache-hides-completed-mutation", "kind=existing-name-not-found,after-concurrent-phase", "after every request of the concurrent phase had been answered, LOOKUP %s says NFS3ERR_NOENT; the backend has it", p)
		case r.Status == 0 && n == nil:
			o.Vio("C02.cache-hides-completed-mutation", "kind=vanished-name-found,after-concurrent-phase", "after every request of the concurrent phase had been answered, LOOKUP %s succeeds; the backend has no such object", p)
		case r.Status == 0 && r.Attr != nil:
			isDir := r.Attr.Type == 2
			if isDir != (n.Kind == simfs.KindDir) {
				o.Vio("C04.type-vs-backend", "proc=LOOKUP,after-concurrent-phase", "LOOKUP %s reports type %d, the backend has kind %d", p, r.Attr.Type, n.Kind)
			} else if n.Kind == simfs.KindFile && r.Attr.Size != uint64(n.Size) {
				o.Vio("C04.size-vs-backend", "proc=LOOKUP,after-concurrent-phase", "after every request of the concurrent phase had been answered, LOOKUP %s reports size %d, backend lstat says %d", p, r.Attr.Size, n.Size)
			} else if n.Kind != simfs.KindSymlink && r.Attr.Mode&0o777 != uint32(n.Perm.Perm()) {
				o.Vio("C04.mode-vs-backend", "proc=LOOKUP,after-concurrent-phase", "after every request of the concurrent phase had been answered, LOOKUP %s reports mode %o, backend lstat says %o", p, r.Attr.Mode&0o777, n.Perm.Perm())
			}
		}
	}
	snap := w.FS.Snapshot()
	for d, dn := range c29Dirs {
		x, _, err := cl.NFS(nfsclient.NFSProcReaddirplus, nfsclient.ArgsReaddirplus(dirs[d], 0, [8]byte{}, 32768, 65536))
		if err != nil || x == nil {
			return
		}
		rr, ok := x.(*nfsclient.ReaddirRes)
		if !ok || rr.Status != 0 {
			continue
		}
		got := map[string]bool{}
		for _, e := range rr.Entries {
			if e.Name != "." && e.Name != ".." {
				got[e.Name] = true
			}
		}
		pre := dn
		if pre != "/" {
			pre += "/"
		}
		o.Tick()
		for _, n := range snap {
			if n.Path != "/" && strings.HasPrefix(n.Path, pre) && !strings.Contains(n.Path[len(pre):], "/") {
				name := n.Path[len(pre):]
				if !got[name] {
					o.Vio("C26.readdir-missing-entry", "plus=true,after-concurrent-phase", "after every request of the concurrent phase had been answered, READDIRPLUS of %s (one page, eof=%v) does not list %q, which the backend has", dn, rr.EOF, name)
				}
				delete(got, name)
			}
		}
		for name := range got {
			o.Vio("C26.readdir-extra-entry", "plus=true,after-concurrent-phase", "after every request of the concurrent phase had been answered, READDIRPLUS of %s lists %q, which the backend does not have", dn, name)
			break
		}
	}
}

func c29Agreement(o *Outcome, w *World, sc *C29Scn) {
	o.Tick()
	for _, e := range absnfs.VerifAttrCacheDump(absnfs.VerifAttrCache(w.NFS)) {
		if e.Expired {
			continue
		}
		n := w.FS.Lookup(e.Path)
		switch {
		case e.Negative && n != nil:
			o.Vio("C29.cache-disagrees-with-backend", "cache=attr,kind=negative-for-existing", "after the run the attribute cache holds an unexpired negative entry for %s, which exists", e.Path)
		case !e.Negative && n == nil:
			o.Vio("C29.cache-disagrees-with-backend", "cache=attr,kind=entry-for-absent", "after the run the attribute cache holds unexpired attributes for %s, which does not exist", e.Path)
		case !e.Negative:
			isDir := e.Mode&os.ModeDir != 0
			if isDir != (n.Kind == simfs.KindDir) || (n.Kind == simfs.KindFile && e.Size != n.Size) || (n.Kind != simfs.KindSymlink && e.Mode.Perm() != n.Perm.Perm()) {
				o.Vio("C29.cache-disagrees-with-backend", "cache=attr,kind=stale-attributes", "after the run the attribute cache holds for %s mode=%v size=%d, the backend has kind=%d perm=%v size=%d", e.Path, e.Mode, e.Size, n.Kind, n.Perm, n.Size)
			}
		}
	}
	if dc := absnfs.VerifDirCache(w.NFS); dc != nil {
		snap := w.FS.Snapshot()
		dump := absnfs.VerifDirCacheDump(dc)
		var dirs []string
		for d := range dump {
			dirs = append(dirs, d)
		}
		sort.Strings(dirs)
		for _, d := range dirs {
			var want []string
			pre := d
			if pre != "/" {
				pre += "/"
			}
			for _, n := range snap {
				if n.Path != "/" && strings.HasPrefix(n.Path, pre) && !strings.Contains(n.Path[len(pre):], "/") {
					want = append(want, n.Path[len(pre):])
				}
			}
			sort.Strings(want)
			if strings.Join(want, ",") != strings.Join(dump[d], ",") {
				o.Vio("C29.cache-disagrees-with-backend", "cache=dir", "after the run the directory cache holds for %s the listing %v, the backend has %v", d, dump[d], want)
			}
		}
	}
	hs := absnfs.VerifHandles(absnfs.VerifFileMap(w.NFS))
	ph := absnfs.VerifPathHandles(absnfs.VerifFileMap(w.NFS))
	seen := map[string]uint64{}
	var ids []uint64
	for id := range hs {
		ids = append(ids, id)
	}
	sort.Slice(ids, func(i, j int) bool { return ids[i] < ids[j] })
	for _, id := range ids {
		p := hs[id]
		if other, dup := seen[p]; dup {
			o.Vio("C29.handle-table-inconsistent", "kind=two-handles-one-path", "after the run handles %d and %d both denote %s", other, id, p)
		}
		seen[p] = id
		if ph[p] != id {
			o.Vio("C29.handle-table-inconsistent", "kind=path-index-disagrees", "after the run handle %d denotes %s but the path index maps %s to %d", id, p, p, ph[p])
		}
	}
	var ps []string
	for p := range ph {
		ps = append(ps, p)
	}
	sort.Strings(ps)
	for _, p := range ps {
		if hs[ph[p]] != p {
			o.Vio("C29.handle-table-inconsistent", "kind=dangling-path-index", "after the run the path index maps %s to handle %d, which denotes %q", p, ph[p], hs[ph[p]])
		}
	}
}

func genC29(r *simrt.Rand, tier string) any { return genC29Mode(r, tier, r.Pct(40)) }

// genC29Mode draws a scenario for the given cache mode (peeks at other clients' names, the hot-object motif
// and backend errors exist only with caches enabled).
func genC29Mode(r *simrt.Rand, tier string, cached bool) any {
	sc := &C29Scn{Cached: cached, Workers: 1 + r.Int(4), Sched: RandSched(r)}
	sc.Sched.HorizonS = 900
	nc := 2 + r.Int(3)
	budget := 14
	long := cached && r.Pct(35) // no linearizability search in cached mode: histories may be longer
	if long {
		budget = 44
	}
	for ci := 0; ci < nc; ci++ {
		sc.Pre = append(sc.Pre, r.Pct(50))
		n := 2 + r.Int(4)
		if long {
			n = 6 + r.Int(9)
		}
		if n > budget-2*(nc-ci-1) {
			n = budget - 2*(nc-ci-1)
		}
		if n < 1 {
			n = 1
		}
		budget -= n
		var ops []C29Op
		for i := 0; i < n; i++ {
			op := C29Op{Dir: r.Int(2), Name: r.Int(2), Size: -1}
			if r.Pct(60) {
				op.Dir, op.Name = 0, 0 // the pre-existing / most contended name
			}
			switch r.Pick([]int{16, 6, 4, 8, 3, 8, 12, 10, 8, 6, 6, 13, 8, 5, 3}) {
			case 13:
				op.Op = "dsetattr"
				op.Dir = r.Int(2)
			case 14:
				op.Op = "dgetattr"
				op.Dir = r.Int(2)
			case 0:
				op.Op = "create"
			case 1:
				op.Op = "mkdir"
			case 2:
				op.Op = "symlink"
			case 3:
				op.Op = "remove"
			case 4:
				op.Op = "rmdir"
			case 5:
				op.Op = "rename"
				op.Dir2, op.Name2 = r.Int(2), r.Int(3)
			case 6:
				op.Op = "write"
				op.Off, op.Len, op.Seed = []int{0, 0, 5, 30}[r.Int(4)], r.Int(40), r.Uint64()
			case 7:
				op.Op = "read"
				op.Off, op.Len = []int{0, 0, 3, 25}[r.Int(4)], 10+r.Int(50)
			case 8:
				op.Op = "lookup"
			case 9:
				op.Op = "getattr"
			case 10:
				op.Op = "setattr"
				if r.Pct(60) {
					op.Mode = []uint32{0o600, 0o640, 0o755, 0o400}[r.Int(4)]
				}
				if r.Pct(50) || op.Mode == 0 {
					op.Size = []int{0, 3, 17, 50}[r.Int(4)]
				}
			case 11:
				op.Op = []string{"readdir", "readdirplus"}[r.Int(2)]
				op.Dir = r.Int(2)
			case 12:
				if sc.Cached {
					op.Op = "peek"
					op.Peer = r.Int(nc)
					if r.Pct(40) {
						op.Off, op.Len = []int{0, 0, 3, 25}[r.Int(4)], 10+r.Int(50)
					}
				} else {
					op.Op = "readdir"
					op.Dir = 0
				}
			}
			ops = append(ops, op)
		}
		sc.Clients = append(sc.Clients, ops)
	}
	if sc.Cached && r.Pct(50) {
		// hot object: client 0 keeps changing its name 0 while the others keep looking at it, so that cache
		// fills by one request race with invalidations by another
		sc.Pre[0] = true
		for i := range sc.Clients[0] {
			op := &sc.Clients[0][i]
			op.Dir, op.Name = 0, 0
			switch r.Int(5) {
			case 0, 1:
				op.Op, op.Off, op.Len, op.Seed = "write", r.Int(30), r.Int(40), r.Uint64()
			case 2:
				op.Op, op.Mode, op.Size = "setattr", []uint32{0o600, 0o640}[r.Int(2)], []int{-1, 3, 50}[r.Int(3)]
			case 3:
				op.Op = "remove"
			case 4:
				op.Op = "create"
			}
		}
		for ci := 1; ci < len(sc.Clients); ci++ {
			for i := range sc.Clients[ci] {
				if r.Pct(55) {
					sc.Clients[ci][i] = C29Op{Op: "peek", Dir: 0, Name: 0, Peer: 0, Size: -1}
					if r.Pct(30) {
						sc.Clients[ci][i].Off, sc.Clients[ci][i].Len = r.Int(30), 10+r.Int(50)
					}
				} else if r.Pct(70) {
					// ... and list its directory (a listing read just before the last create/remove in it must not
					// be what the directory cache keeps)
					sc.Clients[ci][i] = C29Op{Op: []string{"readdirplus", "readdir"}[r.Int(2)], Dir: 0, Size: -1}
				}
			}
		}
	}
	if sc.Cached && r.Pct(20) {
		// backend errors in the middle of concurrent requests (cached mode only: the linearizability specification
		// of mode A has no notion of a request that fails for no reason of its own). Every request is still
		// answered, nothing deadlocks, replies that succeed still describe real states, and afterwards handle
		// table and caches agree with the backend.
		for k, n := 0, 1+r.Int(2); k < n; k++ {
			sc.Stalls = append(sc.Stalls, simfs.Fault{Op: []string{"Stat", "Lstat", "OpenFile", "File.Sync", "Chtimes", "Remove", "Rename", "Create", "File.Close", "Chmod"}[r.Int(10)], Nth: 1 + r.Int(8), Kind: "eio"})
		}
		if r.Pct(25) {
			// the backend's directory read breaks off half-way: some entries AND an error
			sc.Stalls = append(sc.Stalls, simfs.Fault{Op: "File.Readdir", Nth: 1 + r.Int(4), Kind: "short", Short: r.Int(3)})
		}
	}
	if r.Pct(40) {
		for k := 0; k < 1+r.Int(2); k++ {
			sc.Stalls = append(sc.Stalls, simfs.Fault{Op: []string{"Lstat", "Stat", "ReadDir", "OpenFile", "Rename", "Remove", "", "File.Stat", "File.ReadAt", "Truncate", "File.Readdir", "File.Readdir"}[r.Int(12)], Nth: 1 + r.Int(10), Kind: []string{"stall", "stall_ret"}[r.Int(2)],
				Stall: []time.Duration{time.Microsecond, time.Millisecond, 20 * time.Millisecond}[r.Int(3)]})
		}
	}
	return sc
}

func shrinkC29(scAny any) []any {
	sc := scAny.(*C29Scn)
	var out []any
	cp := func() *C29Scn {
		c := *sc
		c.Clients = make([][]C29Op, len(sc.Clients))
		for i := range sc.Clients {
			c.Clients[i] = append([]C29Op(nil), sc.Clients[i]...)
		}
		c.Stalls = append([]simfs.Fault(nil), sc.Stalls...)
		c.Pre = append([]bool(nil), sc.Pre...)
		return &c
	}
	for i := range sc.Clients {
		if len(sc.Clients) > 2 && i == len(sc.Clients)-1 {
			c := cp()
			c.Clients = c.Clients[:i]
			out = append(out, c)
		}
		for j := range sc.Clients[i] {
			c := cp()
			c.Clients[i] = append(c.Clients[i][:j], c.Clients[i][j+1:]...)
			out = append(out, c)
		}
	}
	for i := range sc.Stalls {
		c := cp()
		c.Stalls = append(c.Stalls[:i], c.Stalls[i+1:]...)
		out = append(out, c)
	}
	return out
}

func init() {
	Register(&Prop{ID: "C29", Level: "exploration", Race: true,
		Rule: "one case = 2-4 clients on their own connections issuing 2-5 requests each (<= 14 in total) from CREATE/MKDIR/SYMLINK/REMOVE/RMDIR/RENAME/WRITE/READ/LOOKUP/GETATTR/SETATTR/READDIR on their own names (3 per client) in two shared directories through shared directory handles, plus SETATTR(mode)/GETATTR of the shared directories themselves, payloads unique per write, 0-2 backend calls delayed by 1 us-20 ms (before the call does its work, or - a slow answer - between its work and its return, so that what the caller holds describes the past), 1-4 workers, every lock/channel/select/network/backend interleaving decided by the seeded scheduler (random, PCT, sticky), also built with -race; mode A (60%): caches at minimal TTL/size: the invoke/return history (stamped with scheduler event numbers) is checked with porcupine against a path-based specification of the twelve procedures (status success/failure, kind, size, mode, data, eof, complete listing); mode B (40%; in a fifth of these 1-2 backend calls fail with EIO): caches on with 1 h TTLs plus cross-client LOOKUP/GETATTR of other clients' names: every attribute block, READ payload and listing in a reply must be one the backend object really had at some instant (history recorded atomically at every mutating backend call), and a failed lookup needs an instant of absence; both modes: every request answered, no panic, no deadlock (client blocked at the horizon), and afterwards every unexpired attribute-cache entry, directory-cache listing and the handle table (bijection of ids and paths) agree with the backend; a quarter of the backend-error cases also let a directory read break off half-way (some entries and an error); non-trivial = at least 4 recorded operations from at least 2 clients; distinct by event digest; linearizability time-outs (10 s) are counted, never reported",
		Gen:  genC29, New: func() any { return &C29Scn{} }, Run: runC29, Shrink: shrinkC29,
		Real: seqReal, Stubbed: seqStubbed})
}
