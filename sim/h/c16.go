package h

import (
	"fmt"
	"net"
	"strings"
	"testing"
	"time"

	"github.com/absfs/absnfs"

	"verif/sim/nfsclient"
	"verif/sim/simfs"
	"verif/sim/simrt"
)

// C16: policy updates are atomic with respect to requests (drain-and-swap).

type PolSpec struct {
	ReadOnly bool     `json:"read_only,omitempty"`
	Secure   bool     `json:"secure,omitempty"`
	Allowed  []string `json:"allowed,omitempty"`
	RL       bool     `json:"rl,omitempty"`          // rate limiting with per-IP burst 1, 1 request/s
	RLGen    bool     `json:"rl_generous,omitempty"` // rate limiting on, generous request limits, tight per-operation limits (mount, readdir, large I/O)
	MaxFile  int64    `json:"max_file,omitempty"`    // MaxFileSize (values far above anything the workload writes: only the policy value changes)
}

func (p PolSpec) policy() absnfs.PolicyOptions {
	po := absnfs.PolicyOptions{ReadOnly: p.ReadOnly, Secure: p.Secure, AllowedIPs: p.Allowed, EnableRateLimiting: p.RL || p.RLGen, MaxFileSize: p.MaxFile}
	if p.RLGen && !p.RL {
		po.RateLimitConfig = &absnfs.RateLimiterConfig{GlobalRequestsPerSecond: 1000000, PerIPRequestsPerSecond: 100000, PerIPBurstSize: 100000,
			PerConnectionRequestsPerSecond: 0, ReadLargeOpsPerSecond: 1, WriteLargeOpsPerSecond: 1, ReaddirOpsPerSecond: 1, MountOpsPerMinute: 1, CleanupInterval: time.Hour}
	}
	if p.RL {
		po.RateLimitConfig = &absnfs.RateLimiterConfig{GlobalRequestsPerSecond: 1000, PerIPRequestsPerSecond: 1, PerIPBurstSize: 1,
			PerConnectionRequestsPerSecond: 0, ReadLargeOpsPerSecond: 100, WriteLargeOpsPerSecond: 100, ReaddirOpsPerSecond: 100, MountOpsPerMinute: 600, CleanupInterval: time.Hour}
	}
	return po
}

type C16Op struct {
	Op      string `json:"op"` // NULL GETATTR LOOKUP READ WRITE CREATE REMOVE BURST
	PauseUs int    `json:"pause_us,omitempty"`
	Name    string `json:"name,omitempty"`
}

type C16Client struct {
	Addr    string  `json:"addr"`
	StartUs int     `json:"start_us,omitempty"` // when the connection is opened
	Ops     []C16Op `json:"ops"`
}

type C16Admin struct {
	AtUs      int     `json:"at_us"`
	Pol       PolSpec `json:"pol"`
	ViaExport bool    `json:"via_export,omitempty"`
}

type C16Scn struct {
	Init      PolSpec       `json:"init"`
	Workers   int           `json:"workers"`
	TimeoutMs int           `json:"timeout_ms"` // DefaultTimeout of HandleCall
	Clients   []C16Client   `json:"clients"`
	Admin     []C16Admin    `json:"admin"`
	Stalls    []simfs.Fault `json:"stalls,omitempty"`
	Sched     SchedCfg      `json:"sched"`
}

type polEra struct {
	spec  PolSpec
	ptr   *absnfs.PolicyOptions
	start int64 // stamp when the update that installs it was called (0 for the initial policy)
	ret   int64 // stamp when that update returned (0 for the initial policy; -1 while pending)
}

type c16World struct {
	o    *Outcome
	w    *World
	eras []*polEra // norace access through methods
}

//go:norace
func (c *c16World) addEra(e *polEra) { simrt.RaceOff(); c.eras = append(c.eras, e); simrt.RaceOn() }

//go:norace
func (c *c16World) snapshot() []polEra {
	simrt.RaceOff()
	out := make([]polEra, len(c.eras))
	for i, e := range c.eras {
		out[i] = *e
	}
	simrt.RaceOn()
	return out
}

//go:norace
func (c *c16World) setRet(e *polEra, ret int64, ptr *absnfs.PolicyOptions) {
	simrt.RaceOff()
	e.ret, e.ptr = ret, ptr
	simrt.RaceOn()
}

// admissible returns the policies that may legitimately judge a request sent at s and answered at r.
func admissible(eras []polEra, s, r int64) []PolSpec {
	var out []PolSpec
	for i, e := range eras {
		if e.ret == -2 {
			continue // rejected update: never in force
		}
		// e may be in force from the moment its update was called ...
		from := e.start
		// ... until the next accepted update has returned
		until := int64(1) << 62
		for j := i + 1; j < len(eras); j++ {
			if eras[j].ret == -2 {
				continue
			}
			if eras[j].ret > 0 {
				until = eras[j].ret
			}
			break
		}
		if from <= r && s <= until {
			out = append(out, e.spec)
		}
	}
	return out
}

func ipAllowed(allowed []string, ip string) bool {
	if len(allowed) == 0 {
		return true
	}
	p := net.ParseIP(ip)
	if p == nil {
		return false
	}
	if v4 := p.To4(); v4 != nil {
		p = v4
	}
	for _, a := range allowed {
		if strings.Contains(a, "/") {
			if _, n, err := net.ParseCIDR(a); err == nil && n.Contains(p) {
				return true
			}
		} else if q := net.ParseIP(a); q != nil && q.Equal(p) {
			return true
		}
	}
	return false
}

func runC16(t *testing.T, scAny any, trace bool) *Outcome {
	sc := scAny.(*C16Scn)
	o := &Outcome{HorizonOK: true}
	var adminDone simrt.Counter
	res := Bubble(t, sc.Sched.config(trace), nil, func() {
		simrt.Event("scenario %x", simrt.Hash(hashBytes(mustJSON(sc))))
		w := NewWorld(o)
		cw := &c16World{o: o, w: w}
		w.FS.MustWriteFile("/f", PayloadBytes(1, 100), 0o644)
		w.FS.MustMkdir("/d", 0o755)
		init := sc.Init.policy()
		opts := absnfs.ExportOptions{ReadOnly: init.ReadOnly, Secure: init.Secure, AllowedIPs: init.AllowedIPs, EnableRateLimiting: init.EnableRateLimiting,
			RateLimitConfig: init.RateLimitConfig, MaxWorkers: sc.Workers, AttrCacheTimeout: time.Millisecond,
			Timeouts: &absnfs.TimeoutConfig{DefaultTimeout: time.Duration(sc.TimeoutMs) * time.Millisecond}}
		if err := w.Start(opts); err != nil {
			o.Inconclusive = "start: " + err.Error()
			return
		}
		cw.addEra(&polEra{spec: sc.Init, ptr: absnfs.VerifPolicy(w.NFS)})
		// I1/I2: every backend call records the live policy pointer at its entry
		w.FS.OnCall = func(c simfs.Call) any { return absnfs.VerifPolicy(w.NFS) }
		for _, f := range sc.Stalls {
			w.FS.AddFault(f)
		}
		done := make(chan int, len(sc.Clients)+1)
		// clients
		for ci, cl := range sc.Clients {
			ci, cl := ci, cl
			simrt.Go(fmt.Sprintf("client-%d", ci), func() {
				defer simrt.Send("client.done", done, ci)
				c16Client(cw, sc, ci, cl)
			})
		}
		// admin
		simrt.Go("admin", func() {
			defer simrt.Send("admin.done", done, -1)
			last := 0
			for ai, a := range sc.Admin {
				if a.AtUs > last {
					simrt.Sleep(time.Duration(a.AtUs-last) * time.Microsecond)
					last = a.AtUs
				}
				for _, c := range w.FS.CallsSince(0) {
					if c.End == 0 {
						simrt.Probe("update_with_backend_call_parked")
						break
					}
				}
				era := &polEra{spec: a.Pol, start: simrt.Stamp(), ret: -1}
				cw.addEra(era)
				simrt.Event("admin update %d begins %+v", ai, a.Pol)
				var err error
				if a.ViaExport {
					eo := w.NFS.GetExportOptions()
					p := a.Pol.policy()
					eo.ReadOnly, eo.Secure, eo.AllowedIPs, eo.EnableRateLimiting, eo.RateLimitConfig, eo.MaxFileSize = p.ReadOnly, p.Secure, p.AllowedIPs, p.EnableRateLimiting, p.RateLimitConfig, p.MaxFileSize
					err = w.NFS.UpdateExportOptions(eo)
				} else {
					err = w.NFS.UpdatePolicyOptions(a.Pol.policy())
				}
				ret := simrt.Stamp()
				if err != nil {
					cw.setRet(era, -2, nil)
					o.Vio("C16.update-rejected", "", "update %d %+v rejected: %v", ai, a.Pol, err)
					continue
				}
				newPtr := absnfs.VerifPolicy(w.NFS)
				cw.setRet(era, ret, newPtr)
				simrt.Event("admin update %d returned", ai)
				// I2: no backend call that began under an older policy is still in progress
				o.Tick()
				for _, c := range w.FS.CallsSince(0) {
					if c.End == 0 && c.Ctx != any(newPtr) {
						o.Vio("C16.old-request-still-running-after-update", "op="+c.Op, "update %d returned while backend call %s(%s) of task %s, begun under an older policy, is still in progress", ai, c.Op, c.Path, c.Task)
					}
				}
			}
			adminDone.Store(1)
		})
		for i := 0; i < len(sc.Clients)+1; i++ {
			simrt.Recv("c16.wait", done)
		}
		// I1: all backend calls of one request goroutine saw one policy
		o.Tick()
		byTask := map[string]any{}
		for _, c := range w.FS.CallsSince(0) {
			if !strings.Contains(c.Task, "nfs_handlers.go") {
				continue
			}
			if p, ok := byTask[c.Task]; ok && p != c.Ctx {
				o.Vio("C16.request-straddles-policies", "op="+c.Op, "request goroutine %s made backend calls under two different policies (call %s %s)", c.Task, c.Op, c.Path)
			}
			byTask[c.Task] = c.Ctx
		}
		w.Stop()
	})
	o.finish(res, "C16")
	if res != nil {
		if adminDone.Load() == 0 && o.Inconclusive == "" {
			for _, l := range res.Leaked {
				if strings.Contains(l, "admin") {
					o.Vio("C16.update-never-returns", blockedWhere(l), "bounded liveness: the policy update had not returned when the simulation went quiet: %s", l)
				}
			}
		}
		for _, p := range res.Panics {
			o.Vio("C16.panic", panicFacts(p), "%s", firstLines(p, 12))
		}
		if res.Probes["drain_window_hit"] > 0 && res.Probes["update_with_backend_call_parked"] > 0 {
			o.NonTrivial = true
		}
	}
	return o
}

var mutatingC16 = map[string]bool{"WRITE": true, "CREATE": true, "REMOVE": true}

func c16Client(cw *c16World, sc *C16Scn, ci int, spec C16Client) {
	o, w := cw.o, cw.w
	if spec.StartUs > 0 {
		simrt.Sleep(time.Duration(spec.StartUs) * time.Microsecond)
	}
	opened := simrt.Stamp()
	host, portStr, _ := net.SplitHostPort(spec.Addr)
	var port int
	fmt.Sscanf(portStr, "%d", &port)
	cl, err := w.Dial(spec.Addr, RootCred, &simrt.ConnFaults{Latency: 50 * time.Microsecond})
	if err != nil {
		return
	}
	defer cl.Close()
	cl.Timeout = 600 * time.Second
	var rootFH, fileFH []byte
	call := func(name string, prog, vers, proc uint32, args []byte, mutating bool) (status int64, rep *nfsclient.Reply) {
		s := simrt.Stamp()
		rep, err := cl.RawCall(prog, vers, proc, args)
		r := simrt.Stamp()
		if err != nil {
			if _, gone := err.(*ErrNoReply); gone {
				// connection closed by the server: a filtered peer at accept time, or a request that outlived its timeout
				cl.Dead = false
				if nc, derr := simrt.Dial(cl.addr, cl.port, cl.faults); derr == nil {
					cl.Conn.Close()
					cl.Conn = nc
					opened = simrt.Stamp()
				} else {
					cl.Dead = true
				}
				return -2, nil
			}
			return -3, nil
		}
		eras := cw.snapshot()
		pols := admissible(eras, s, r)
		o.Tick()
		denied := rep.Stat == nfsclient.MsgDenied
		st := int64(-1)
		if !denied && rep.AcceptStat == nfsclient.Success && len(rep.Results) >= 4 {
			st = int64(uint32(rep.Results[0])<<24 | uint32(rep.Results[1])<<16 | uint32(rep.Results[2])<<8 | uint32(rep.Results[3]))
		}
		if st == nfsclient.NFS3ERR_JUKEBOX || (prog == nfsclient.ProgMount && st == 10006) || (!denied && rep.AcceptStat == nfsclient.SystemErr) {
			simrt.Probe("drain_window_hit")
			return st, rep
		}
		// I3: the outcome must be the verdict of at least one admissible policy
		ok := false
		var verdicts []string
		for _, p := range pols {
			wantDenied := !ipAllowed(p.Allowed, host) || (p.Secure && port >= 1024)
			var match bool
			switch {
			case p.RL:
				match = true // judged by the BURST operation
			case wantDenied:
				match = denied
			case mutating && p.ReadOnly:
				match = !denied && st == nfsclient.NFS3ERR_ROFS
			default:
				match = !denied && st != nfsclient.NFS3ERR_ROFS
			}
			verdicts = append(verdicts, fmt.Sprintf("%+v=>%v", p, match))
			ok = ok || match
		}
		if !ok && len(pols) > 0 {
			kind := "allowed-under-stricter-policy"
			if denied {
				kind = "denied-under-laxer-policy"
			} else if st == nfsclient.NFS3ERR_ROFS {
				kind = "rofs-although-writable"
			} else if mutating {
				kind = "write-although-read-only"
			}
			connAge := "conn-opened-after-update"
			if len(eras) > 1 && opened < eras[len(eras)-1].start {
				connAge = "conn-opened-before-update"
			}
			o.Vio("C16.judged-under-wrong-policy", kind+","+connAge, "client %d (%s) %s sent at stamp %d answered at %d: denied=%v status=%d; admissible policies and whether they explain it: %v", ci, spec.Addr, name, s, r, denied, st, verdicts)
		}
		return st, rep
	}
	for _, op := range spec.Ops {
		if op.PauseUs > 0 {
			simrt.Sleep(time.Duration(op.PauseUs) * time.Microsecond)
		}
		if rootFH == nil && op.Op != "NULL" && op.Op != "BURST" {
			_, rep := call("MNT", nfsclient.ProgMount, 3, 1, nfsclient.ArgsMountPath("/"), false)
			if rep != nil && rep.Stat == 0 && rep.AcceptStat == 0 {
				if v, err := nfsclient.DecodeMount(3, 1, rep.Results); err == nil && v.(*nfsclient.MntRes).Status == 0 {
					rootFH = v.(*nfsclient.MntRes).FH
				}
			}
			if rootFH == nil {
				continue
			}
		}
		if fileFH == nil && (op.Op == "READ" || op.Op == "WRITE") {
			_, rep := call("LOOKUP f", nfsclient.ProgNFS, 3, nfsclient.NFSProcLookup, nfsclient.ArgsDirOp(rootFH, "f"), false)
			if rep != nil && rep.Stat == 0 && rep.AcceptStat == 0 {
				if v, err := nfsclient.DecodeNFS(nfsclient.NFSProcLookup, rep.Results); err == nil && v.(*nfsclient.LookupRes).Status == 0 {
					fileFH = v.(*nfsclient.LookupRes).FH
				}
			}
			if fileFH == nil {
				continue
			}
		}
		switch op.Op {
		case "NULL":
			call("NULL", nfsclient.ProgNFS, 3, 0, nil, false)
		case "GETATTR":
			call("GETATTR", nfsclient.ProgNFS, 3, nfsclient.NFSProcGetattr, nfsclient.ArgsFH(rootFH), false)
		case "LOOKUP":
			call("LOOKUP", nfsclient.ProgNFS, 3, nfsclient.NFSProcLookup, nfsclient.ArgsDirOp(rootFH, "f"), false)
		case "READ":
			call("READ", nfsclient.ProgNFS, 3, nfsclient.NFSProcRead, nfsclient.ArgsRead(fileFH, 0, 50), false)
		case "WRITE":
			call("WRITE", nfsclient.ProgNFS, 3, nfsclient.NFSProcWrite, nfsclient.ArgsWrite(fileFH, 0, 4, 2, []byte("data")), true)
		case "CREATE":
			call("CREATE", nfsclient.ProgNFS, 3, nfsclient.NFSProcCreate, nfsclient.ArgsCreate(rootFH, op.Name, 0, nfsclient.Sattr3{}, [8]byte{}), true)
		case "REMOVE":
			call("REMOVE", nfsclient.ProgNFS, 3, nfsclient.NFSProcRemove, nfsclient.ArgsDirOp(rootFH, op.Name), true)
		case "BURST":
			// three NULL calls back to back: under per-IP burst 1 / 1 per second at least one must be refused,
			// without rate limiting none may be refused for rate reasons
			s0 := simrt.Stamp()
			t0 := time.Now()
			nDenied, nAns := 0, 0
			for k := 0; k < 3; k++ {
				rep, err := cl.RawCall(nfsclient.ProgNFS, 3, 0, nil)
				if err != nil {
					break
				}
				nAns++
				if rep.Stat == nfsclient.MsgDenied {
					nDenied++
				}
			}
			r0 := simrt.Stamp()
			eras := cw.snapshot()
			pols := admissible(eras, s0, r0)
			o.Tick()
			if nAns == 3 && len(pols) == 1 {
				p := pols[0]
				connAge := "conn-opened-after-update"
				if len(eras) > 1 && opened < eras[len(eras)-1].start {
					connAge = "conn-opened-before-update"
				}
				if ipAllowed(p.Allowed, host) && !(p.Secure && port >= 1024) {
					// burst 1 + 1 token/s admits three calls only when at least 2 s pass between the first and the
					// last (a stalled single worker can spread "back to back" calls that far apart)
					if p.RL && nDenied == 0 && time.Since(t0) < 1900*time.Millisecond {
						o.Vio("C16.rate-limit-not-applied-after-update", connAge, "client %d (%s): 3 back-to-back calls all admitted although the policy in force limits this IP to burst 1, 1 request/s (%s)", ci, spec.Addr, connAge)
					}
					if !p.RL && nDenied > 0 {
						o.Vio("C16.rate-limit-applied-although-disabled", connAge, "client %d (%s): %d of 3 calls refused although the policy in force has no rate limiting and admits this peer (%s)", ci, spec.Addr, nDenied, connAge)
					}
				}
			}
		}
	}
}

func genPol(r *simrt.Rand, rlOK bool) PolSpec {
	p := PolSpec{ReadOnly: r.Pct(40)}
	switch r.Int(5) {
	case 0:
		p.Allowed = []string{"10.0.0.0/24"}
	case 1:
		p.Allowed = []string{"10.0.1.5", "192.168.0.0/16"}
	case 2:
		p.Secure = true
	}
	if rlOK && r.Pct(25) {
		p = PolSpec{ReadOnly: p.ReadOnly, RL: true}
	} else if rlOK && r.Pct(15) {
		p.RLGen = true
	}
	return p
}

func genC16(r *simrt.Rand, tier string) any {
	sc := &C16Scn{Init: genPol(r, true), Workers: 1 + r.Int(3), TimeoutMs: []int{200, 2000, 30000}[r.Int(3)], Sched: RandSched(r)}
	sc.Sched.HorizonS = 3600
	addrs := []string{"10.0.0.7:900", "10.0.1.5:2000", "192.168.3.4:1023", "172.16.0.1:700", "10.0.0.9:50000"}
	nc := 2 + r.Int(3)
	opsK := []string{"NULL", "GETATTR", "LOOKUP", "READ", "WRITE", "CREATE", "REMOVE", "BURST"}
	for c := 0; c < nc; c++ {
		cl := C16Client{Addr: addrs[r.Int(len(addrs))], StartUs: []int{0, 0, 500, 20000, 300000}[r.Int(5)]}
		n := 2 + r.Int(7)
		for i := 0; i < n; i++ {
			cl.Ops = append(cl.Ops, C16Op{Op: opsK[r.Pick([]int{5, 15, 15, 10, 20, 12, 8, 15})], PauseUs: []int{0, 0, 10, 300, 5000, 60000, 1200000}[r.Int(7)], Name: fmt.Sprintf("n%d", r.Int(4))})
		}
		sc.Clients = append(sc.Clients, cl)
	}
	na := 1 + r.Int(3)
	at := 0
	for a := 0; a < na; a++ {
		at += []int{0, 100, 2000, 50000, 400000}[r.Int(5)]
		pol := genPol(r, true)
		if r.Pct(25) {
			// an update that changes nothing a request is ever refused for (only MaxFileSize, far above the
			// workload): it still has to drain the requests admitted before it
			pol = sc.Init
			if a > 0 {
				pol = sc.Admin[a-1].Pol
			}
			pol.MaxFile = int64(1<<30 + r.Int(1<<20))
		}
		sc.Admin = append(sc.Admin, C16Admin{AtUs: at, Pol: pol, ViaExport: r.Pct(40)})
	}
	// stall backend calls so that updates land inside requests
	ns := r.Int(4)
	for s := 0; s < ns; s++ {
		sc.Stalls = append(sc.Stalls, simfs.Fault{Op: []string{"Lstat", "OpenFile", "File.WriteAt", "Stat", "Create", ""}[r.Int(6)], Nth: 1 + r.Int(12), Kind: "stall",
			Stall: time.Duration([]int{1, 50, 700, 5000, 40000}[r.Int(5)]) * time.Millisecond})
	}
	// bias (60%): an early, long stall with an update placed inside it and a client that starts at once,
	// so that most runs really exercise the drain window
	if r.Pct(60) {
		sc.Stalls = append(sc.Stalls, simfs.Fault{Op: []string{"Lstat", "OpenFile", "Stat", ""}[r.Int(4)], Nth: 1 + r.Int(5), Kind: "stall",
			Stall: time.Duration([]int{700, 5000}[r.Int(2)]) * time.Millisecond})
		sc.Clients[0].StartUs = 0
		sc.Clients[1].StartUs = []int{0, 500, 20000}[r.Int(3)]
		sc.Admin[0].AtUs = []int{2000, 50000, 400000}[r.Int(3)]
		for i := 1; i < len(sc.Admin); i++ {
			if sc.Admin[i].AtUs < sc.Admin[i-1].AtUs {
				sc.Admin[i].AtUs = sc.Admin[i-1].AtUs
			}
		}
	}
	if r.Pct(12) {
		// crossed-policies motif: the policy before admits the clients but is read-only, the one after is
		// writable but excludes them (or the other way round). A request that is checked against one of them
		// and carried out under the other is explained by neither - the clients keep sending mutating calls
		// with no pause right across the update, no stalls, so that the update completes inside the few
		// statements between a request's checks
		a := PolSpec{Allowed: []string{"10.0.0.0/24"}, ReadOnly: true}
		b := PolSpec{Allowed: []string{"192.168.0.0/16"}}
		if r.Pct(40) {
			a, b = PolSpec{Allowed: []string{"192.168.0.0/16"}, ReadOnly: true}, PolSpec{Allowed: []string{"10.0.0.0/24"}}
		}
		sc.Init, sc.Stalls = a, nil
		sc.Sched.Mask |= simrt.ClassUnlock
		sc.Clients = nil
		for c, nc := 0, 2+r.Int(2); c < nc; c++ {
			cl := C16Client{Addr: []string{"10.0.0.7:900", "10.0.0.9:50000", "10.0.0.7:901"}[c], StartUs: 0}
			for i, n := 0, 8+r.Int(10); i < n; i++ {
				cl.Ops = append(cl.Ops, C16Op{Op: []string{"WRITE", "CREATE", "REMOVE", "WRITE"}[r.Int(4)], PauseUs: []int{0, 0, 10, 100}[r.Int(4)], Name: fmt.Sprintf("n%d", r.Int(4))})
			}
			sc.Clients = append(sc.Clients, cl)
		}
		// the policy flips back and forth 2-10 times: every flip is one more chance to land inside a request
		sc.Admin = nil
		at := []int{300, 1000, 3000}[r.Int(3)]
		for k, nk := 0, 2+r.Int(9); k < nk; k++ {
			sc.Admin = append(sc.Admin, C16Admin{AtUs: at, Pol: map[bool]PolSpec{true: b, false: a}[k%2 == 0], ViaExport: r.Pct(20)})
			at += []int{150, 400, 1000, 2500}[r.Int(4)]
		}
	}
	return sc
}

func shrinkC16(scAny any) []any {
	sc := scAny.(*C16Scn)
	var out []any
	cp := func() *C16Scn {
		c := *sc
		c.Clients = make([]C16Client, len(sc.Clients))
		for i := range sc.Clients {
			c.Clients[i] = sc.Clients[i]
			c.Clients[i].Ops = append([]C16Op(nil), sc.Clients[i].Ops...)
		}
		c.Admin = append([]C16Admin(nil), sc.Admin...)
		c.Stalls = append([]simfs.Fault(nil), sc.Stalls...)
		return &c
	}
	for i := range sc.Clients {
		if len(sc.Clients) > 1 {
			c := cp()
			c.Clients = append(c.Clients[:i], c.Clients[i+1:]...)
			out = append(out, c)
		}
	}
	for i := range sc.Clients {
		for j := range sc.Clients[i].Ops {
			c := cp()
			c.Clients[i].Ops = append(c.Clients[i].Ops[:j], c.Clients[i].Ops[j+1:]...)
			out = append(out, c)
		}
	}
	for i := range sc.Admin {
		if len(sc.Admin) > 1 {
			c := cp()
			c.Admin = append(c.Admin[:i], c.Admin[i+1:]...)
			out = append(out, c)
		}
	}
	for i := range sc.Stalls {
		c := cp()
		c.Stalls = append(c.Stalls[:i], c.Stalls[i+1:]...)
		out = append(out, c)
	}
	if sc.Sched.Policy != simrt.PolDefault {
		c := cp()
		c.Sched = SchedCfg{Seed: sc.Sched.Seed, Policy: simrt.PolDefault, Mask: simrt.ClassAll, HorizonS: sc.Sched.HorizonS}
		out = append(out, c)
	}
	return out
}

func init() {
	Register(&Prop{ID: "C16", Level: "exploration", Race: true,
		Rule: "one case = 2-4 clients on their own connections (opened before or after updates, from addresses inside/outside the allow-lists and ports either side of 1024) issuing 2-8 of NULL/GETATTR/LOOKUP/READ/WRITE/CREATE/REMOVE/3-call bursts with pauses, an admin issuing 1-3 UpdatePolicyOptions/UpdateExportOptions with drawn ReadOnly/AllowedIPs/Secure/rate-limiting values (a quarter of the updates change only MaxFileSize, which no request of the workload is refused for) at drawn instants, 0-3 backend calls stalled for 1 ms-40 s (shorter and longer than the request timeout), 1-3 workers, every lock/channel/select/network/backend interleaving decided by the seeded scheduler, also built with -race; monitors: (I1) all backend calls of one request goroutine saw one live policy pointer, (I2) when an update returns no backend call begun under an older policy is in progress, (I3) each reply is the verdict of a policy that was possibly in force between send and receive (ROFS, MSG_DENIED for excluded address/port, rate limiting incl. on connections opened before the update), (I4) drain-window replies are counted (their shape is C14's business), (I5) the update returns once stalls end (bounded liveness by quiescence), no panic; 12% of the cases are the crossed-policies motif (the policy before admits the clients but is read-only, the one after is writable but excludes them, flipping 2-10 times 150 us-2.5 ms apart while 2-3 clients send mutating calls without pause): an outcome explained by neither policy is a request checked against one and carried out under the other; non-trivial = a request hit the drain window AND an update was issued while a backend call was parked; distinct by event digest",
		Gen:  genC16, New: func() any { return &C16Scn{} }, Run: runC16, Shrink: shrinkC16,
		Real:    []string{"UpdatePolicyOptions", "UpdateExportOptions", "HandleCall (TryRLock admission, per-request goroutine, timeout)", "connection loop incl. rate limiting", "worker pool", "all procedure handlers"},
		Stubbed: seqStubbed})
}
