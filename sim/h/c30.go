package h

import (
	"bytes"
	"crypto/rand"
	"crypto/rsa"
	"crypto/tls"
	"crypto/x509"
	"crypto/x509/pkix"
	"encoding/pem"
	"fmt"
	"math/big"
	"net"
	"os"
	"path/filepath"
	"strings"
	"sync"
	"testing"
	"time"

	"github.com/absfs/absnfs"

	"verif/sim/nfsclient"
	"verif/sim/simrt"
)

// C30: the TLS listener enforces the configured security floor.

type C30Client struct {
	MinV  uint16 `json:"min_v"`
	MaxV  uint16 `json:"max_v"`
	Cert  int    `json:"cert"`             // 0 none, 1 self-signed, 2 signed by the configured CA, 3 signed by another CA
	Old   bool   `json:"old_suites"`       // offer the CBC/SHA1 suites TLS 1.0/1.1 need
	After int    `json:"after,omitempty"`  // 0 before any rotation/update, 1 after
	NoSNI bool   `json:"no_sni,omitempty"` // no server name in the ClientHello (a client that dials an IP address)
}

type C30Scn struct {
	Default     bool        `json:"default"` // start from DefaultTLSConfig()
	MinV        uint16      `json:"min_v"`
	MaxV        uint16      `json:"max_v"`
	ClientAuth  int         `json:"client_auth"`
	CA          int         `json:"ca"`     // 0 none, 1 the CA file, 2 a missing file, 3 a blank file, 4 a file that holds no certificate
	Suites      int         `json:"suites"` // 0 as given by Default/none, 1 empty (Go defaults), 2 with CBC-SHA suites added
	Clients     []C30Client `json:"clients"`
	Rotate      bool        `json:"rotate"`       // replace the certificate files and perform the documented reload step
	UpdateFirst bool        `json:"update_first"` // an unrelated UpdatePolicyOptions before the rotation
	// HalfFirst: the rotation replaces certificate AND key, in two steps with a reload after each: the first
	// reload meets the new certificate with the old key and fails (the old certificate stays in service), the
	// second one, after the key has been replaced too, is the documented step
	HalfFirst   bool     `json:"half_first,omitempty"`
	EarlyReload bool     `json:"early_reload,omitempty"` // another ReloadCertificates call, started before the files are replaced, overlaps with the rotation
	Restart     bool     `json:"restart,omitempty"`      // between the two halves: stop, replace the CA file (same path) by another CA, start a new server instance
	Sched       SchedCfg `json:"sched"`
}

type c30PKIT struct {
	caPEM, foreignPEM, srvAPEM, srvBPEM, leafKeyPEM []byte
	srvADER, srvBDER                                []byte
	// a server certificate for ANOTHER key pair: a rotation that replaces certificate and key in two steps
	srvCPEM, srvCDER, leafKey2PEM []byte
	cliSelf, cliGood, cliForeign  tls.Certificate
}

var (
	c30Once sync.Once
	c30pki  *c30PKIT
	c30Err  error
	// c30RootsDir holds the process-wide fake system root store (removed by TestMain when the process ends)
	c30RootsDir string
)

func c30MakePKI() (*c30PKIT, error) {
	c30Once.Do(func() {
		newKey := func() *rsa.PrivateKey {
			k, err := rsa.GenerateKey(rand.Reader, 2048)
			if err != nil {
				c30Err = err
			}
			return k
		}
		caKey, foreignKey, leafKey, leafKey2 := newKey(), newKey(), newKey(), newKey()
		if c30Err != nil {
			return
		}
		nb, na := time.Date(1999, 1, 1, 0, 0, 0, 0, time.UTC), time.Date(2100, 1, 1, 0, 0, 0, 0, time.UTC)
		mk := func(serial int64, cn string, isCA bool, pub *rsa.PublicKey, parent *x509.Certificate, signer *rsa.PrivateKey, client bool) (*x509.Certificate, []byte) {
			t := &x509.Certificate{SerialNumber: big.NewInt(serial), Subject: pkix.Name{CommonName: cn}, NotBefore: nb, NotAfter: na,
				KeyUsage: x509.KeyUsageDigitalSignature | x509.KeyUsageKeyEncipherment, BasicConstraintsValid: true, IsCA: isCA,
				DNSNames: []string{"localhost"}, IPAddresses: []net.IP{net.ParseIP("127.0.0.1")}}
			if isCA {
				t.KeyUsage |= x509.KeyUsageCertSign
			}
			if client {
				t.ExtKeyUsage = []x509.ExtKeyUsage{x509.ExtKeyUsageClientAuth}
			} else if !isCA {
				t.ExtKeyUsage = []x509.ExtKeyUsage{x509.ExtKeyUsageServerAuth}
			}
			if parent == nil {
				parent = t
			}
			der, err := x509.CreateCertificate(rand.Reader, t, parent, pub, signer)
			if err != nil {
				c30Err = err
				return nil, nil
			}
			c, _ := x509.ParseCertificate(der)
			return c, der
		}
		ca, caDER := mk(1, "sim-ca-000", true, &caKey.PublicKey, nil, caKey, false)
		foreign, foreignDER := mk(2, "foreign-ca", true, &foreignKey.PublicKey, nil, foreignKey, false)
		if c30Err != nil {
			return
		}
		_, srvA := mk(10, "server-AAA", false, &leafKey.PublicKey, ca, caKey, false)
		_, srvB := mk(11, "server-BBB", false, &leafKey.PublicKey, ca, caKey, false)
		_, srvC := mk(12, "server-CCC", false, &leafKey2.PublicKey, ca, caKey, false)
		_, self := mk(20, "client-sel", false, &leafKey.PublicKey, nil, leafKey, true)
		_, good := mk(21, "client-goo", false, &leafKey.PublicKey, ca, caKey, true)
		_, bad := mk(22, "client-for", false, &leafKey.PublicKey, foreign, foreignKey, true)
		if c30Err != nil {
			return
		}
		pemOf := func(typ string, der []byte) []byte { return pem.EncodeToMemory(&pem.Block{Type: typ, Bytes: der}) }
		// The host's root store, as this process sees it, is exactly the FOREIGN CA: a server that falls back to
		// the system roots instead of its configured client CA then serves the foreign-CA client, which the
		// oracle sees. (Go reads SSL_CERT_FILE/SSL_CERT_DIR once, the first time system roots are needed; every
		// client in this harness brings its own RootCAs, so nothing else depends on them.)
		if rootsDir, derr := os.MkdirTemp("", "verif-c30-roots-"); derr == nil {
			os.WriteFile(filepath.Join(rootsDir, "roots.pem"), pemOf("CERTIFICATE", foreignDER), 0o600)
			os.MkdirAll(filepath.Join(rootsDir, "empty"), 0o700)
			os.Setenv("SSL_CERT_FILE", filepath.Join(rootsDir, "roots.pem"))
			os.Setenv("SSL_CERT_DIR", filepath.Join(rootsDir, "empty"))
			c30RootsDir = rootsDir
		}
		c30pki = &c30PKIT{caPEM: pemOf("CERTIFICATE", caDER), foreignPEM: pemOf("CERTIFICATE", foreignDER), srvAPEM: pemOf("CERTIFICATE", srvA), srvBPEM: pemOf("CERTIFICATE", srvB),
			leafKeyPEM: pemOf("RSA PRIVATE KEY", x509.MarshalPKCS1PrivateKey(leafKey)), srvADER: srvA, srvBDER: srvB,
			srvCPEM: pemOf("CERTIFICATE", srvC), srvCDER: srvC, leafKey2PEM: pemOf("RSA PRIVATE KEY", x509.MarshalPKCS1PrivateKey(leafKey2)),
			cliSelf:    tls.Certificate{Certificate: [][]byte{self}, PrivateKey: leafKey},
			cliGood:    tls.Certificate{Certificate: [][]byte{good}, PrivateKey: leafKey},
			cliForeign: tls.Certificate{Certificate: [][]byte{bad}, PrivateKey: leafKey}}
	})
	return c30pki, c30Err
}

var c30OldSuites = []uint16{tls.TLS_ECDHE_RSA_WITH_AES_128_CBC_SHA, tls.TLS_ECDHE_RSA_WITH_AES_256_CBC_SHA, tls.TLS_RSA_WITH_AES_128_CBC_SHA,
	tls.TLS_ECDHE_RSA_WITH_AES_128_GCM_SHA256, tls.TLS_RSA_WITH_AES_128_GCM_SHA256}

func versionName(v uint16) string {
	switch v {
	case 0:
		return "0"
	case tls.VersionTLS10:
		return "1.0"
	case tls.VersionTLS11:
		return "1.1"
	case tls.VersionTLS12:
		return "1.2"
	case tls.VersionTLS13:
		return "1.3"
	case 0x0300:
		return "ssl3"
	}
	return fmt.Sprintf("%#x", v)
}

func runC30(t *testing.T, scAny any, trace bool) *Outcome {
	sc := scAny.(*C30Scn)
	o := &Outcome{}
	pki, err := c30MakePKI()
	if err != nil {
		o.Inconclusive = "pki: " + err.Error()
		return o
	}
	dir, err := os.MkdirTemp("", "verif-c30-")
	if err != nil {
		o.Inconclusive = "tmp: " + err.Error()
		return o
	}
	defer os.RemoveAll(dir)
	certFile, keyFile, caFile := filepath.Join(dir, "srv.crt"), filepath.Join(dir, "srv.key"), filepath.Join(dir, "ca.crt")
	os.WriteFile(certFile, pki.srvAPEM, 0o600)
	os.WriteFile(keyFile, pki.leafKeyPEM, 0o600)
	os.WriteFile(caFile, pki.caPEM, 0o600)
	accepted, served := false, 0
	res := Bubble(t, sc.Sched.config(trace), nil, func() {
		simrt.Event("scenario %x", simrt.Hash(hashBytes(mustJSON(sc))))
		w := NewWorld(o)
		tc := &absnfs.TLSConfig{}
		if sc.Default {
			tc = absnfs.DefaultTLSConfig()
		}
		tc.Enabled, tc.CertFile, tc.KeyFile = true, certFile, keyFile
		if !sc.Default || sc.MinV != 0 {
			tc.MinVersion = sc.MinV
		}
		if !sc.Default || sc.MaxV != 0 {
			tc.MaxVersion = sc.MaxV
		}
		tc.ClientAuth = tls.ClientAuthType(sc.ClientAuth)
		switch sc.CA {
		case 1:
			tc.CAFile = caFile
		case 2:
			tc.CAFile = filepath.Join(dir, "missing.crt")
		case 3, 4:
			// a CA bundle that was truncated or overwritten: blank, or bytes that are no certificate
			tc.CAFile = filepath.Join(dir, "damaged-ca.crt")
			os.WriteFile(tc.CAFile, map[int][]byte{3: []byte(" \n\n"), 4: []byte("-----BEGIN CERTIFICATE-----\nnot base64 at all\n-----END CERTIFICATE-----\n")}[sc.CA], 0o600)
		}
		switch sc.Suites {
		case 1:
			tc.CipherSuites = nil
		case 2:
			tc.CipherSuites = append(append([]uint16(nil), tc.CipherSuites...), c30OldSuites...)
		}
		if err := w.Start(absnfs.ExportOptions{TLS: tc}); err != nil {
			simrt.Event("configuration refused: %s", strings.ReplaceAll(err.Error(), dir, "$DIR"))
			simrt.Probe("configuration_refused")
			if w.NFS != nil {
				w.NFS.Close()
			}
			return
		}
		accepted = true
		defer w.Stop()
		wantLeaf := pki.srvADER
		var rotatedLeaf []byte
		rotated := false
		doRotate := func() {
			if sc.UpdateFirst {
				p := *absnfs.VerifPolicy(w.NFS)
				p.ReadOnly = !p.ReadOnly
				if err := w.NFS.UpdatePolicyOptions(p); err != nil {
					simrt.Event("update failed: %v", err)
				}
			}
			var early chan int
			if sc.EarlyReload {
				// an operator's reload that was started BEFORE the files were replaced and overlaps with the
				// rotation: whichever way the two reloads interleave, the step performed after the replacement
				// completes last in real time, so new handshakes present the new certificate
				if eo := w.NFS.GetExportOptions(); eo.TLS != nil {
					early = make(chan int, 1)
					simrt.Go("early-reload", func() {
						defer simrt.Send("early.done", early, 1)
						eo.TLS.ReloadCertificates()
					})
					simrt.Yield(simrt.ClassMisc, "rotation.begin")
				}
			}
			if early != nil {
				defer func() { simrt.Recv("early.wait", early) }()
			}
			newPEM, newDER := pki.srvBPEM, pki.srvBDER
			if sc.HalfFirst {
				newPEM, newDER = pki.srvCPEM, pki.srvCDER
			}
			os.WriteFile(certFile, newPEM, 0o600)
			opts := w.NFS.GetExportOptions()
			o.Tick()
			if opts.TLS == nil {
				o.Vio("C30.rotation-step-unavailable", "", "GetExportOptions().TLS is nil although TLS is enabled")
				return
			}
			if sc.HalfFirst {
				// half-done: new certificate, old key. Whatever this reload answers, the step that counts is the one
				// made after the key has been replaced as well (on the same settings object, as an operator retrying would)
				err := opts.TLS.ReloadCertificates()
				simrt.Event("reload with mismatched pair: failed=%v", err != nil)
				simrt.Probe("reload_met_half_done_rotation")
				os.WriteFile(keyFile, pki.leafKey2PEM, 0o600)
			}
			if err := opts.TLS.ReloadCertificates(); err != nil {
				o.Vio("C30.rotation-step-failed", "", "the documented rotation step failed: %v", err)
				return
			}
			wantLeaf = newDER
			rotatedLeaf = newDER
			rotated = true
			simrt.Probe("rotated")
		}
		goodKind, restarted := 2, false
		for ci, c := range sc.Clients {
			if sc.Rotate && !rotated && c.After == 1 {
				doRotate()
			}
			if sc.Restart && !restarted && c.After == 1 && sc.CA == 1 {
				// a new instance in the same process, same CA path, other CA inside
				restarted = true
				w.Stop()
				os.WriteFile(caFile, pki.foreignPEM, 0o600)
				tc2 := *tc
				tc2copy := (&tc2).Clone()
				w = NewWorld(o)
				if err := w.Start(absnfs.ExportOptions{TLS: tc2copy}); err != nil {
					o.Inconclusive = "restart: " + err.Error()
					return
				}
				defer w.Stop()
				goodKind = 3
				if rotated {
					wantLeaf = rotatedLeaf
				}
				simrt.Probe("restarted_with_other_ca")
			}
			ccfg := &tls.Config{InsecureSkipVerify: true, MinVersion: c.MinV, MaxVersion: c.MaxV, ServerName: "localhost"}
			if c.NoSNI {
				ccfg.ServerName = ""
			}
			if c.Old {
				ccfg.CipherSuites = c30OldSuites
			}
			// GetClientCertificate sends the certificate whatever CA names the server lists
			// (with Certificates the Go client silently sends none when the issuer is not listed)
			if c.Cert != 0 {
				cert := [...]*tls.Certificate{nil, &pki.cliSelf, &pki.cliGood, &pki.cliForeign}[c.Cert]
				ccfg.GetClientCertificate = func(*tls.CertificateRequestInfo) (*tls.Certificate, error) { return cert, nil }
			}
			ta, _ := net.ResolveTCPAddr("tcp", fmt.Sprintf("10.0.0.%d:%d", 20+ci, 900+ci))
			raw, err := simrt.Dial(ta, w.Port, nil)
			if err != nil {
				o.Inconclusive = "dial: " + err.Error()
				return
			}
			tconn := tls.Client(raw, ccfg)
			raw.SetDeadline(time.Now().Add(40 * time.Second))
			herr := tconn.Handshake()
			var st tls.ConnectionState
			servedNow := false
			if herr == nil {
				st = tconn.ConnectionState()
				// the handshake is complete for the server only if it goes on to answer a request
				call := nfsclient.Call{XID: uint32(7000 + ci), Prog: nfsclient.ProgNFS, Vers: 3, Proc: 0, Cred: nfsclient.AuthNone(), Verf: nfsclient.AuthNone()}
				if _, werr := tconn.Write(nfsclient.Frame(call.Encode(), nil)); werr == nil {
					if rec, rerr := nfsclient.ReadRecord(tconn, 1<<20); rerr == nil {
						if rep, derr := nfsclient.DecodeReply(rec); derr == nil && rep.XID == call.XID {
							servedNow = true
						}
					} else {
						simrt.Event("client %d: no reply after handshake: %v", ci, rerr)
					}
				}
			} else {
				simrt.Event("client %d: handshake failed: %v", ci, herr)
			}
			tconn.Close()
			o.Tick()
			facts := fmt.Sprintf("server=%s..%s,auth=%d,ca=%d", versionName(tc.MinVersion), versionName(tc.MaxVersion), sc.ClientAuth, sc.CA)
			if servedNow {
				served++
				simrt.Probe("handshake_completed_v" + versionName(st.Version))
				if st.Version < tls.VersionTLS12 {
					o.Vio("C30.handshake-below-tls12", "negotiated="+versionName(st.Version), "client %d (offering %s..%s) was served over TLS %s (%s)", ci, versionName(c.MinV), versionName(c.MaxV), versionName(st.Version), facts)
				}
				verified := tc.CAFile != "" && (sc.ClientAuth == int(tls.RequireAndVerifyClientCert) || (sc.ClientAuth == int(tls.VerifyClientCertIfGiven) && c.Cert != 0))
				if verified && c.Cert != goodKind {
					o.Vio("C30.unverified-client-served", fmt.Sprintf("auth=%d,cert=%d", sc.ClientAuth, c.Cert), "client %d presenting certificate kind %d (0 none, 1 self-signed, 3 foreign CA) was served although client certificates are verified against the configured CA (%s)", ci, c.Cert, facts)
				}
				if len(st.PeerCertificates) == 0 || !bytes.Equal(st.PeerCertificates[0].Raw, wantLeaf) {
					got := "none"
					if len(st.PeerCertificates) > 0 {
						got = st.PeerCertificates[0].Subject.CommonName
					}
					o.Vio("C30.stale-certificate-after-rotation", fmt.Sprintf("rotated=%v,update_first=%v", rotated, sc.UpdateFirst), "client %d: the handshake presented certificate %q; after the documented rotation step (ReloadCertificates on GetExportOptions().TLS) the certificate files hold %q", ci, got, map[bool]string{false: "server-AAA", true: map[bool]string{false: "server-BBB", true: "server-CCC"}[sc.HalfFirst]}[rotated])
				}
			} else {
				simrt.Probe("handshake_refused")
			}
		}
	})
	o.finish(res, "C30")
	if res != nil {
		for _, p := range res.Panics {
			o.Vio("C30.panic", panicFacts(p), "%s", firstLines(p, 14))
		}
	}
	o.NonTrivial = accepted && len(sc.Clients) > 0
	_ = served
	return o
}

func genC30(r *simrt.Rand, tier string) any {
	vs := []uint16{0, tls.VersionTLS10, tls.VersionTLS11, tls.VersionTLS12, tls.VersionTLS13}
	sc := &C30Scn{Default: r.Pct(50), ClientAuth: r.Int(5), CA: r.Pick([]int{30, 60, 10}), Suites: r.Int(3), Rotate: r.Pct(50), UpdateFirst: r.Pct(40), Sched: SeqSched(r.Uint64())}
	switch r.Pick([]int{55, 15, 30}) {
	case 0: // a configuration the documentation recommends
		sc.MinV, sc.MaxV = []uint16{tls.VersionTLS12, tls.VersionTLS13, tls.VersionTLS12}[r.Int(3)], tls.VersionTLS13
		if r.Pct(25) {
			sc.MaxV = sc.MinV
		}
	case 1: // zero values
		sc.MinV, sc.MaxV = 0, []uint16{0, tls.VersionTLS13, tls.VersionTLS12}[r.Int(3)]
	case 2: // anything
		sc.MinV, sc.MaxV = vs[r.Int(5)], vs[r.Int(5)]
	}
	if sc.ClientAuth >= 3 && r.Pct(70) {
		sc.CA = 1
	}
	if sc.Rotate && r.Pct(25) {
		sc.HalfFirst = true
	}
	if sc.Rotate && r.Pct(25) {
		sc.EarlyReload = true
		sc.Sched = RandSched(r)
		sc.Sched.HorizonS = 3600
	}
	if r.Pct(12) {
		sc.CA = 3 + r.Int(2) // a damaged CA bundle
		if r.Pct(70) {
			sc.ClientAuth = 3 + r.Int(2) // with client certificates verified
		}
	}
	cv := []uint16{tls.VersionTLS10, tls.VersionTLS11, tls.VersionTLS12, tls.VersionTLS13}
	n := 2 + r.Int(5)
	for i := 0; i < n; i++ {
		a, b := cv[r.Int(4)], cv[r.Int(4)]
		if a > b {
			a, b = b, a
		}
		if r.Pct(35) {
			b = []uint16{tls.VersionTLS10, tls.VersionTLS11}[r.Int(2)] // a downgrade attempt
			if a > b {
				a = b
			}
		}
		c := C30Client{MinV: a, MaxV: b, Cert: r.Int(4), Old: b < tls.VersionTLS12 || r.Pct(30), NoSNI: r.Pct(50)}
		if i >= n/2 {
			c.After = 1
		}
		sc.Clients = append(sc.Clients, c)
	}
	sc.Restart = sc.CA == 1 && r.Pct(30)
	sc.Sched.HorizonS = 3600
	return sc
}

func shrinkC30(scAny any) []any {
	sc := scAny.(*C30Scn)
	var out []any
	for i := range sc.Clients {
		c := *sc
		c.Clients = append(append([]C30Client(nil), sc.Clients[:i]...), sc.Clients[i+1:]...)
		out = append(out, &c)
	}
	if sc.UpdateFirst {
		c := *sc
		c.UpdateFirst = false
		out = append(out, &c)
	}
	if sc.Rotate {
		c := *sc
		c.Rotate = false
		out = append(out, &c)
	}
	return out
}

func init() {
	Register(&Prop{ID: "C30", Level: "exploration",
		Rule: "one case = a TLS configuration drawn from {DefaultTLSConfig or zero value} x Min/MaxVersion in {0, 1.0, 1.1, 1.2, 1.3} (55% recommended ranges) x the five ClientAuth modes x CA file {none, the CA, missing, blank, damaged} (the process's system root store is set to the FOREIGN CA, so a server that falls back to system roots serves the foreign-CA client) x cipher suites {as given, Go defaults, with CBC-SHA suites}; when Listen accepts it (real BuildConfig/Validate, tls.Listen seam on the simulated network, real crypto/tls on both ends) 2-6 clients offering version ranges within 1.0..1.3 (35% downgrade attempts capped at 1.0/1.1 with the CBC-SHA suites those versions need) and a certificate from {none, self-signed, signed by the configured CA, signed by another CA} half of them without a server name in the ClientHello, perform a handshake followed by a NULL call (a handshake counts as completed when the server answers); in half of the runs the certificate files are replaced between the first and the second half of the clients and the documented rotation step is performed (optionally after an unrelated UpdatePolicyOptions; in a quarter of the rotations another ReloadCertificates call that was started before the files were replaced overlaps with the step, under the seeded scheduler); in 30% of the runs with a CA the server is stopped between the halves, the CA file is replaced at the same path by another CA and a new instance is started in the same process (the verified chain must then be the new CA's); oracle: no served connection negotiated less than TLS 1.2; when client certificates are verified against the configured CA (RequireAndVerify, or VerifyIfGiven with a certificate given) only the CA-signed client is served; every served handshake presents the leaf certificate currently in the files as of the last rotation step; a quarter of the rotations replace certificate AND key in two steps, with a reload in between that meets the new certificate with the old key (it fails; the documented step is the reload after the key has been replaced as well, on the same settings object); non-trivial = the configuration was accepted; distinct by event digest. The simulator contributes the network seam and determinism; the schedule dimension is small (sequential clients).",
		Gen:  genC30, New: func() any { return &C30Scn{} }, Run: runC30, Shrink: shrinkC30,
		Real:        []string{"tls_config.go Validate/BuildConfig/ReloadCertificates/Clone", "server.go Listen/accept/connection loop", "crypto/tls and crypto/x509 on both ends", "options.go policy snapshots (GetExportOptions, UpdatePolicyOptions)"},
		Stubbed:     []string{"kernel TCP (simnet under tls.NewListener / tls.Client)", "clock (synctest)", "scheduler", "certificate files live in a per-run temporary directory on the real filesystem"},
		Assumptions: []string{"crypto/tls itself is trusted; the check is about the configuration absnfs hands to it", "Go's default minimum server version (TLS 1.2 for main modules declaring go >= 1.22, which absnfs' own go 1.23 directive forces) is in force, GODEBUG tls10server is not set"}})
}
