package h

import (
	"fmt"
	"reflect"
	"strings"
	"testing"
	"time"

	"github.com/absfs/absnfs"

	"verif/sim/nfsclient"
	"verif/sim/simrt"
)

// C24: runtime reconfiguration keeps the server serviceable and is all-or-nothing.

type OptSpec struct {
	TransferSize int    `json:"transfer_size,omitempty"`
	AttrTTLms    int    `json:"attr_ttl_ms,omitempty"`
	AttrSize     int    `json:"attr_size,omitempty"`
	NegTTLms     int    `json:"neg_ttl_ms,omitempty"`
	DirTTLms     int    `json:"dir_ttl_ms,omitempty"`
	DirMax       int    `json:"dir_max,omitempty"`
	DirMaxSize   int    `json:"dir_max_size,omitempty"`
	MaxWorkers   int    `json:"max_workers,omitempty"`
	MaxConns     int    `json:"max_conns,omitempty"`
	IdleMs       int    `json:"idle_ms,omitempty"`
	SendBuf      int    `json:"send_buf,omitempty"`
	RecvBuf      int    `json:"recv_buf,omitempty"`
	Timeouts     int    `json:"timeouts,omitempty"` // 0 nil, 1 all zero, 2 partial, 3 full, 4 negative
	ReadOnly     bool   `json:"read_only,omitempty"`
	Squash       string `json:"squash,omitempty"`
	NegCache     bool   `json:"neg_cache,omitempty"`
	DirCache     bool   `json:"dir_cache,omitempty"`
	RLNil        bool   `json:"rl_nil,omitempty"`
	Log          int    `json:"log,omitempty"` // 0 nil, 1 errors to stderr, 2 a destination that cannot be opened, 3 an unknown format
}

func (s OptSpec) export() absnfs.ExportOptions {
	o := absnfs.ExportOptions{TransferSize: s.TransferSize, AttrCacheTimeout: time.Duration(s.AttrTTLms) * time.Millisecond, AttrCacheSize: s.AttrSize,
		NegativeCacheTimeout: time.Duration(s.NegTTLms) * time.Millisecond, DirCacheTimeout: time.Duration(s.DirTTLms) * time.Millisecond,
		DirCacheMaxEntries: s.DirMax, DirCacheMaxDirSize: s.DirMaxSize, MaxWorkers: s.MaxWorkers, MaxConnections: s.MaxConns,
		IdleTimeout: time.Duration(s.IdleMs) * time.Millisecond, SendBufferSize: s.SendBuf, ReceiveBufferSize: s.RecvBuf,
		ReadOnly: s.ReadOnly, Squash: s.Squash, CacheNegativeLookups: s.NegCache, EnableDirCache: s.DirCache}
	switch s.Timeouts {
	case 1:
		o.Timeouts = &absnfs.TimeoutConfig{}
	case 2:
		o.Timeouts = &absnfs.TimeoutConfig{ReadTimeout: 3 * time.Second, LookupTimeout: 2 * time.Second}
	case 3:
		o.Timeouts = &absnfs.TimeoutConfig{ReadTimeout: time.Second, WriteTimeout: time.Second, LookupTimeout: time.Second, ReaddirTimeout: time.Second, CreateTimeout: time.Second, RemoveTimeout: time.Second, RenameTimeout: time.Second, HandleTimeout: time.Second, DefaultTimeout: 2 * time.Second}
	case 4:
		o.Timeouts = &absnfs.TimeoutConfig{ReadTimeout: -1, WriteTimeout: -5 * time.Second, DefaultTimeout: -1}
	}
	if !s.RLNil {
		c := absnfs.DefaultRateLimiterConfig()
		o.RateLimitConfig = &c
	}
	switch s.Log {
	case 1:
		o.Log = &absnfs.LogConfig{Level: "error", Format: "text", Output: "stderr"}
	case 2:
		o.Log = &absnfs.LogConfig{Level: "error", Format: "text", Output: "/proc/verif-no-such-directory/absnfs.log"}
	case 3:
		o.Log = &absnfs.LogConfig{Level: "error", Format: "bogus-format", Output: "stderr"}
	}
	return o
}

type C24Step struct {
	Kind string  `json:"kind"` // export tuning policy
	Opt  OptSpec `json:"opt"`
}

type C24Scn struct {
	Init  OptSpec   `json:"init"`
	Steps []C24Step `json:"steps"`
	Sched SchedCfg  `json:"sched"`
	Two   bool      `json:"two,omitempty"`   // the updates are issued by two administrators at the same time (even/odd steps)
	Conc  bool      `json:"conc,omitempty"`  // a second client keeps reading while the updates run
	Reads int       `json:"reads,omitempty"` // how many READs it issues
}

// tuningView extracts the numeric/duration fields the property speaks about.
func tuningView(o absnfs.ExportOptions) map[string]int64 {
	m := map[string]int64{"TransferSize": int64(o.TransferSize), "AttrCacheTimeout": int64(o.AttrCacheTimeout), "AttrCacheSize": int64(o.AttrCacheSize),
		"NegativeCacheTimeout": int64(o.NegativeCacheTimeout), "DirCacheTimeout": int64(o.DirCacheTimeout), "DirCacheMaxEntries": int64(o.DirCacheMaxEntries),
		"DirCacheMaxDirSize": int64(o.DirCacheMaxDirSize), "MaxWorkers": int64(o.MaxWorkers), "MaxConnections": int64(o.MaxConnections), "IdleTimeout": int64(o.IdleTimeout),
		"SendBufferSize": int64(o.SendBufferSize), "ReceiveBufferSize": int64(o.ReceiveBufferSize)}
	if o.Timeouts != nil {
		v := reflect.ValueOf(*o.Timeouts)
		for i := 0; i < v.NumField(); i++ {
			m["Timeouts."+v.Type().Field(i).Name] = v.Field(i).Int()
		}
	} else {
		m["Timeouts"] = -999
	}
	if o.RateLimitConfig == nil {
		m["RateLimitConfig"] = -999
	}
	return m
}

func runC24(t *testing.T, scAny any, trace bool) *Outcome {
	sc := scAny.(*C24Scn)
	o := &Outcome{NonTrivial: len(sc.Steps) > 0}
	res := Bubble(t, sc.Sched.config(trace), nil, func() {
		simrt.Event("scenario %x", simrt.Hash(hashBytes(mustJSON(sc))))
		w := NewWorld(o)
		w.FS.MustWriteFile("/f", PayloadBytes(5, 300), 0o644)
		if err := w.Start(sc.Init.export()); err != nil {
			o.Inconclusive = "start: " + err.Error()
			return
		}
		defer w.Stop()
		cl, err := w.Dial("10.0.0.7:900", RootCred, nil)
		if err != nil {
			o.Inconclusive = "dial"
			return
		}
		defer cl.Close()
		root, _, err := cl.Mount("/")
		if err != nil {
			o.Inconclusive = "mount"
			return
		}
		serve := func(after string, ro bool) {
			// the server keeps serving LOOKUP, READ and WRITE
			o.Tick()
			lr, err := cl.Lookup(root, "f")
			if err != nil || lr.Status != 0 {
				o.Vio("C24.not-serviceable", "op=LOOKUP", "after %s: LOOKUP fails: err=%v res=%+v", after, err, lr)
				return
			}
			rr, err := cl.Read(lr.FH, 0, 100)
			if err != nil || rr.Status != 0 || rr.Count == 0 {
				st := "no reply"
				if rr != nil {
					st = fmt.Sprintf("status=%d,count=%d", rr.Status, rr.Count)
				}
				o.Vio("C24.not-serviceable", "op=READ", "after %s: READ of 100 bytes at offset 0 of a 300-byte file: err=%v %s (transfer size now %d)", after, err, st, w.NFS.GetExportOptions().TransferSize)
			}
			if !ro {
				wr, err := cl.Write(lr.FH, 0, 2, []byte("a"))
				if err != nil || wr.Status != 0 || wr.Count == 0 {
					st := "no reply"
					if wr != nil {
						st = fmt.Sprintf("status=%d,count=%d", wr.Status, wr.Count)
					}
					o.Vio("C24.not-serviceable", "op=WRITE", "after %s: WRITE of 1 byte: err=%v %s (transfer size now %d)", after, err, st, w.NFS.GetExportOptions().TransferSize)
				}
			}
		}
		readerDone := make(chan int, 1)
		if sc.Conc {
			// concurrent class: while the administrator reconfigures, another client keeps reading; a READ
			// that lands in the middle of an update is served like any other (at least one byte before EOF)
			rc, err := w.Dial("10.0.0.8:901", RootCred, nil)
			if err != nil {
				o.Inconclusive = "dial"
				return
			}
			defer rc.Close()
			simrt.Go("c24-reader", func() {
				defer simrt.Send("c24.reader.done", readerDone, 1)
				lr, err := rc.Lookup(root, "f")
				if err != nil || lr.Status != 0 {
					return
				}
				for k := 0; k < sc.Reads; k++ {
					simrt.Sleep(time.Duration(100+37*k) * time.Microsecond)
					rr, err := rc.Read(lr.FH, uint64(k%7), 100)
					if err != nil {
						return
					}
					o.Tick()
					if rr.Status == 0 && rr.Count == 0 {
						o.Vio("C24.not-serviceable", "op=READ,during-update", "a READ of 100 bytes at offset %d of a 300-byte file issued while the configuration was being updated returned NFS3_OK with no data (transfer size reported now: %d)", k%7, w.NFS.GetExportOptions().TransferSize)
						return
					}
				}
			})
		} else {
			readerDone <- 0
		}
		defer func() { simrt.Recv("c24.reader.wait", readerDone) }()
		if sc.Two {
			// two administrators at once: whatever order their updates take effect in, what GetExportOptions
			// reports afterwards is what the caches and the worker pool really run with, and the server serves
			adone := make(chan int, 2)
			apply := func(st C24Step) {
				switch st.Kind {
				case "export":
					w.NFS.UpdateExportOptions(st.Opt.export())
				case "tuning":
					e := st.Opt.export()
					w.NFS.UpdateTuningOptions(func(tu *absnfs.TuningOptions) {
						tu.TransferSize, tu.AttrCacheTimeout, tu.AttrCacheSize = e.TransferSize, e.AttrCacheTimeout, e.AttrCacheSize
						tu.MaxWorkers, tu.DirCacheMaxEntries, tu.Timeouts = e.MaxWorkers, e.DirCacheMaxEntries, e.Timeouts
					})
				case "policy":
					w.NFS.UpdatePolicyOptions(absnfs.PolicyOptions{ReadOnly: st.Opt.ReadOnly, Squash: sc.Init.Squash})
				}
			}
			for a := 0; a < 2; a++ {
				a := a
				simrt.Go(fmt.Sprintf("c24-admin-%d", a), func() {
					defer simrt.Send("c24.admin.done", adone, a)
					for i, st := range sc.Steps {
						if i%2 == a {
							apply(st)
						}
					}
				})
			}
			simrt.Recv("c24.admin.wait", adone)
			simrt.Recv("c24.admin.wait", adone)
			after := w.NFS.GetExportOptions()
			o.Tick()
			if ac := absnfs.VerifAttrCache(w.NFS); ac != nil && ac.MaxSize() != after.AttrCacheSize {
				o.Vio("C24.reported-setting-not-in-force", "field=AttrCacheSize,two-administrators", "after two administrators updated the configuration at the same time GetExportOptions reports AttrCacheSize=%d, the attribute cache runs with capacity %d", after.AttrCacheSize, ac.MaxSize())
			}
			if wp := absnfs.VerifWorkerPool(w.NFS); wp != nil {
				if mw, _, _ := wp.Stats(); mw != after.MaxWorkers {
					o.Vio("C24.reported-setting-not-in-force", "field=MaxWorkers,two-administrators", "after two administrators updated the configuration at the same time GetExportOptions reports MaxWorkers=%d, the worker pool runs with %d", after.MaxWorkers, mw)
				}
			}
			for k, v := range tuningView(after) {
				if v <= 0 && k != "RateLimitConfig" {
					o.Vio("C24.non-positive-setting-in-force", "field="+k, "after two concurrent administrators: %s = %d is in force", k, v)
				}
			}
			serve("two concurrent administrators", after.ReadOnly)
			return
		}
		curSquash := sc.Init.Squash
		for i, st := range sc.Steps {
			simrt.Sleep(time.Millisecond)
			name := fmt.Sprintf("step %d (%s %+v)", i, st.Kind, st.Opt)
			before := w.NFS.GetExportOptions()
			var uerr error
			// reference: what construction makes of the same field values
			refOpts := st.Opt.export()
			refOpts.Squash = curSquash
			switch st.Kind {
			case "export":
				uerr = w.NFS.UpdateExportOptions(st.Opt.export())
			case "tuning":
				e := st.Opt.export()
				w.NFS.UpdateTuningOptions(func(tu *absnfs.TuningOptions) {
					tu.TransferSize, tu.AttrCacheTimeout, tu.AttrCacheSize = e.TransferSize, e.AttrCacheTimeout, e.AttrCacheSize
					tu.NegativeCacheTimeout, tu.DirCacheTimeout, tu.DirCacheMaxEntries, tu.DirCacheMaxDirSize = e.NegativeCacheTimeout, e.DirCacheTimeout, e.DirCacheMaxEntries, e.DirCacheMaxDirSize
					tu.MaxWorkers, tu.MaxConnections, tu.IdleTimeout, tu.SendBufferSize, tu.ReceiveBufferSize = e.MaxWorkers, e.MaxConnections, e.IdleTimeout, e.SendBufferSize, e.ReceiveBufferSize
					tu.Timeouts = e.Timeouts
					if e.Log != nil {
						tu.Log = e.Log
					}
				})
			case "policy":
				p := absnfs.PolicyOptions{ReadOnly: st.Opt.ReadOnly, Squash: st.Opt.Squash}
				uerr = w.NFS.UpdatePolicyOptions(p)
			}
			after := w.NFS.GetExportOptions()
			o.Tick()
			if uerr != nil {
				// rejected: the whole configuration is unchanged
				if !reflect.DeepEqual(tuningView(before), tuningView(after)) || before.ReadOnly != after.ReadOnly || before.Squash != after.Squash {
					o.Vio("C24.rejected-update-changed-configuration", "kind="+st.Kind, "%s was rejected (%v) but GetExportOptions changed: %v", name, uerr, diffView(tuningView(before), tuningView(after)))
				}
			} else {
				if st.Kind != "tuning" && st.Opt.Squash != "" && !strings.EqualFold(st.Opt.Squash, curSquash) {
					o.Vio("C24.squash-change-accepted", "kind="+st.Kind, "%s: a Squash change from %q to %q was accepted at runtime", name, curSquash, st.Opt.Squash)
				}
				if st.Kind != "policy" {
					// zero/negative/nil fields take the defaults construction gives them
					refFS := NewWorld(o).FS
					ref, rerr := absnfs.New(refFS.View(), refOpts)
					if rerr == nil {
						want := tuningView(ref.GetExportOptions())
						ref.Close()
						got := tuningView(after)
						if st.Kind == "tuning" {
							delete(want, "RateLimitConfig")
							delete(got, "RateLimitConfig")
						}
						if d := diffView(want, got); len(d) > 0 {
							o.Vio("C24.update-not-defaulted-like-construction", "kind="+st.Kind+","+firstKey(d), "%s: GetExportOptions differs from what construction makes of the same values: %v", name, d)
						}
					}
				}
				// "GetExportOptions reports the configuration in force": what it reports is what the caches and
				// the worker pool actually run with
				if st.Kind != "policy" {
					if ac := absnfs.VerifAttrCache(w.NFS); ac != nil && ac.MaxSize() != after.AttrCacheSize {
						o.Vio("C24.reported-setting-not-in-force", "field=AttrCacheSize", "%s: GetExportOptions reports AttrCacheSize=%d, the attribute cache runs with capacity %d", name, after.AttrCacheSize, ac.MaxSize())
					}
					if wp := absnfs.VerifWorkerPool(w.NFS); wp != nil {
						if mw, _, _ := wp.Stats(); mw != after.MaxWorkers {
							o.Vio("C24.reported-setting-not-in-force", "field=MaxWorkers", "%s: GetExportOptions reports MaxWorkers=%d, the worker pool runs with %d", name, after.MaxWorkers, mw)
						}
					}
				}
				for k, v := range tuningView(after) {
					if v <= 0 && k != "RateLimitConfig" {
						o.Vio("C24.non-positive-setting-in-force", "field="+k, "%s: %s = %d is in force", name, k, v)
					}
				}
			}
			serve(name, after.ReadOnly)
		}
	})
	o.finish(res, "C24")
	return o
}

func diffView(want, got map[string]int64) []string {
	var out []string
	for k, v := range want {
		if got[k] != v {
			out = append(out, fmt.Sprintf("%s: %d (want %d)", k, got[k], v))
		}
	}
	for k := range got {
		if _, ok := want[k]; !ok {
			out = append(out, fmt.Sprintf("%s: unexpected %d", k, got[k]))
		}
	}
	sortStrings(out)
	return out
}

func firstKey(d []string) string {
	if len(d) == 0 {
		return ""
	}
	for i := 0; i < len(d[0]); i++ {
		if d[0][i] == ':' {
			return "field=" + d[0][:i]
		}
	}
	return ""
}

func genOpt(r *simrt.Rand) OptSpec {
	pick := func(vals ...int) int { return vals[r.Int(len(vals))] }
	s := OptSpec{TransferSize: pick(0, 0, -1, 1, 512, 65536), AttrTTLms: pick(0, 0, -5, 1, 5000), AttrSize: pick(0, 0, -1, 1, 100), NegTTLms: pick(0, -1, 10),
		DirTTLms: pick(0, -1, 10), DirMax: pick(0, -1, 5), DirMaxSize: pick(0, -1, 5), MaxWorkers: pick(0, 0, -2, 1, 3), MaxConns: pick(0, -1, 1, 50), IdleMs: pick(0, -1, 60000),
		SendBuf: pick(0, -1, 4096), RecvBuf: pick(0, -1, 4096), Timeouts: r.Int(5), ReadOnly: r.Pct(20), NegCache: r.Pct(30), DirCache: r.Pct(30), RLNil: r.Pct(50), Log: pick(0, 0, 0, 0, 1, 2, 3)}
	if r.Pct(20) {
		// swarm: every scalar field positive, so that only one thing is left to default (the time-outs, the
		// rate-limit configuration) - the blind spot of a "nothing to default" short cut
		s.TransferSize, s.AttrTTLms, s.AttrSize, s.NegTTLms = pick(1, 512, 65536), pick(1, 5000), pick(1, 100), 10
		s.DirTTLms, s.DirMax, s.DirMaxSize, s.MaxWorkers, s.MaxConns, s.IdleMs = 10, 5, 5, pick(1, 3), pick(1, 50), 60000
		s.SendBuf, s.RecvBuf = 4096, 4096
	}
	return s
}

func genC24(r *simrt.Rand, tier string) any {
	sc := &C24Scn{Init: genOpt(r), Sched: SeqSched(r.Uint64())}
	if r.Pct(20) {
		sc.Conc, sc.Reads, sc.Sched = true, 10+r.Int(30), RandSched(r)
		sc.Sched.HorizonS = 3600
		sc.Two = r.Pct(40)
	}
	sc.Init.Squash = []string{"", "root", "none"}[r.Int(3)]
	sc.Init.ReadOnly = false
	if sc.Init.Log > 1 {
		sc.Init.Log = 0 // construction refuses an unusable log configuration; the runtime updates are what is drawn freely
	}
	n := 1 + r.Int(6)
	for i := 0; i < n; i++ {
		st := C24Step{Kind: []string{"export", "export", "tuning", "policy"}[r.Int(4)], Opt: genOpt(r)}
		st.Opt.Squash = sc.Init.Squash
		if r.Pct(25) {
			st.Opt.Squash = []string{"all", "root", "none"}[r.Int(3)]
		} else if r.Pct(15) && sc.Init.Squash != "" {
			// the same mode in another spelling (modes are case-insensitive): accepted or refused, the update is all-or-nothing
			st.Opt.Squash = []string{strings.ToUpper(sc.Init.Squash), strings.ToUpper(sc.Init.Squash[:1]) + sc.Init.Squash[1:]}[r.Int(2)]
		}
		sc.Steps = append(sc.Steps, st)
	}
	return sc
}

func shrinkC24(scAny any) []any {
	sc := scAny.(*C24Scn)
	var out []any
	for i := range sc.Steps {
		c := *sc
		c.Steps = append(append([]C24Step(nil), sc.Steps[:i]...), sc.Steps[i+1:]...)
		out = append(out, &c)
	}
	return out
}

func init() {
	Register(&Prop{ID: "C24", Level: "exploration",
		Rule: "one case = a server constructed from drawn options followed by 1-6 runtime updates (UpdateExportOptions, UpdateTuningOptions, UpdatePolicyOptions) whose numeric and duration fields are drawn from {zero, negative, small, normal}, Timeouts from {nil, all-zero, partial, full, negative} (in 20% of the structs every other scalar is positive, so that the time-outs or the rate-limit configuration are the only thing left to default), RateLimitConfig nil or set, Log nil / valid / a destination that cannot be opened / an unknown format, Squash equal, changed, or the same mode in another letter case; after every update: GetExportOptions is compared field by field with what absnfs.New makes of the same option values (differential against construction, no default constants mirrored), every setting in force must be positive, the attribute cache's capacity and the worker pool's size must be what GetExportOptions reports, a rejected update must leave GetExportOptions identical, a Squash change must be rejected, and a client on the simulated network must still get LOOKUP, READ (>=1 byte) and WRITE served; in 20% of the cases a second client keeps issuing READs under the seeded scheduler while the updates run - a READ that lands inside an update is served like any other, and in 40% of those the updates are issued by two administrators at the same time (afterwards the reported cache capacity and pool size must be the ones in force); non-trivial = at least one update; distinct by event digest",
		Gen:  genC24, New: func() any { return &C24Scn{} }, Run: runC24, Shrink: shrinkC24, Real: seqReal, Stubbed: seqStubbed})
	_ = nfsclient.NFS3_OK
}
