package h

import (
	"fmt"
	"testing"
	"time"

	"github.com/absfs/absnfs"

	"verif/sim/nfsclient"
	"verif/sim/simrt"
)

// C28: every documented way of starting a server speaks standard ONC RPC over TCP.

type C28Scn struct {
	Path    string   `json:"path"` // export | listen_rm | portmapper
	Port    int      `json:"port"`
	Debug   bool     `json:"debug"`
	Segment bool     `json:"segment"`
	RpcFrag uint64   `json:"rpc_frag,omitempty"` // != 0: calls are sent as multi-fragment records
	LatMs   int      `json:"latency_ms"`
	Sched   SchedCfg `json:"sched"`
	// a client that takes its time: silence between connecting and the first call, and between the calls
	// (always well below the default IdleTimeout of 5 minutes, so the server has no reason to hang up)
	PreCallMs int `json:"pre_call_ms,omitempty"`
	GapMs     int `json:"gap_ms,omitempty"`
	DialMs    int `json:"dial_ms,omitempty"` // the client connects this long after the server started (e.g. just before a housekeeping tick)
}

func init() {
	Register(&Prop{
		ID: "C28", Level: "exploration",
		Rule: "one case = (start-up path in {AbsfsNFS.Export, NewServer+Listen with record marking, StartWithPortmapper}, port 0 or explicit, debug on/off, transport segmentation/latency, calls sent as single-fragment records or (40%) split into up to 12 record-marking fragments incl. empty ones, a client that connects 0-299 s after start-up (also just before the housekeeping ticks at 60 s multiples) and waits 0.2-100 s between connecting and its first call (a connection closed by the server within 20 s of being opened is a failure) and 0.1-50 s between calls (20%, reconnecting if the server's read deadline closed the idle connection), schedule seed); non-trivial = the server started and the client completed the write of its NULL call; distinct by event digest",
		Gen: func(r *simrt.Rand, tier string) any {
			sc := &C28Scn{Path: []string{"export", "listen_rm", "portmapper"}[r.Int(3)], Debug: r.Pct(30), Segment: r.Pct(50), LatMs: r.Int(3) * r.Int(20)}
			if r.Pct(40) {
				sc.RpcFrag = 1 + r.Uint64()%1000000
			}
			if r.Pct(50) {
				sc.Port = 2049 + r.Int(5)
			}
			if r.Pct(30) {
				sc.PreCallMs = []int{300, 1200, 20000, 40000, 100000}[r.Int(5)]
			}
			if r.Pct(25) {
				sc.DialMs = []int{900, 29500, 59000, 59900, 119500, 299000}[r.Int(6)]
				if sc.PreCallMs == 0 || sc.PreCallMs > 20000 {
					sc.PreCallMs = []int{200, 1200, 5000}[r.Int(3)]
				}
			}
			if r.Pct(20) {
				sc.GapMs = []int{100, 6000, 25000, 50000}[r.Int(4)]
			}
			if r.Pct(50) {
				sc.Sched = RandSched(r)
			} else {
				sc.Sched = SeqSched(r.Uint64())
			}
			return sc
		},
		New: func() any { return &C28Scn{} },
		Run: runC28,
		Shrink: func(sc any) []any {
			s := *(sc.(*C28Scn))
			var out []any
			if s.Debug {
				c := s
				c.Debug = false
				out = append(out, &c)
			}
			if s.Segment || s.LatMs > 0 {
				c := s
				c.Segment, c.LatMs = false, 0
				out = append(out, &c)
			}
			if s.Sched.Mask != 0 {
				c := s
				c.Sched = SeqSched(s.Sched.Seed)
				out = append(out, &c)
			}
			if s.Port != 0 {
				c := s
				c.Port = 0
				out = append(out, &c)
			}
			return out
		},
		Real:    []string{"absnfs.New", "AbsfsNFS.Export", "NewServer", "Server.Listen", "Server.StartWithPortmapper", "Portmapper.Start", "accept loop", "connection loop", "record marking", "RPC decode/dispatch", "MOUNT MNT", "NFS NULL/GETATTR"},
		Stubbed: []string{"kernel TCP (simnet)", "backend filesystem (simfs)", "clock (synctest)", "goroutine scheduling (simrt driver)", "sync.Mutex/RWMutex/Once (simrt equivalents)"},
	})
}

func runC28(t *testing.T, scAny any, trace bool) *Outcome {
	sc := scAny.(*C28Scn)
	o := &Outcome{}
	res := Bubble(t, sc.Sched.config(trace), nil, func() {
		simrt.Event("scenario %x", simrt.Hash(hashBytes(mustJSON(sc))))
		w := NewWorld(o)
		w.FS.MustWriteFile("/hello", []byte("hi"), 0o644)
		var err error
		port := sc.Port
		switch sc.Path {
		case "export":
			w.NFS, err = absnfs.New(w.FS.View(), absnfs.ExportOptions{})
			if err == nil {
				err = w.NFS.Export("/export/test", sc.Port)
				if srv := absnfs.VerifExportServer(w.NFS); srv != nil {
					port = srv.GetPort()
				}
			}
		case "listen_rm":
			err = w.StartWith(absnfs.ExportOptions{}, absnfs.ServerOptions{Port: sc.Port, UseRecordMarking: true, Debug: sc.Debug})
			port = w.Port
		case "portmapper":
			w.NFS, err = absnfs.New(w.FS.View(), absnfs.ExportOptions{})
			if err == nil {
				w.Srv, err = absnfs.NewServer(absnfs.ServerOptions{Port: sc.Port, Debug: sc.Debug})
				if err == nil {
					w.Srv.SetHandler(w.NFS)
					err = w.Srv.StartWithPortmapper()
					port = w.Srv.GetPort()
				}
			}
		}
		defer func() {
			if w.Srv != nil {
				w.Srv.Stop()
			}
			if w.NFS != nil {
				w.NFS.Close()
			}
		}()
		if err != nil {
			o.Vio("C28.start-failed", "path="+sc.Path, "start-up path %s failed: %v", sc.Path, err)
			return
		}
		w.Port = port
		simrt.Sleep(time.Duration(sc.DialMs) * time.Millisecond)
		cl, err := w.Dial("127.0.0.1:800", RootCred, &simrt.ConnFaults{Segment: sc.Segment, Latency: time.Duration(sc.LatMs) * time.Millisecond})
		if err == nil {
			cl.FragSeed = sc.RpcFrag
		}
		if err != nil {
			o.Vio("C28.dial-failed", "path="+sc.Path, "cannot connect to port %d: %v", port, err)
			return
		}
		defer cl.Close()
		cl.Timeout = 90 * time.Second
		fail := func(step string, err error) {
			o.Vio("C28.no-conformant-reply", fmt.Sprintf("path=%s,step=%s", sc.Path, step), "start-up path %s: conformant record-marking client got no well-formed reply to %s: %v", sc.Path, step, err)
		}
		o.NonTrivial = true
		simrt.Sleep(time.Duration(sc.PreCallMs) * time.Millisecond)
		if sc.PreCallMs > 0 && sc.PreCallMs <= 20000 && cl.Conn.PeerClosed() {
			// well inside the read deadline (30 s) and the idle time-out (5 min): nothing entitles the server to
			// hang up on a connection that has just been opened
			fail("first-call", fmt.Errorf("the server closed the connection %d ms after it was opened (opened %d ms after start-up), before the first call", sc.PreCallMs, sc.DialMs))
			return
		}
		gap := func() {
			if sc.GapMs > 0 {
				simrt.Sleep(time.Duration(sc.GapMs) * time.Millisecond)
				if cl.Dead || cl.Conn.PeerClosed() {
					// a conformant client reconnects when the server's per-read deadline closed an idle
					// connection (that is the server's documented behaviour, not a failure to speak RPC)
					if nc, derr := simrt.Dial(cl.addr, cl.port, cl.faults); derr == nil {
						cl.Conn.Close()
						cl.Conn, cl.Dead = nc, false
					}
				}
			}
		}
		rep, err := cl.RawCall(nfsclient.ProgNFS, 3, nfsclient.NFSProcNull, nil)
		if err != nil || rep.Stat != nfsclient.MsgAccepted || rep.AcceptStat != nfsclient.Success || len(rep.Results) != 0 {
			fail("NULL", orStat(err, rep))
			return
		}
		gap()
		fh, _, err := cl.Mount("/")
		if err != nil {
			fail("MNT", err)
			return
		}
		gap()
		ga, err := cl.Getattr(fh)
		if err != nil || ga.Status != 0 || ga.Attr == nil || ga.Attr.Type != 2 {
			fail("GETATTR", fmt.Errorf("err=%v res=%+v", err, ga))
			return
		}
		o.Checks += 3
		if sc.Path == "portmapper" {
			// the portmapper itself must answer GETPORT for NFS with the server's port
			pc, err := w.DialPort(111, "127.0.0.1:801", RootCred, nil)
			if err != nil {
				fail("portmap-dial", err)
				return
			}
			defer pc.Close()
			rep, err := pc.RawCall(nfsclient.ProgPortmap, 2, 3, nfsclient.ArgsMapping(nfsclient.Mapping{Prog: nfsclient.ProgNFS, Vers: 3, Prot: 6}))
			if err != nil || rep.Stat != nfsclient.MsgAccepted || rep.AcceptStat != nfsclient.Success {
				fail("GETPORT", orStat(err, rep))
				return
			}
			v, derr := nfsclient.DecodePortmap(2, 3, rep.Results)
			if derr != nil || v.(uint32) != uint32(port) {
				fail("GETPORT", fmt.Errorf("decode=%v value=%v want %d", derr, v, port))
			}
			o.Checks++
		}
	})
	o.finish(res, "C28")
	return o
}

func orStat(err error, rep *nfsclient.Reply) error {
	if err != nil {
		return err
	}
	if rep == nil {
		return fmt.Errorf("no reply")
	}
	return fmt.Errorf("stat=%d accept=%d results=%d bytes", rep.Stat, rep.AcceptStat, len(rep.Results))
}
