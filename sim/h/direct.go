package h

import (
	"bytes"
	"fmt"
	"io"
	"net"
	"runtime"
	"sort"
	"strings"
	"testing"
	"time"

	"github.com/absfs/absnfs"

	"verif/sim/nfsclient"
	"verif/sim/simrt"
)

// ---------------------------------------------------------------------------
// C27: portmapper over the simulated network
// ---------------------------------------------------------------------------

type PmOp struct {
	From  int    `json:"from"` // index into pmAddrs
	Vers  uint32 `json:"vers"`
	Proc  uint32 `json:"proc"`
	Prog  uint32 `json:"prog"`
	PVers uint32 `json:"pvers"`
	Prot  uint32 `json:"prot"`
	Port  uint32 `json:"port"`
	Netid string `json:"netid,omitempty"`
	RProg uint32 `json:"rprog,omitempty"` // RPC program number of the call itself (0 = portmapper)
	// PauseMs > 0: the call arrives in two parts (cut after PauseAt bytes, wrapped into the record) with this
	// long a silence in between - always well inside the 30 s the portmapper waits for a record
	PauseMs int `json:"pause_ms,omitempty"`
	PauseAt int `json:"pause_at,omitempty"`
}

type PmScn struct {
	Ops   []PmOp   `json:"ops"`
	Sched SchedCfg `json:"sched"`
	// concurrent class: Mut is one loopback client issuing SET/UNSET, Readers are clients issuing DUMP and
	// GETPORT/GETADDR at the same time under the seeded scheduler
	Mut     []PmOp   `json:"mut,omitempty"`
	Readers [][]PmOp `json:"readers,omitempty"`
	// second mutator (also loopback): the two SET/UNSET streams overlap; the final registry must then be what
	// some interleaving of the two streams (each in its own order) leaves behind
	Mut2 []PmOp `json:"mut2,omitempty"`
}

// pmApply applies one SET/UNSET to a registry model.
func pmApply(m map[pmKey]uint32, op PmOp) {
	k := pmKey{op.Prog, op.PVers, op.Prot}
	if op.Proc == 1 {
		if _, exists := m[k]; !exists && op.Port != 0 {
			m[k] = op.Port
		} else if exists {
			m[k] = op.Port
		}
	} else {
		delete(m, k)
	}
}

// pmFinals enumerates the registries that interleavings of a and b (each in order) can leave behind.
func pmFinals(init map[pmKey]uint32, a, b []PmOp, visit func(map[pmKey]uint32) bool) bool {
	var rec func(m map[pmKey]uint32, i, j int) bool
	rec = func(m map[pmKey]uint32, i, j int) bool {
		if i == len(a) && j == len(b) {
			return visit(m)
		}
		if i < len(a) {
			c := map[pmKey]uint32{}
			for k, v := range m {
				c[k] = v
			}
			pmApply(c, a[i])
			if rec(c, i+1, j) {
				return true
			}
		}
		if j < len(b) {
			c := map[pmKey]uint32{}
			for k, v := range m {
				c[k] = v
			}
			pmApply(c, b[j])
			if rec(c, i, j+1) {
				return true
			}
		}
		return false
	}
	return rec(init, 0, 0)
}

// pmState is one state the registry held: possibly visible from the call of the mutation that made it
// until the return of the next mutation.
type pmState struct {
	from, to int64 // scheduler stamps (to = 0: still current)
	m        map[pmKey]uint32
}

func pmDecodeDump(vers uint32, v any) map[pmKey]uint32 {
	got := map[pmKey]uint32{}
	if vers == 2 {
		for _, m := range v.([]nfsclient.Mapping) {
			got[pmKey{m.Prog, m.Vers, m.Prot}] = m.Port
		}
		return got
	}
	for _, e := range v.([]nfsclient.RpcbEntry) {
		p := uint32(6)
		if e.Netid == "udp" || e.Netid == "udp6" {
			p = 17
		}
		parts := strings.Split(e.Addr, ".")
		var hi, lo uint32
		if len(parts) >= 2 {
			fmt.Sscanf(parts[len(parts)-2], "%d", &hi)
			fmt.Sscanf(parts[len(parts)-1], "%d", &lo)
		}
		got[pmKey{e.Prog, e.Vers, p}] = hi*256 + lo
	}
	return got
}

// runPortmapTwoMutators: two loopback clients SET/UNSET at the same time (through different protocol versions).
func runPortmapTwoMutators(o *Outcome, sc *PmScn, pm *absnfs.Portmapper, w *World, port int) {
	init := map[pmKey]uint32{}
	for _, m := range pm.GetMappings() {
		init[pmKey{m.Program, m.Version, m.Protocol}] = m.Port
	}
	done := make(chan int, 2)
	for mi, ops := range [][]PmOp{sc.Mut, sc.Mut2} {
		mi, ops := mi, ops
		simrt.Go(fmt.Sprintf("pm-mutator-%d", mi), func() {
			defer simrt.Send("pm.done", done, mi)
			cl, err := w.DialPort(port, pmAddrs[mi], Cred{}, nil) // 127.0.0.1 and [::1]
			if err != nil {
				return
			}
			defer cl.Close()
			for _, op := range ops {
				var args []byte
				if op.Vers == 2 {
					args = nfsclient.ArgsMapping(nfsclient.Mapping{Prog: op.Prog, Vers: op.PVers, Prot: op.Prot, Port: op.Port})
				} else {
					netid := "tcp"
					if op.Prot == 17 {
						netid = "udp"
					}
					args = nfsclient.ArgsRpcb(nfsclient.RpcbEntry{Prog: op.Prog, Vers: op.PVers, Netid: netid, Addr: nfsclient.UAddr("127.0.0.1", op.Port), Owner: "sim"})
				}
				if _, err := cl.RawCall(nfsclient.ProgPortmap, op.Vers, op.Proc, args); err != nil {
					o.Vio("C27.no-reply", fmt.Sprintf("vers=%d,proc=%d,concurrent", op.Vers, op.Proc), "mutator %d: %v", mi, err)
					return
				}
			}
		})
	}
	simrt.Recv("pm.wait", done)
	simrt.Recv("pm.wait", done)
	final := map[pmKey]uint32{}
	for _, m := range pm.GetMappings() {
		final[pmKey{m.Program, m.Version, m.Protocol}] = m.Port
	}
	o.Tick()
	same := func(a map[pmKey]uint32) bool {
		if len(a) != len(final) {
			return false
		}
		for k, v := range a {
			if final[k] != v {
				return false
			}
		}
		return true
	}
	if !pmFinals(init, sc.Mut, sc.Mut2, same) {
		o.Vio("C27.registry-of-no-interleaving", "", "two loopback clients issued %d and %d SET/UNSET calls at the same time; the registry afterwards %v is what no interleaving of the two streams leaves behind (started from %v)", len(sc.Mut), len(sc.Mut2), pmKeys(final), pmKeys(init))
	}
}

// runPortmapConcurrent: every DUMP reply must be a set of mappings the registry held at some instant
// between the call and its reply (never a mixture of two states, an entry twice, or an entry dropped).
func runPortmapConcurrent(o *Outcome, sc *PmScn, pm *absnfs.Portmapper, w *World, port int) {
	o.NonTrivial = len(sc.Mut) > 0 && (len(sc.Readers) > 0 || len(sc.Mut2) > 0)
	if len(sc.Mut2) > 0 {
		runPortmapTwoMutators(o, sc, pm, w, port)
		return
	}
	snap := func() map[pmKey]uint32 {
		out := map[pmKey]uint32{}
		for _, m := range pm.GetMappings() {
			out[pmKey{m.Program, m.Version, m.Protocol}] = m.Port
		}
		return out
	}
	states := []pmState{{from: 0, m: snap()}}
	type dump struct {
		inv, ret int64
		vers     uint32
		got      map[pmKey]uint32
		raw      int // number of entries on the wire (duplicates included)
		who      string
	}
	nr := len(sc.Readers)
	dumps := make([][]dump, nr)
	done := make(chan int, nr+1)
	simrt.Go("pm-mutator", func() {
		defer simrt.Send("pm.done", done, -1)
		cl, err := w.DialPort(port, pmAddrs[0], Cred{}, nil)
		if err != nil {
			return
		}
		defer cl.Close()
		for _, op := range sc.Mut {
			args := nfsclient.ArgsMapping(nfsclient.Mapping{Prog: op.Prog, Vers: op.PVers, Prot: op.Prot, Port: op.Port})
			inv := simrt.Stamp()
			if _, err := cl.RawCall(nfsclient.ProgPortmap, 2, op.Proc, args); err != nil {
				return
			}
			ret := simrt.Stamp()
			// only this task changes the registry: what it holds now is the state after this mutation
			states[len(states)-1].to = ret
			states = append(states, pmState{from: inv, m: snap()})
		}
	})
	for ri := range sc.Readers {
		ri := ri
		simrt.Go(fmt.Sprintf("pm-reader-%d", ri), func() {
			defer simrt.Send("pm.done", done, ri)
			addr := pmAddrs[(1+ri)%len(pmAddrs)]
			cl, err := w.DialPort(port, addr, Cred{}, &simrt.ConnFaults{Segment: ri%2 == 0})
			if err != nil {
				return
			}
			defer cl.Close()
			for _, op := range sc.Readers[ri] {
				var args []byte
				if op.Proc != 4 {
					if op.Vers == 2 {
						args = nfsclient.ArgsMapping(nfsclient.Mapping{Prog: op.Prog, Vers: op.PVers, Prot: op.Prot})
					} else {
						args = nfsclient.ArgsRpcb(nfsclient.RpcbEntry{Prog: op.Prog, Vers: op.PVers, Netid: "tcp", Owner: "sim"})
					}
				}
				inv := simrt.Stamp()
				rep, err := cl.RawCall(nfsclient.ProgPortmap, op.Vers, op.Proc, args)
				ret := simrt.Stamp()
				if err != nil {
					if _, dead := err.(*ErrNoReply); dead {
						o.Vio("C27.no-reply", fmt.Sprintf("vers=%d,proc=%d,concurrent", op.Vers, op.Proc), "reader %d: %v", ri, err)
					}
					return
				}
				o.Tick()
				if rep.Stat != nfsclient.MsgAccepted || rep.AcceptStat != nfsclient.Success {
					o.Vio("C27.not-accepted", fmt.Sprintf("vers=%d,proc=%d,concurrent", op.Vers, op.Proc), "reader %d: stat=%d accept=%d", ri, rep.Stat, rep.AcceptStat)
					continue
				}
				v, derr := nfsclient.DecodePortmap(op.Vers, op.Proc, rep.Results)
				if derr != nil {
					o.Vio("C27.result-malformed", fmt.Sprintf("vers=%d,proc=%d,concurrent", op.Vers, op.Proc), "reader %d: result does not decode: %v", ri, derr)
					continue
				}
				if op.Proc == 4 {
					raw := 0
					if op.Vers == 2 {
						raw = len(v.([]nfsclient.Mapping))
					} else {
						raw = len(v.([]nfsclient.RpcbEntry))
					}
					dumps[ri] = append(dumps[ri], dump{inv, ret, op.Vers, pmDecodeDump(op.Vers, v), raw, fmt.Sprintf("reader %d v%d", ri, op.Vers)})
				}
			}
		})
	}
	for i := 0; i < nr+1; i++ {
		simrt.Recv("pm.wait", done)
	}
	same := func(a, b map[pmKey]uint32) bool {
		if len(a) != len(b) {
			return false
		}
		for k, v := range a {
			if b[k] != v {
				return false
			}
		}
		return true
	}
	for _, ds := range dumps {
		for _, d := range ds {
			o.Tick()
			ok := false
			for _, st := range states {
				if st.from <= d.ret && (st.to == 0 || st.to >= d.inv) && same(st.m, d.got) && d.raw == len(st.m) {
					ok = true
					break
				}
			}
			if !ok {
				o.Vio("C27.dump-of-no-state", fmt.Sprintf("vers=%d", d.vers), "%s: DUMP returned %d entries %v while SET/UNSET calls were running; the registry held no such set of mappings at any instant between the call and its reply (an entry twice, an entry dropped, or a mixture of two states)", d.who, d.raw, pmKeys(d.got))
			}
		}
	}
}

var pmAddrs = []string{"127.0.0.1:700", "[::1]:701", "10.1.2.3:702", "192.168.0.9:1023", "[2001:db8::5]:703", "[::ffff:127.0.0.1]:704", "127.9.9.9:60000", "[::ffff:10.0.0.1]:705"}

func isLoopbackAddr(a string) bool {
	host, _, _ := net.SplitHostPort(a)
	ip := net.ParseIP(host)
	if ip == nil {
		return false
	}
	if v4 := ip.To4(); v4 != nil {
		return v4[0] == 127
	}
	return ip.Equal(net.IPv6loopback)
}

type pmKey struct{ prog, vers, prot uint32 }

func runPortmap(t *testing.T, scAny any, trace bool) *Outcome {
	sc := scAny.(*PmScn)
	o := &Outcome{}
	res := Bubble(t, sc.Sched.config(trace), nil, func() {
		simrt.Event("scenario %x", simrt.Hash(hashBytes(mustJSON(sc))))
		pm := absnfs.NewPortmapper()
		const port = 1111
		if err := pm.StartOnPort(port); err != nil {
			o.Vio("C27.start-failed", "", "StartOnPort: %v", err)
			return
		}
		defer pm.Stop()
		w := NewWorld(o)
		if len(sc.Mut) > 0 {
			simrt.Probe("run_class.concurrent")
			runPortmapConcurrent(o, sc, pm, w, port)
			return
		}
		simrt.Probe("run_class.sequential")
		model := map[pmKey]uint32{}
		for _, v := range []uint32{2, 3, 4} {
			model[pmKey{100000, v, 6}] = port
			model[pmKey{100000, v, 17}] = port
		}
		clients := map[int]*Client{}
		o.NonTrivial = len(sc.Ops) > 0
		registry := func() map[pmKey]uint32 {
			out := map[pmKey]uint32{}
			for _, m := range pm.GetMappings() {
				out[pmKey{m.Program, m.Version, m.Protocol}] = m.Port
			}
			return out
		}
		sameMap := func(a, b map[pmKey]uint32) bool {
			if len(a) != len(b) {
				return false
			}
			for k, v := range a {
				if b[k] != v {
					return false
				}
			}
			return true
		}
		for i, op := range sc.Ops {
			addr := pmAddrs[op.From%len(pmAddrs)]
			cl := clients[op.From]
			if cl == nil || cl.Dead {
				c, err := w.DialPort(port, addr, Cred{}, &simrt.ConnFaults{Segment: i%2 == 0})
				if err != nil {
					o.Inconclusive = "dial: " + err.Error()
					return
				}
				cl, clients[op.From] = c, c
			}
			loop := isLoopbackAddr(addr)
			rprog := uint32(nfsclient.ProgPortmap)
			if op.RProg != 0 {
				rprog = op.RProg
			}
			var args []byte
			prot := op.Prot
			if op.Vers == 2 {
				args = nfsclient.ArgsMapping(nfsclient.Mapping{Prog: op.Prog, Vers: op.PVers, Prot: op.Prot, Port: op.Port})
			} else {
				prot = 6
				if op.Netid == "udp" || op.Netid == "udp6" {
					prot = 17
				}
				args = nfsclient.ArgsRpcb(nfsclient.RpcbEntry{Prog: op.Prog, Vers: op.PVers, Netid: op.Netid, Addr: nfsclient.UAddr("127.0.0.1", op.Port), Owner: "sim"})
			}
			if op.Proc == 0 || op.Proc == 4 {
				args = nil
			}
			before := registry()
			if op.Proc == 4 && len(before) == 0 {
				simrt.Probe("dump_of_empty_registry")
			}
			name := fmt.Sprintf("#%d v%d proc %d from %s", i, op.Vers, op.Proc, addr)
			if op.PauseMs > 0 {
				cl.PauseAt, cl.PauseFor = 1+op.PauseAt, time.Duration(op.PauseMs)*time.Millisecond
				name += fmt.Sprintf(" (arriving in two parts, %d ms apart)", op.PauseMs)
			}
			rep, err := cl.RawCall(rprog, op.Vers, op.Proc, args)
			if err != nil {
				if _, dead := err.(*ErrNoReply); dead {
					o.Vio("C27.no-reply", fmt.Sprintf("vers=%d,proc=%d", op.Vers, op.Proc), "%s: %v", name, err)
				} else {
					kind := "known-version"
					if op.Vers < 2 || op.Vers > 4 {
						kind = "unsupported-version"
					}
					o.Vio("C27.reply-malformed", kind, "%s: reply is not a well-formed RFC 1831 reply: %v", name, err)
				}
				continue
			}
			o.Checks++
			key := pmKey{op.Prog, op.PVers, prot}
			switch {
			case rprog != nfsclient.ProgPortmap:
				if rep.Stat != nfsclient.MsgAccepted || rep.AcceptStat != nfsclient.ProgUnavail {
					o.Vio("C27.wrong-program-not-refused", "", "%s: call for program %d got stat=%d accept=%d, want PROG_UNAVAIL", name, rprog, rep.Stat, rep.AcceptStat)
				}
			case op.Vers < 2 || op.Vers > 4:
				if rep.Stat != nfsclient.MsgAccepted || rep.AcceptStat != nfsclient.ProgMismatch {
					o.Vio("C27.wrong-version-not-refused", "", "%s: got stat=%d accept=%d, want PROG_MISMATCH", name, rep.Stat, rep.AcceptStat)
				}
			case op.Proc > 4:
				if rep.Stat != nfsclient.MsgAccepted || (rep.AcceptStat != nfsclient.ProcUnavail && rep.AcceptStat != nfsclient.Success) {
					o.Vio("C27.unknown-proc", "", "%s: got stat=%d accept=%d", name, rep.Stat, rep.AcceptStat)
				}
			default:
				if rep.Stat != nfsclient.MsgAccepted || rep.AcceptStat != nfsclient.Success {
					o.Vio("C27.not-accepted", fmt.Sprintf("vers=%d,proc=%d", op.Vers, op.Proc), "%s: stat=%d accept=%d", name, rep.Stat, rep.AcceptStat)
					break
				}
				v, derr := nfsclient.DecodePortmap(op.Vers, op.Proc, rep.Results)
				if derr != nil {
					o.Vio("C27.result-malformed", fmt.Sprintf("vers=%d,proc=%d", op.Vers, op.Proc), "%s: result does not decode: %v (%x)", name, derr, trunc(rep.Results, 64))
					break
				}
				switch op.Proc {
				case 1: // SET
					ok := v.(bool)
					if loop && ok && op.Port != 0 {
						model[key] = op.Port
					}
					if !loop && ok {
						o.Vio("C27.remote-set-acknowledged", fmt.Sprintf("vers=%d", op.Vers), "%s: SET from a non-loopback address answered TRUE", name)
					}
				case 2: // UNSET
					ok := v.(bool)
					if loop && ok {
						delete(model, key)
					}
					if !loop && ok {
						o.Vio("C27.remote-unset-acknowledged", fmt.Sprintf("vers=%d", op.Vers), "%s: UNSET from a non-loopback address answered TRUE", name)
					}
				case 3:
					if op.Vers == 2 {
						if got := v.(uint32); got != model[key] {
							o.Vio("C27.getport-wrong", "", "%s: GETPORT(%v) = %d, registry model says %d", name, key, got, model[key])
						}
					} else {
						ua := v.(string)
						want := model[key]
						gotPort := uint32(0)
						if ua != "" {
							parts := strings.Split(ua, ".")
							if len(parts) >= 2 {
								var hi, lo uint32
								fmt.Sscanf(parts[len(parts)-2], "%d", &hi)
								fmt.Sscanf(parts[len(parts)-1], "%d", &lo)
								gotPort = hi*256 + lo
							}
						}
						if gotPort != want {
							o.Vio("C27.getaddr-wrong", "", "%s: GETADDR(%v) = %q (port %d), registry model says port %d", name, key, ua, gotPort, want)
						}
					}
				case 4:
					got := map[pmKey]uint32{}
					if op.Vers == 2 {
						for _, m := range v.([]nfsclient.Mapping) {
							got[pmKey{m.Prog, m.Vers, m.Prot}] = m.Port
						}
					} else {
						for _, e := range v.([]nfsclient.RpcbEntry) {
							p := uint32(6)
							if e.Netid == "udp" || e.Netid == "udp6" {
								p = 17
							}
							parts := strings.Split(e.Addr, ".")
							var hi, lo uint32
							if len(parts) >= 2 {
								fmt.Sscanf(parts[len(parts)-2], "%d", &hi)
								fmt.Sscanf(parts[len(parts)-1], "%d", &lo)
							}
							got[pmKey{e.Prog, e.Vers, p}] = hi*256 + lo
						}
					}
					exotic := false
					for k := range model {
						if k.prot != 6 && k.prot != 17 {
							exotic = true // rpcbind's netid strings cannot name such a protocol: only the v2 DUMP is compared then
						}
					}
					if !sameMap(got, model) && !(exotic && op.Vers >= 3) {
						o.Vio("C27.dump-wrong", fmt.Sprintf("vers=%d", op.Vers), "%s: DUMP lists %d mappings %v, registry model has %d %v", name, len(got), pmKeys(got), len(model), pmKeys(model))
					}
				}
			}
			after := registry()
			o.Checks++
			if !loop && !sameMap(before, after) {
				o.Vio("C27.remote-client-changed-registry", fmt.Sprintf("vers=%d,proc=%d", op.Vers, op.Proc), "%s: a client on a non-loopback address changed the registry: %v -> %v", name, pmKeys(before), pmKeys(after))
				model = after
			}
			if loop && !sameMap(after, model) {
				o.Vio("C27.registry-diverged", fmt.Sprintf("vers=%d,proc=%d", op.Vers, op.Proc), "%s: registry %v, map model %v", name, pmKeys(after), pmKeys(model))
				model = after
			}
		}
		ids := make([]int, 0, len(clients))
		for id := range clients {
			ids = append(ids, id)
		}
		sort.Ints(ids) // never let map order leak into the event log
		for _, id := range ids {
			clients[id].Close()
		}
	})
	kept := o.Violations[:0]
	for _, v := range o.Violations {
		if strings.HasPrefix(v.Signature, "C27.") {
			kept = append(kept, v)
		}
	}
	o.Violations = kept
	o.finish(res, "C27")
	return o
}

func pmKeys(m map[pmKey]uint32) []string {
	var out []string
	for k, v := range m {
		out = append(out, fmt.Sprintf("%d/%d/%d=%d", k.prog, k.vers, k.prot, v))
	}
	sort.Strings(out)
	return out
}

func genC27(r *simrt.Rand, tier string) any {
	if r.Pct(20) {
		// concurrent class: one loopback client registers and unregisters a few services while 1-3 other
		// clients dump the registry
		sc := &PmScn{Sched: RandSched(r)}
		sc.Sched.HorizonS = 600
		progs := []uint32{100003, 100005, 100021}
		// registered keys, so that UNSET removes something (from the middle of the list as well): the
		// portmapper's own six entries and whatever was SET before
		var have []pmKey
		for _, v := range []uint32{2, 3, 4} {
			have = append(have, pmKey{100000, v, 6}, pmKey{100000, v, 17})
		}
		for i, n := 0, 4+r.Int(8); i < n; i++ {
			if r.Pct(50) && len(have) > 0 {
				j := r.Int(len(have))
				k := have[j]
				have = append(have[:j], have[j+1:]...)
				sc.Mut = append(sc.Mut, PmOp{Vers: 2, Proc: 2, Prog: k.prog, PVers: k.vers, Prot: k.prot, Port: 1})
				continue
			}
			k := pmKey{progs[r.Int(3)], uint32(1 + r.Int(3)), []uint32{6, 17}[r.Int(2)]}
			have = append(have, k)
			sc.Mut = append(sc.Mut, PmOp{Vers: 2, Proc: 1, Prog: k.prog, PVers: k.vers, Prot: k.prot, Port: uint32(1 + r.Int(65535))})
		}
		if r.Pct(30) {
			// two mutators instead of readers: short streams over few keys, through v2 and v3/v4
			sc.Mut, sc.Readers = nil, nil
			keys := []pmKey{{100003, 3, 6}, {100003, 3, 17}, {100005, 3, 6}, {100000, 2, 6}, {100000, 2, 17}}
			for mi := 0; mi < 2; mi++ {
				var ops []PmOp
				for i, n := 0, 1+r.Int(4); i < n; i++ {
					k := keys[r.Int(len(keys))]
					ops = append(ops, PmOp{Vers: []uint32{2, 3, 4}[r.Int(3)], Proc: uint32(1 + r.Int(2)), Prog: k.prog, PVers: k.vers, Prot: k.prot, Port: uint32(1000 + r.Int(5))})
				}
				if mi == 0 {
					sc.Mut = ops
				} else {
					sc.Mut2 = ops
				}
			}
			return sc
		}
		for rd, nrd := 0, 1+r.Int(3); rd < nrd; rd++ {
			var ops []PmOp
			for i, n := 0, 2+r.Int(6); i < n; i++ {
				ops = append(ops, PmOp{Vers: []uint32{2, 3, 4}[r.Int(3)], Proc: []uint32{4, 4, 4, 3}[r.Int(4)], Prog: progs[r.Int(3)], PVers: uint32(1 + r.Int(3)), Prot: 6})
			}
			sc.Readers = append(sc.Readers, ops)
		}
		return sc
	}
	sc := &PmScn{Sched: SeqSched(r.Uint64())}
	if r.Pct(30) {
		sc.Sched = RandSched(r)
	}
	progs := []uint32{100003, 100005, 100021, 7}
	if r.Pct(15) {
		// empty the registry first (the portmapper's own entries are unset from loopback), then look at it
		for _, v := range []uint32{2, 3, 4} {
			for _, pr := range []uint32{6, 17} {
				sc.Ops = append(sc.Ops, PmOp{From: 0, Vers: 2, Proc: 2, Prog: 100000, PVers: v, Prot: pr, Port: 1})
			}
		}
		for _, v := range []uint32{2, 3, 4} {
			sc.Ops = append(sc.Ops, PmOp{From: r.Int(len(pmAddrs)), Vers: v, Proc: 4, Prog: 100000, PVers: 2, Prot: 6, Netid: "tcp"})
		}
		progs = append(progs, 100000)
	}
	n := 5 + r.Int(25)
	for i := 0; i < n; i++ {
		op := PmOp{From: r.Int(len(pmAddrs)), Vers: []uint32{2, 2, 3, 4}[r.Int(4)], Proc: uint32(r.Pick([]int{5, 30, 20, 25, 20})), Prog: progs[r.Int(len(progs))],
			PVers: uint32(1 + r.Int(4)), Prot: []uint32{6, 17}[r.Int(2)], Port: uint32(1 + r.Int(65535)), Netid: []string{"tcp", "udp", "tcp6", "udp6"}[r.Int(4)]}
		if r.Pct(4) {
			op.Vers = []uint32{1, 5, 0}[r.Int(3)]
		}
		if r.Pct(8) {
			// triples that differ from a plausible registration only in high bits (a key packed into too few
			// bits would take them for that registration)
			switch r.Int(3) {
			case 0:
				op.PVers |= uint32(1+r.Int(255)) << 24
			case 1:
				op.Prot += 256 * uint32(1+r.Int(1000))
			case 2:
				op.Prog, op.PVers = op.Prog-1, op.PVers|1<<24
			}
		}
		if r.Pct(3) {
			op.Proc = 5 + uint32(r.Int(3))
		}
		if r.Pct(3) {
			op.RProg = 100003
		}
		if r.Pct(6) {
			// a client on a slow link: the call arrives in two parts
			op.PauseMs, op.PauseAt = []int{3, 250, 1600, 4000, 8000}[r.Int(5)], r.Int(200) // (the client reconnects after 20 s of silence; 20 + 8 s stays inside the 30 s the portmapper waits)
		}
		sc.Ops = append(sc.Ops, op)
	}
	return sc
}

func shrinkPm(scAny any) []any {
	sc := scAny.(*PmScn)
	var out []any
	for i := range sc.Mut {
		c := *sc
		c.Mut = append(append([]PmOp(nil), sc.Mut[:i]...), sc.Mut[i+1:]...)
		if len(c.Mut) > 0 {
			out = append(out, &c)
		}
	}
	for ri := range sc.Readers {
		if len(sc.Readers) > 1 {
			c := *sc
			c.Readers = append(append([][]PmOp(nil), sc.Readers[:ri]...), sc.Readers[ri+1:]...)
			out = append(out, &c)
		}
		for j := range sc.Readers[ri] {
			c := *sc
			c.Readers = append([][]PmOp(nil), sc.Readers...)
			c.Readers[ri] = append(append([]PmOp(nil), sc.Readers[ri][:j]...), sc.Readers[ri][j+1:]...)
			out = append(out, &c)
		}
	}
	n := len(sc.Ops)
	for chunk := n / 2; chunk >= 1; chunk /= 2 {
		for start := 0; start+chunk <= n; start += chunk {
			c := *sc
			c.Ops = append(append([]PmOp(nil), sc.Ops[:start]...), sc.Ops[start+chunk:]...)
			out = append(out, &c)
		}
		if chunk == 1 {
			break
		}
	}
	return out
}

// ---------------------------------------------------------------------------
// C10: identity squashing (reference function vs ValidateAuthentication)
// ---------------------------------------------------------------------------

type AuthCase struct {
	Flavor  uint32   `json:"flavor"`
	UID     uint32   `json:"uid"`
	GID     uint32   `json:"gid"`
	Gids    []uint32 `json:"gids,omitempty"`
	Squash  string   `json:"squash"`
	BadBody int      `json:"bad_body,omitempty"` // 1 truncated, 2 empty, 3 17 gids, 4 garbage
	Shared  bool     `json:"shared"`             // pass a pre-parsed shared AuthSysCredential
}

type AuthScn struct {
	Cases []AuthCase `json:"cases"`
	Sched SchedCfg   `json:"sched"`
}

func runAuth(t *testing.T, scAny any, trace bool) *Outcome {
	sc := scAny.(*AuthScn)
	o := &Outcome{NonTrivial: len(sc.Cases) > 0}
	res := Bubble(t, sc.Sched.config(trace), nil, func() {
		simrt.Event("scenario %x", simrt.Hash(hashBytes(mustJSON(sc))))
		for i, c := range sc.Cases {
			pol := &absnfs.PolicyOptions{Squash: c.Squash}
			body := nfsclient.AuthSys(1, "h", c.UID, c.GID, c.Gids).Body
			switch c.BadBody {
			case 1:
				if len(body) > 6 {
					body = body[:len(body)-3]
				}
			case 2:
				body = nil
			case 3:
				g := make([]uint32, 17)
				body = nfsclient.AuthSys(1, "h", c.UID, c.GID, g).Body
			case 4:
				body = []byte{0xff, 0xff, 0xff, 0xff, 0xff, 0xff, 0xff, 0xff, 1, 2}
			}
			ctx := &absnfs.AuthContext{ClientIP: "10.0.0.1", ClientPort: 800, Credential: &absnfs.RPCCredential{Flavor: c.Flavor, Body: body}}
			var shared *absnfs.AuthSysCredential
			var orig []uint32
			if c.Shared && c.Flavor == 1 && c.BadBody == 0 {
				orig = append([]uint32(nil), c.Gids...)
				shared = &absnfs.AuthSysCredential{UID: c.UID, GID: c.GID, AuxGIDs: c.Gids}
				ctx.AuthSys = shared
			}
			callerSlice := c.Gids
			r := absnfs.ValidateAuthentication(ctx, pol)
			o.Checks++
			wu, wg, waux, allowed := squash(c.Squash, c.Flavor, c.UID, c.GID, c.Gids)
			if c.Flavor == 1 && c.BadBody != 0 {
				allowed = false
			}
			facts := fmt.Sprintf("flavor=%d,squash=%s", c.Flavor, strings.ToLower(c.Squash))
			if r.Allowed != allowed {
				o.Vio("C10.allow-mismatch", facts, "case %d %+v: allowed=%v, want %v (%s)", i, c, r.Allowed, allowed, r.Reason)
				continue
			}
			if !allowed {
				continue
			}
			if r.UID != wu || r.GID != wg {
				o.Vio("C10.identity-mismatch", facts, "case %d %+v: effective %d:%d, squash rule gives %d:%d", i, c, r.UID, r.GID, wu, wg)
			}
			if c.Flavor == 1 && ctx.AuthSys != nil {
				if fmt.Sprint(ctx.AuthSys.AuxGIDs) != fmt.Sprint(waux) && !(len(ctx.AuthSys.AuxGIDs) == 0 && len(waux) == 0) {
					o.Vio("C10.aux-gids-mismatch", facts, "case %d %+v: effective aux gids %v, squash rule gives %v", i, c, ctx.AuthSys.AuxGIDs, waux)
				}
			}
			if shared != nil && fmt.Sprint(callerSlice) != fmt.Sprint(orig) {
				o.Vio("C10.caller-aux-gids-mutated", facts, "case %d: the caller's auxiliary gid slice changed from %v to %v", i, orig, callerSlice)
			}
		}
	})
	o.finish(res, "C10")
	return o
}

func genC10(r *simrt.Rand, tier string) any {
	sc := &AuthScn{Sched: SeqSched(r.Uint64())}
	ids := []uint32{0, 1, 65533, 65534, 65535, 1 << 31, 1<<32 - 1}
	n := 20 + r.Int(40)
	for i := 0; i < n; i++ {
		c := AuthCase{Flavor: []uint32{1, 1, 1, 1, 0, 2, 3, 6, 390004}[r.Int(9)], UID: ids[r.Int(len(ids))], GID: ids[r.Int(len(ids))],
			Squash: []string{"", "none", "root", "all", "Root", "ALL", "nOnE", "bogus", "squash", "rOOt"}[r.Int(10)], Shared: r.Pct(50)}
		if r.Pct(30) {
			c.UID, c.GID = uint32(r.Uint64()), uint32(r.Uint64())
		}
		ng := r.Int(17)
		for j := 0; j < ng; j++ {
			g := ids[r.Int(len(ids))]
			if r.Pct(30) {
				g = uint32(r.Uint64())
			}
			c.Gids = append(c.Gids, g)
		}
		if r.Pct(8) {
			c.BadBody = 1 + r.Int(4)
		}
		sc.Cases = append(sc.Cases, c)
	}
	return sc
}

// ---------------------------------------------------------------------------
// C13: codecs and record marking
// ---------------------------------------------------------------------------

type CodecScn struct {
	Seed  uint64   `json:"seed"`
	N     int      `json:"n"`
	Sched SchedCfg `json:"sched"`
	Conc  bool     `json:"conc,omitempty"` // concurrent writers sharing one RecordMarkingWriter (the type documents a mutex)
}

// yieldingWriter hands the scheduler a decision point at every Write, as a socket would.
type yieldingWriter struct{ buf bytes.Buffer }

func (w *yieldingWriter) Write(p []byte) (int, error) {
	simrt.Yield(simrt.ClassNet, "codec.write")
	return w.buf.Write(p)
}

// codecConcurrentWriters: 2-3 tasks write records of their own through ONE RecordMarkingWriter (records that
// need several fragments next to records that fit in one); what the independent reader then finds on the
// stream must be exactly those records, each whole, in some order.
func codecConcurrentWriters(o *Outcome, r *simrt.Rand) {
	frag := []int{4, 16, 64, 512}[r.Int(4)]
	yw := &yieldingWriter{}
	w := absnfs.NewRecordMarkingWriterWithSize(yw, frag)
	nt := 2 + r.Int(2)
	recs := make([][][]byte, nt)
	for t := range recs {
		for i, n := 0, 1+r.Int(2); i < n; i++ {
			l := []int{1, 3, frag - 1, frag, frag + 1, 3*frag + 2, 200}[r.Int(7)]
			if l < 1 {
				l = 1
			}
			d := randBytes(r, l)
			d[0] = byte(t*16 + i) // every record distinguishable
			recs[t] = append(recs[t], d)
		}
	}
	done := make(chan int, nt)
	for t := 0; t < nt; t++ {
		t := t
		simrt.Go(fmt.Sprintf("codec-writer-%d", t), func() {
			defer simrt.Send("codec.done", done, t)
			for _, d := range recs[t] {
				w.WriteRecord(d)
			}
		})
	}
	for i := 0; i < nt; i++ {
		simrt.Recv("codec.wait", done)
	}
	o.Checks++
	want := map[string]int{}
	total := 0
	for _, rs := range recs {
		for _, d := range rs {
			want[string(d)]++
			total++
		}
	}
	rd := bytes.NewReader(yw.buf.Bytes())
	for i := 0; i < total; i++ {
		rec, err := nfsclient.ReadRecord(rd, 2<<20)
		if err != nil || want[string(rec)] == 0 {
			o.Vio("C13.concurrent-records-mangled", "", "%d tasks wrote %d records through one RecordMarkingWriter (maxFragment %d): record %d read back from the stream is %d bytes (err %v) and is not one of the records written whole", nt, total, frag, i, len(rec), err)
			return
		}
		want[string(rec)]--
	}
	if rd.Len() != 0 {
		o.Vio("C13.concurrent-records-mangled", "trailing", "%d bytes follow the %d records written", rd.Len(), total)
	}
}

func allocDuring(f func()) uint64 {
	var a, b runtime.MemStats
	runtime.ReadMemStats(&a)
	f()
	runtime.ReadMemStats(&b)
	return b.TotalAlloc - a.TotalAlloc
}

func totalAlloc() uint64 {
	var m runtime.MemStats
	runtime.ReadMemStats(&m)
	return m.TotalAlloc
}

var boundaryLens = []int{0, 1, 2, 3, 4, 5, 6, 7, 8, 9, 399, 400, 401}

func runCodec(t *testing.T, scAny any, trace bool) *Outcome {
	sc := scAny.(*CodecScn)
	o := &Outcome{NonTrivial: sc.N > 0}
	res := Bubble(t, sc.Sched.config(trace), nil, func() {
		simrt.Event("scenario %x", simrt.Hash(hashBytes(mustJSON(sc))))
		r := simrt.NewRand(sc.Seed)
		if sc.Conc {
			simrt.Probe("run_class.concurrent_writers")
			for i := 0; i < sc.N; i++ {
				codecConcurrentWriters(o, r)
			}
			return
		}
		for i := 0; i < sc.N; i++ {
			switch r.Int(7) {
			case 5:
				codecXdrPrimitives(o, r)
			case 6:
				codecRecordOverLimit(o, r)
			case 0:
				codecCall(o, r)
			case 1:
				codecAuthSys(o, r)
			case 2:
				codecReply(o, r)
			case 3:
				codecRecordWriterReader(o, r)
			case 4:
				codecRecordStream(o, r)
			}
		}
	})
	o.finish(res, "C13")
	return o
}

func randBytes(r *simrt.Rand, n int) []byte {
	b := make([]byte, n)
	for i := range b {
		b[i] = byte(r.Uint64())
	}
	return b
}

// DecodeRPCCall: decodes exactly what was encoded, consumes exactly the padded length, refuses over-limit auth bodies.
func codecCall(o *Outcome, r *simrt.Rand) {
	cl := boundaryLens[r.Int(len(boundaryLens))]
	vl := boundaryLens[r.Int(len(boundaryLens))]
	call := nfsclient.Call{XID: uint32(r.Uint64()), Prog: uint32(r.Uint64()), Vers: uint32(r.Uint64()), Proc: uint32(r.Uint64()),
		Cred: nfsclient.Auth{Flavor: uint32(r.Int(4)), Body: randBytes(r, cl)}, Verf: nfsclient.Auth{Flavor: uint32(r.Int(3)), Body: randBytes(r, vl)}}
	tail := []byte("SENTINEL-TAIL")
	wire := append(call.Encode(), tail...)
	rd := bytes.NewReader(wire)
	got, err := absnfs.DecodeRPCCall(rd)
	o.Checks++
	over := cl > 400 || vl > 400
	facts := fmt.Sprintf("cred=%d,verf=%d", cl, vl)
	if over {
		if err == nil {
			o.Vio("C13.oversize-auth-accepted", facts, "DecodeRPCCall accepted credential/verifier body of %d/%d bytes (limit 400)", cl, vl)
		}
		return
	}
	if err != nil {
		o.Vio("C13.call-decode-failed", facts, "DecodeRPCCall failed on a well-formed call: %v", err)
		return
	}
	if got.Header.Xid != call.XID || got.Header.Program != call.Prog || got.Header.Version != call.Vers || got.Header.Procedure != call.Proc ||
		got.Credential.Flavor != call.Cred.Flavor || !bytes.Equal(got.Credential.Body, call.Cred.Body) ||
		got.Verifier.Flavor != call.Verf.Flavor || !bytes.Equal(got.Verifier.Body, call.Verf.Body) {
		o.Vio("C13.call-roundtrip", facts, "DecodeRPCCall returned %+v for %+v", got, call)
	}
	if rd.Len() != len(tail) {
		o.Vio("C13.call-consumption", facts, "DecodeRPCCall left %d bytes unread, want exactly the %d-byte tail", rd.Len(), len(tail))
	}
}

func codecAuthSys(o *Outcome, r *simrt.Rand) {
	ng := []int{0, 1, 2, 15, 16, 17, 18, 100}[r.Int(8)]
	nm := []int{0, 1, 2, 3, 4, 5, 255, 8191, 8192, 8193}[r.Int(10)]
	gids := make([]uint32, ng)
	for i := range gids {
		gids[i] = uint32(r.Uint64())
	}
	name := strings.Repeat("m", nm)
	uid, gid, stamp := uint32(r.Uint64()), uint32(r.Uint64()), uint32(r.Uint64())
	body := nfsclient.AuthSys(stamp, name, uid, gid, gids).Body
	got, err := absnfs.ParseAuthSysCredential(body)
	o.Checks++
	facts := fmt.Sprintf("gids=%d,name=%d", ng, nm)
	if ng > 16 || nm > 8192 {
		if err == nil {
			o.Vio("C13.oversize-authsys-accepted", facts, "ParseAuthSysCredential accepted %d gids / %d-byte machine name", ng, nm)
		}
		return
	}
	if err != nil {
		o.Vio("C13.authsys-decode-failed", facts, "ParseAuthSysCredential failed on a well-formed body: %v", err)
		return
	}
	if got.Stamp != stamp || got.MachineName != name || got.UID != uid || got.GID != gid || fmt.Sprint(got.AuxGIDs) != fmt.Sprint(gids) {
		o.Vio("C13.authsys-roundtrip", facts, "ParseAuthSysCredential returned uid=%d gid=%d gids=%v name-len=%d for uid=%d gid=%d gids=%v name-len=%d", got.UID, got.GID, got.AuxGIDs, len(got.MachineName), uid, gid, gids, nm)
	}
	// truncated bodies must be refused, never mis-parsed
	if len(body) > 4 {
		cut := r.Int(len(body))
		if _, err := absnfs.ParseAuthSysCredential(body[:cut]); err == nil {
			o.Vio("C13.truncated-authsys-accepted", "", "ParseAuthSysCredential accepted a body truncated from %d to %d bytes", len(body), cut)
		}
	}
}

func codecReply(o *Outcome, r *simrt.Rand) {
	rep := &absnfs.RPCReply{}
	rep.Header.Xid = uint32(r.Uint64())
	rep.Status = uint32(r.Int(2))
	rep.AcceptStatus = uint32(r.Int(6))
	vb := []int{0, 1, 3, 4, 8}[r.Int(5)]
	rep.Verifier = absnfs.RPCVerifier{Flavor: uint32(r.Int(2)), Body: randBytes(r, vb)}
	data := randBytes(r, 4*r.Int(5))
	rep.Data = data
	var buf bytes.Buffer
	err := absnfs.EncodeRPCReply(&buf, rep)
	o.Checks++
	facts := fmt.Sprintf("stat=%d,accept=%d", rep.Status, rep.AcceptStatus)
	if err != nil {
		o.Vio("C13.reply-encode-failed", facts, "EncodeRPCReply: %v", err)
		return
	}
	d, derr := nfsclient.DecodeReply(buf.Bytes())
	if derr != nil {
		o.Vio("C13.reply-not-rfc1831", facts, "EncodeRPCReply output does not decode as an RFC 1831 reply: %v (%x)", derr, trunc(buf.Bytes(), 64))
		return
	}
	if d.XID != rep.Header.Xid || d.Stat != rep.Status {
		o.Vio("C13.reply-roundtrip", facts, "reply decodes to xid=%d stat=%d, encoded xid=%d stat=%d", d.XID, d.Stat, rep.Header.Xid, rep.Status)
	}
	if rep.Status == 0 {
		if d.AcceptStat != rep.AcceptStatus || !bytes.Equal(d.Verf.Body, rep.Verifier.Body) {
			o.Vio("C13.reply-roundtrip", facts, "accepted reply decodes to accept=%d verf=%x", d.AcceptStat, d.Verf.Body)
		}
		if rep.AcceptStatus == 0 && !bytes.Equal(d.Results, data) {
			o.Vio("C13.reply-roundtrip", facts+",data", "results %x, encoded %x", d.Results, data)
		}
	}
}

// Writer then Reader is the identity for every maxFragment; allocation is bounded for oversize headers.
func codecRecordWriterReader(o *Outcome, r *simrt.Rand) {
	n := []int{0, 1, 2, 3, 4, 5, 9, 100, 4096, 70000}[r.Int(10)]
	if r.Pct(3) {
		n = []int{1<<20 - 1, 1 << 20}[r.Int(2)]
	}
	data := randBytes(r, n)
	frag := []int{1, 2, 3, 7, 512, 1 << 20, 0}[r.Int(7)]
	if n > 100000 && frag < 512 {
		frag = 65536
	}
	var buf bytes.Buffer
	w := absnfs.NewRecordMarkingWriterWithSize(&buf, frag)
	if err := w.WriteRecord(data); err != nil {
		o.Vio("C13.record-write-failed", "", "WriteRecord(%d bytes, maxFragment %d): %v", n, frag, err)
		return
	}
	second := randBytes(r, 5)
	w.WriteRecord(second)
	o.Checks++
	// independent reader
	rec, err := nfsclient.ReadRecord(bytes.NewReader(buf.Bytes()), 2<<20)
	if err != nil || !bytes.Equal(rec, data) {
		o.Vio("C13.record-writer-framing", fmt.Sprintf("frag=%d", frag), "independent reader got %d bytes (err %v) for a %d-byte record written with maxFragment %d", len(rec), err, n, frag)
		return
	}
	// the package's own reader
	rd := absnfs.NewRecordMarkingReader(bytes.NewReader(buf.Bytes()))
	got, err := rd.ReadRecord()
	if err != nil || !bytes.Equal(got, data) {
		o.Vio("C13.record-identity", fmt.Sprintf("frag=%d", frag), "write-then-read returned %d bytes (err %v) for %d", len(got), err, n)
		return
	}
	got2, err := rd.ReadRecord()
	if err != nil || !bytes.Equal(got2, second) {
		o.Vio("C13.record-identity", "second", "second record: %x err %v, want %x", got2, err, second)
	}
}

// Reader reassembles any fragmentation delivered in any segmentation; oversize records are refused before allocation; cuts give errors.
func codecRecordStream(o *Outcome, r *simrt.Rand) {
	n := []int{0, 1, 4, 5, 37, 1000, 9000}[r.Int(7)]
	data := randBytes(r, n)
	var frags []int
	left := n
	for left > 0 && len(frags) < 40 {
		f := []int{0, 1, 1, 2, 3, 7, 100}[r.Int(7)]
		if f > left {
			f = left
		}
		frags = append(frags, f)
		left -= f
	}
	if r.Pct(30) {
		frags = append(frags, 0)
	}
	wire := nfsclient.Frame(data, frags)
	mode := r.Int(10)
	switch {
	case mode < 6:
		// delivered through a reader that returns arbitrary segments
		rd := absnfs.NewRecordMarkingReader(&chunkReader{b: wire, r: r})
		got, err := rd.ReadRecord()
		o.Checks++
		if err != nil || !bytes.Equal(got, data) {
			o.Vio("C13.record-reassembly", fmt.Sprintf("nfrag=%d", len(frags)), "record of %d bytes in fragments %v reassembled to %d bytes (err %v)", n, frags, len(got), err)
		}
	case mode < 8:
		// cut at an arbitrary point: an error, never a (partial) record
		if len(wire) > 1 {
			cut := r.Int(len(wire))
			rd := absnfs.NewRecordMarkingReader(&chunkReader{b: wire[:cut], r: r})
			got, err := rd.ReadRecord()
			o.Checks++
			if err == nil {
				o.Vio("C13.truncated-record-accepted", "", "stream cut at %d of %d bytes returned a record of %d bytes without error", cut, len(wire), len(got))
			}
		}
	default:
		// oversize declared lengths: refused, and refused before allocating that much
		decl := []uint32{1<<20 + 1, 1 << 21, 1<<31 - 1, 1 << 30}[r.Int(4)]
		hdr := []byte{byte(decl>>24) | 0x80, byte(decl >> 16), byte(decl >> 8), byte(decl)}
		src := io.MultiReader(bytes.NewReader(hdr), zeroReader{})
		rd := absnfs.NewRecordMarkingReader(src)
		var err error
		alloc := allocDuring(func() { _, err = rd.ReadRecord() })
		o.Checks++
		if err == nil {
			o.Vio("C13.oversize-record-accepted", "", "record with declared length %d accepted (limit 1 MiB)", decl)
		} else if alloc > 1<<19 {
			o.Vio("C13.oversize-record-allocated", "", "declared length %d was refused only after allocating %d bytes", decl, alloc)
		}
		// limit-1, limit are accepted when split over fragments
	}
}

// XDR strings and file handles: decode to what was encoded, consume exactly the padded length,
// lengths beyond the limits are refused before an allocation of that size.
func codecXdrPrimitives(o *Outcome, r *simrt.Rand) {
	tail := []byte("SENTINEL-TAIL")
	if r.Pct(50) {
		// file handle opaque<64>: every length 0..66 and a few absurd ones
		l := r.Int(67)
		if r.Pct(10) {
			l = []int{65, 100, 1 << 20, 1<<31 - 1}[r.Int(4)]
		}
		body := randBytes(r, 0)
		if l <= 64 {
			body = randBytes(r, l)
		}
		e := (&nfsclient.Enc{})
		e.U32(uint32(l))
		e.Raw(body)
		for pad := (4 - l%4) % 4; l <= 64 && pad > 0; pad-- {
			e.Raw([]byte{0})
		}
		wire := append(e.B, tail...)
		rd := bytes.NewReader(wire)
		var h uint64
		var err error
		alloc := allocDuring(func() { h, err = absnfs.VerifXdrDecodeFileHandle(rd) })
		o.Checks++
		facts := fmt.Sprintf("len=%d", l)
		if l > 64 {
			facts = "len>64"
		}
		switch {
		case l > 64:
			if err == nil {
				o.Vio("C13.oversize-handle-accepted", "", "file handle of declared length %d accepted (limit 64)", l)
			} else if alloc > 1<<16 {
				o.Vio("C13.oversize-handle-allocated", "", "file handle of declared length %d refused only after allocating %d bytes", l, alloc)
			}
		case l == 8:
			want := uint64(0)
			for _, b := range body {
				want = want<<8 | uint64(b)
			}
			if err != nil || h != want {
				o.Vio("C13.handle-roundtrip", facts, "8-byte handle %x decoded to %d, err %v", body, h, err)
			}
			if rd.Len() != len(tail) {
				o.Vio("C13.handle-consumption", facts, "decoder left %d bytes, want the %d-byte tail", rd.Len(), len(tail))
			}
		default:
			// not a handle this server issued: refused, but the stream stays in step (exactly the padded length is consumed)
			if err == nil {
				o.Vio("C13.foreign-handle-accepted", facts, "handle of %d bytes decoded without error", l)
			}
			if rd.Len() != len(tail) {
				o.Vio("C13.handle-consumption", facts, "decoder of a %d-byte handle left %d bytes unread, want exactly the %d-byte tail (padded length consumed)", l, rd.Len(), len(tail))
			}
		}
		// encode then decode is the identity
		var buf bytes.Buffer
		v := r.Uint64()
		if absnfs.VerifXdrEncodeFileHandle(&buf, v) == nil {
			if got, err := absnfs.VerifXdrDecodeFileHandle(bytes.NewReader(buf.Bytes())); err != nil || got != v || buf.Len() != 12 {
				o.Vio("C13.handle-roundtrip", "encode", "handle %d encodes to %d bytes and decodes to %d (err %v)", v, buf.Len(), got, err)
			}
		}
		return
	}
	// string<8192>
	l := []int{0, 1, 2, 3, 4, 5, 6, 7, 8, 9, 255, 8191, 8192, 8193, 1 << 20, 1<<32 - 1}[r.Int(16)]
	var wire []byte
	var want string
	if l <= 8192 {
		b := randBytes(r, l)
		for i := range b {
			if b[i] == 0 {
				b[i] = 1 // the decoder refuses NUL bytes on purpose (names); not part of this exercise
			}
		}
		want = string(b)
		e := (&nfsclient.Enc{})
		e.U32(uint32(l))
		e.Raw(b)
		for pad := (4 - l%4) % 4; pad > 0; pad-- {
			e.Raw([]byte{0})
		}
		wire = append(e.B, tail...)
	} else {
		e := (&nfsclient.Enc{})
		e.U32(uint32(l))
		wire = append(e.B, make([]byte, 64)...)
	}
	rd := bytes.NewReader(wire)
	var got string
	var err error
	alloc := allocDuring(func() { got, err = absnfs.VerifXdrDecodeString(rd) })
	o.Checks++
	facts := fmt.Sprintf("len=%d", l)
	if l > 8192 {
		if err == nil {
			o.Vio("C13.oversize-string-accepted", facts, "string of declared length %d accepted (limit 8192)", l)
		} else if alloc > 1<<16 {
			o.Vio("C13.oversize-string-allocated", facts, "string of declared length %d refused only after allocating %d bytes", l, alloc)
		}
		return
	}
	if err != nil || got != want {
		o.Vio("C13.string-roundtrip", facts, "string of %d bytes decoded to %d bytes, err %v", l, len(got), err)
		return
	}
	if rd.Len() != len(tail) {
		o.Vio("C13.string-consumption", facts, "decoder left %d bytes unread, want exactly the %d-byte tail", rd.Len(), len(tail))
	}
	var buf bytes.Buffer
	if absnfs.VerifXdrEncodeString(&buf, want) == nil {
		if !bytes.Equal(buf.Bytes(), wire[:len(wire)-len(tail)]) {
			o.Vio("C13.string-encoding", facts, "string of %d bytes encodes to %d bytes, the independent codec gives %d", l, buf.Len(), len(wire)-len(tail))
		}
	}
}

// A record whose fragments are each within the limit but whose total exceeds it is refused,
// and refused before the excess is buffered.
func codecRecordOverLimit(o *Outcome, r *simrt.Rand) {
	fragLen := []int{1 << 19, 1 << 18, 1<<20 - 4, 700000}[r.Int(4)]
	nfr := 3 + r.Int(4)
	total := 0
	var hdrs [][]byte
	for i := 0; i < nfr; i++ {
		total += fragLen
		h := uint32(fragLen)
		if i == nfr-1 {
			h |= 0x80000000
		}
		hdrs = append(hdrs, []byte{byte(h >> 24), byte(h >> 16), byte(h >> 8), byte(h)})
	}
	if total <= 1<<20 {
		return
	}
	// stream: header, fragLen zero bytes, header, ...
	var rs []io.Reader
	for _, h := range hdrs {
		rs = append(rs, bytes.NewReader(h), io.LimitReader(zeroReader{}, int64(fragLen)))
	}
	rd := absnfs.NewRecordMarkingReader(io.MultiReader(rs...))
	var err error
	var got []byte
	alloc := allocDuring(func() { got, err = rd.ReadRecord() })
	o.Checks++
	facts := fmt.Sprintf("fragments-within-limit")
	if err == nil {
		o.Vio("C13.oversize-record-accepted", facts, "record of %d fragments of %d bytes (%d in total, limit 1 MiB) was reassembled to %d bytes", nfr, fragLen, total, len(got))
	} else if alloc > 3<<20 {
		o.Vio("C13.oversize-record-allocated", facts, "record of %d bytes in fragments of %d was refused only after allocating %d bytes", total, fragLen, alloc)
	}
}

type chunkReader struct {
	b []byte
	r *simrt.Rand
}

func (c *chunkReader) Read(p []byte) (int, error) {
	if len(c.b) == 0 {
		return 0, io.EOF
	}
	n := 1 + c.r.Int(7)
	if c.r.Pct(20) {
		n = len(p)
	}
	if n > len(p) {
		n = len(p)
	}
	if n > len(c.b) {
		n = len(c.b)
	}
	copy(p, c.b[:n])
	c.b = c.b[n:]
	return n, nil
}

type zeroReader struct{}

func (zeroReader) Read(p []byte) (int, error) {
	for i := range p {
		p[i] = 0
	}
	return len(p), nil
}

func init() {
	Register(&Prop{ID: "C27", Level: "exploration",
		Rule: "one case = 5-30 portmap v2 / rpcbind v3,v4 calls (NULL, SET, UNSET, GETPORT/GETADDR, DUMP, unknown versions, unknown procedures, foreign program numbers, versions and protocol numbers that differ from registered ones only in their high bits) from 8 client addresses (IPv4/IPv6 loopback, IPv4-mapped, private and global addresses) over the simulated network against a Portmapper started through its listen seam, transport segmentation on alternate connections, sequential or (30%) under the random scheduler, or (20% of cases) concurrently: one loopback client issues 4-11 SET/UNSET calls while 1-3 other clients issue DUMP (v2, v3, v4) and GETPORT/GETADDR calls under the seeded scheduler - every DUMP reply must then be a set of mappings the registry held at some instant between the call and its reply (in 30% of the concurrent cases two loopback clients SET/UNSET at the same time instead, and the registry afterwards must be what some interleaving of the two streams leaves behind); oracle: every reply strictly decodes (RFC 1831 + RFC 1833 result types), GETPORT/GETADDR/DUMP equal a map model of (prog,vers,prot)->port, SET/UNSET from loopback update it, and the registry (read through GetMappings before and after every call) never changes for a non-loopback client in any protocol version; 6% of the sequential calls arrive in two parts 3 ms-8 s apart (cut at a drawn byte), always inside the 30 s the portmapper waits for a record; non-trivial = at least one call; distinct by event digest",
		Gen:  genC27, New: func() any { return &PmScn{} }, Run: runPortmap, Shrink: shrinkPm,
		Real:    []string{"Portmapper (StartOnPort, accept loop, connection handler, handleCall, all v2/v3/v4 procedures, Stop)", "record marking"},
		Stubbed: []string{"kernel TCP (simnet)", "clock", "scheduler", "sync primitives"}})
	Register(&Prop{ID: "C10", Level: "exploration",
		Rule: "one case = 20-60 credentials (AUTH_SYS with boundary and random uid/gid, 0-16 auxiliary gids, truncated/empty/17-gid/garbage bodies; AUTH_NONE; unsupported flavors) x squash spellings (root/all/none in mixed case, empty, unknown words), half of them passed as a pre-parsed credential whose auxiliary-gid slice is shared with the caller; oracle: ValidateAuthentication equals the reference squash function (allowed, effective uid, gid, auxiliary gids) and never changes the caller's slice. The property is a pure mapping: the simulator contributes nothing beyond seeded sampling here (end-to-end effects of the effective identity are judged by C11/C12 monitors); non-trivial = at least one credential; distinct by event digest",
		Gen:  genC10, New: func() any { return &AuthScn{} }, Run: runAuth,
		Real: []string{"ValidateAuthentication", "applySquashing", "ParseAuthSysCredential"}, Stubbed: []string{"nothing relevant (pure function)"}})
	Register(&Prop{ID: "C13", Level: "exploration",
		Rule: "one case = 40-200 codec exercises drawn from: DecodeRPCCall on calls encoded by the independent codec with credential/verifier body lengths 0..9, 399, 400, 401 and a sentinel tail (exact decode, exact consumption, over-limit refused); ParseAuthSysCredential with 0..18 and 100 gids and machine names of 0..5, 255, 8191..8193 bytes and random truncations; EncodeRPCReply decoded by the independent strict RFC 1831 decoder for every reply_stat/accept_stat; RecordMarkingWriter (maxFragment 1..1 MiB) read back by the independent reader and by RecordMarkingReader (identity, incl. records of limit-1 and limit bytes); RecordMarkingReader fed records split into up to 40 fragments (zero-length and 1-byte fragments included) through a reader returning arbitrary 1..7-byte segments, streams cut at every kind of offset (error, never a partial record), and headers declaring 1 MiB+1 .. 2^31-1 bytes (refused, with TotalAlloc growth < 512 KiB); non-trivial = at least one exercise; distinct by event digest. Also: the XDR string<8192> and file-handle opaque<64> decoders (reached through wrappers in the overlay accessor file) with every length 0..66, 8191..8193 and absurd declared lengths (exact value, exact padded consumption also for refused foreign-size handles, refusal before allocation); records whose 3-6 fragments are each within the limit but whose total exceeds 1 MiB (refused, TotalAlloc growth < 3 MiB). 12% of the cases are concurrent: 2-3 tasks write 1-2 records each (single- and multi-fragment) through ONE RecordMarkingWriter over a writer that yields to the seeded scheduler at every Write; the stream must then hold exactly those records, each whole, in some order.",
		Gen: func(r *simrt.Rand, tier string) any {
			if r.Pct(12) {
				sc := &CodecScn{Seed: r.Uint64(), N: 1 + r.Int(4), Sched: RandSched(r), Conc: true}
				sc.Sched.HorizonS = 600
				return sc
			}
			return &CodecScn{Seed: r.Uint64(), N: 40 + r.Int(160), Sched: SeqSched(r.Uint64())}
		}, New: func() any { return &CodecScn{} }, Run: runCodec,
		Real: []string{"DecodeRPCCall", "EncodeRPCReply", "ParseAuthSysCredential", "RecordMarkingReader", "RecordMarkingWriter"}, Stubbed: []string{"byte streams are in-memory readers with seeded segmentation (simnet is used for the same code in C15)"}})
	_ = time.Second
}
