package h

import (
	"fmt"
	"strings"
	"testing"
	"time"

	"github.com/absfs/absnfs"

	"verif/sim/nfsclient"
	"verif/sim/simfs"
	"verif/sim/simrt"
)

// C17: connections are bounded, accounted, reaped when idle, and fully shut down.

type C17Step struct {
	Op string `json:"op"` // null getattr lookup idle close
	Ms int    `json:"ms,omitempty"`
}

type C17Client struct {
	StartMs int       `json:"start_ms"`
	Addr    string    `json:"addr"`
	Steps   []C17Step `json:"steps"`
}

type C17Admin struct {
	AtMs int    `json:"at_ms"`
	Op   string `json:"op"` // stop close unexport
}

type C17Scn struct {
	MaxConns int           `json:"max_conns"`
	IdleNs   int64         `json:"idle_ns"` // 0 = default
	Export   bool          `json:"export"`  // server created by AbsfsNFS.Export (Close/Unexport stop it)
	Workers  int           `json:"workers"`
	Allowed  []string      `json:"allowed,omitempty"` // AllowedIPs: clients from 10.0.0.3 are then refused at accept time
	Clients  []C17Client   `json:"clients"`
	Admins   [][]C17Admin  `json:"admins"`
	Stalls   []simfs.Fault `json:"stalls,omitempty"`
	Sched    SchedCfg      `json:"sched"`
	// network faults: transient accept errors injected into the listener ([at_ms, n] pairs); clients may
	// also reset their connection abruptly right after sending a call (step "reset")
	AcceptErrs [][2]int `json:"accept_errs,omitempty"`
}

type c17Conn struct {
	cl       *Client
	answered bool
	closed   bool // closed by the client
	lastAct  time.Duration
	// prevGap is the silence that preceded the last answered call: a reaper pass that found the connection
	// idle just before that call may still be on its way to closing it
	prevGap time.Duration
	// streakFrom: when the current run of closely spaced calls began (the send time of the first call after a
	// silence of IdleTimeout/2 or more, or after connecting)
	streakFrom time.Duration
	// ansRedials is the client's reconnect count when it was last answered: after a reconnect (the client
	// library redials a connection it has left silent for 20 s) the NEW connection has not been answered yet
	ansRedials int
}

type c17State struct {
	conns []*c17Conn
}

//go:norace
func (s *c17State) add(c *c17Conn) {
	simrt.RaceOff()
	s.conns = append(s.conns, c)
	simrt.RaceOn()
}

// servedOpen counts connections that were answered at least once and are closed on neither side.
//
//go:norace
func (s *c17State) servedOpen() int {
	simrt.RaceOff()
	n := 0
	for _, c := range s.conns {
		if c.answered && !c.closed && c.cl.Redials == c.ansRedials && !c.cl.Conn.PeerClosed() {
			n++
		}
	}
	simrt.RaceOn()
	return n
}

// stopHelperSite is the creation site of the goroutine Stop uses to wait for the
// others (found by calibration on a server that never listened): it is neither an
// accept nor a connection goroutine, and one left behind by a Stop that timed out, or
// belonging to a concurrent Stop, ends by itself.
var stopHelperSite simrt.Str

func calibrateStopHelper() {
	before := len(simrt.TaskIDs())
	s, err := absnfs.NewServer(absnfs.ServerOptions{Port: 0})
	if err != nil {
		return
	}
	s.Stop()
	ids := simrt.TaskIDs()
	if len(ids) > before {
		id := ids[before]
		for i := len(id) - 1; i >= 0; i-- {
			if id[i] == '/' {
				id = id[i+1:]
				break
			}
		}
		for i := 0; i < len(id); i++ {
			if id[i] == '#' {
				id = id[:i]
				break
			}
		}
		stopHelperSite.Store(id)
	}
}

func serverTasks(live []string) []string {
	var out []string
	helper := stopHelperSite.Load()
	for _, l := range live {
		if helper != "" {
			id := l
			for i := 0; i+3 <= len(l); i++ {
				if l[i:i+3] == " @ " {
					id = l[:i]
					break
				}
			}
			last := id
			for i := len(id) - 1; i >= 0; i-- {
				if id[i] == '/' {
					last = id[i+1:]
					break
				}
			}
			if len(last) > len(helper) && last[:len(helper)] == helper && last[len(helper)] == '#' {
				continue
			}
		}
		id := l
		for i := 0; i+3 <= len(l); i++ {
			if l[i:i+3] == " @ " {
				id = l[:i]
				break
			}
		}
		if contains(id, "server.go") {
			out = append(out, l)
		}
	}
	return out
}

func runC17(t *testing.T, scAny any, trace bool) *Outcome {
	sc := scAny.(*C17Scn)
	o := &Outcome{HorizonOK: true}
	var stopReturned, closeReturned, adminStarted simrt.Counter // simulated ns (0 = not yet)
	var closeRetStamp simrt.Counter                             // scheduler stamp of the first Close/Unexport that returned nil (0 = none)
	var stopTimedOut simrt.Counter
	var maxStall time.Duration
	for _, f := range sc.Stalls {
		maxStall += f.Stall // the longest a single request can be held up: it may run into every stalled call in turn
	}
	res := Bubble(t, sc.Sched.config(trace), nil, func() {
		simrt.Event("scenario %x", simrt.Hash(hashBytes(mustJSON(sc))))
		calibrateStopHelper()
		w := NewWorld(o)
		w.FS.MustWriteFile("/f", PayloadBytes(3, 100), 0o644)
		w.FS.MustMkdir("/d", 0o755)
		for _, f := range sc.Stalls {
			w.FS.AddFault(f)
		}
		idle := time.Duration(sc.IdleNs)
		opts := absnfs.ExportOptions{MaxConnections: sc.MaxConns, IdleTimeout: idle, MaxWorkers: sc.Workers, EnableDirCache: true, AllowedIPs: sc.Allowed}
		var srv *absnfs.Server
		if sc.Export {
			nfs, err := absnfs.New(w.FS.View(), opts)
			if err != nil {
				o.Inconclusive = "new: " + err.Error()
				return
			}
			w.NFS = nfs
			if err := nfs.Export("/", 0); err != nil {
				o.Inconclusive = "export: " + err.Error()
				return
			}
			srv = absnfs.VerifExportServer(nfs)
			w.Port = srv.GetPort()
		} else {
			if err := w.Start(opts); err != nil {
				o.Inconclusive = "start: " + err.Error()
				return
			}
			srv = w.Srv
		}
		effIdle := absnfs.VerifTuning(w.NFS).IdleTimeout
		effMax := absnfs.VerifTuning(w.NFS).MaxConnections
		// a runtime change of IdleTimeout takes effect at the reaper's next tick (at most the old
		// check interval later); idle periods that straddle the change are not judged
		var idleNow, idleChangedAt, idleSettledAt simrt.Counter
		idleNow.Store(int64(effIdle))
		excluded := func(addr string) bool {
			if len(sc.Allowed) == 0 {
				return false
			}
			return !ipAllowed(sc.Allowed, addr[:strings.LastIndex(addr, ":")])
		}
		st := &c17State{}
		start := simrt.Now()
		now := func() time.Duration { return simrt.Now() - start }

		checkCounts := func(where string) {
			cc, mm := absnfs.VerifConnCounts(srv)
			o.Tick()
			if cc != mm {
				o.Vio("C17.count-differs-from-tracked-set", "", "%s: connCount=%d but %d connections are tracked", where, cc, mm)
			}
			if cc < 0 || cc > effMax {
				o.Vio("C17.count-out-of-range", fmt.Sprintf("neg=%v", cc < 0), "%s: connCount=%d with MaxConnections=%d", where, cc, effMax)
			}
		}

		done := make(chan int, len(sc.Clients)+len(sc.Admins))
		inStop := make([]simrt.Counter, len(sc.Admins))
		for ci, c := range sc.Clients {
			ci, c := ci, c
			simrt.Go(fmt.Sprintf("client-%d", ci), func() {
				defer simrt.Send("client.done", done, ci)
				simrt.Sleep(time.Duration(c.StartMs) * time.Millisecond)
				cl, err := w.Dial(c.Addr, RootCred, nil)
				if err != nil {
					simrt.Event("client %d dial failed: %v", ci, err)
					o.Tick()
					if sr := stopReturned.Load(); sr == 0 && closeReturned.Load() == 0 && adminStarted.Load() == 0 {
						o.Vio("C17.dial-refused-while-running", "", "client %d: dial refused although no Stop/Close was issued: %v", ci, err)
					}
					return
				}
				cl.Timeout = 40 * time.Second
				if excluded(c.Addr) {
					// refused by the address filter: must not be served and must not stay counted
					rep, err := cl.RawCall(nfsclient.ProgNFS, 3, 0, nil)
					o.Tick()
					if err == nil && rep != nil && rep.Stat == nfsclient.MsgAccepted {
						o.Vio("C17.excluded-address-served", "", "client %d from %s is outside AllowedIPs %v but its call was accepted", ci, c.Addr, sc.Allowed)
					}
					cl.Close()
					simrt.Probe("connection_refused_by_address_filter")
					return
				}
				cc := &c17Conn{cl: cl, lastAct: now()}
				st.add(cc)
				defer func() { cc.closed = true; cl.Close() }()
				var root []byte
				for si, stp := range c.Steps {
					switch stp.Op {
					case "idle":
						d := time.Duration(stp.Ms) * time.Millisecond
						idleFrom := now()
						simrt.Sleep(d)
						o.Tick()
						if cc.answered && cl.Conn.PeerClosed() && adminStarted.Load() == 0 {
							simrt.Probe("idle_connection_closed_by_server")
						}
						// bounded liveness: an idle connection is closed by the server
						curIdle := time.Duration(idleNow.Load())
						settled := idleChangedAt.Load() == 0 || int64(idleFrom) >= idleSettledAt.Load()
						if cc.answered && !cl.Dead && settled && d > 2*curIdle+100*time.Millisecond && !cl.Conn.PeerClosed() {
							facts := ""
							if idleChangedAt.Load() != 0 {
								facts = "after-runtime-change"
							}
							o.Vio("C17.idle-connection-not-reaped", facts, "client %d step %d: connection idle since t=%v for %v with IdleTimeout=%v is still open on the server side at t=%v", ci, si, idleFrom, d, curIdle, now())
						}
						continue
					case "close":
						return
					case "reset":
						// the network kills the connection right after a call was sent: whatever the server is
						// doing with that call, the connection must end up uncounted
						call := nfsclient.Call{XID: uint32(900000 + ci*100 + si), Prog: nfsclient.ProgNFS, Vers: 3, Proc: 0, Cred: nfsclient.AuthNone(), Verf: nfsclient.AuthNone()}
						cl.Conn.Write(nfsclient.Frame(call.Encode(), nil))
						cl.Conn.Reset()
						simrt.Fault("net.reset_by_peer")
						return
					}
					if cl.Dead {
						return
					}
					sentAt := now()
					sentAfterStop := stopReturned.Load() != 0 || closeReturned.Load() != 0
					var err error
					var answered bool
					switch stp.Op {
					case "null":
						var rep *nfsclient.Reply
						rep, err = cl.RawCall(nfsclient.ProgNFS, 3, 0, nil)
						answered = err == nil && rep != nil
					case "getattr", "lookup":
						if root == nil {
							var e2 error
							root, _, e2 = cl.Mount("/")
							if e2 != nil {
								err = e2
								if _, isNo := e2.(*ErrNoReply); !isNo {
									answered = true
									err = nil
								}
								break
							}
							answered = true
						}
						if stp.Op == "getattr" {
							_, err = cl.Getattr(root)
						} else {
							_, err = cl.Lookup(root, []string{"f", "d", "nope"}[si%3])
							if err == nil {
								cl.NFS(nfsclient.NFSProcReaddir, nfsclient.ArgsReaddir(root, 0, [8]byte{}, 4096))
							}
						}
						if err == errNotAccepted {
							err = nil
						}
						if err == nil {
							answered = true
						}
					}
					o.Tick()
					if answered {
						if sentAfterStop {
							o.Vio("C17.served-after-stop", "op="+stp.Op, "client %d step %d: a %s call sent at t=%v, after Stop/Close had returned, was answered", ci, si, stp.Op, sentAt)
						}
						cc.answered = true
						cc.ansRedials = cl.Redials
						cc.prevGap = sentAt - cc.lastAct
						if cc.prevGap >= effIdle/2 || cc.streakFrom == 0 {
							cc.streakFrom = sentAt + 1
						}
						cc.lastAct = now()
						if n := st.servedOpen(); n > effMax {
							simrt.Probe("served_above_max")
							o.Vio("C17.served-connections-exceed-max", "", "client %d step %d at t=%v: %d connections are answered and open at once, MaxConnections=%d", ci, si, now(), n, effMax)
						}
						// every served, open connection is counted
						cnt, _ := absnfs.VerifConnCounts(srv)
						if n := st.servedOpen(); cnt < n && stopReturned.Load() == 0 && adminStarted.Load() == 0 {
							o.Vio("C17.served-connection-not-counted", "", "client %d step %d: connCount=%d but %d connections are answered and open", ci, si, cnt, n)
						}
						checkCounts(fmt.Sprintf("client %d step %d", ci, si))
					} else if err != nil {
						simrt.Event("client %d step %d %s: %v", ci, si, stp.Op, err)
						if !cc.answered && adminStarted.Load() == 0 {
							simrt.Probe("connection_refused_service_at_limit")
						}
						// a registered connection is not reaped less than IdleTimeout after the server has read a call from
						// it: the call is read within milliseconds of being sent, a reaper pass that had already listed the
						// connection closes it within milliseconds too, so a close that comes 50 ms or more after the send
						// and well before send + IdleTimeout belongs to a pass that started while the call was being served
						if dt := now() - sentAt; cc.answered && cl.Redials == cc.ansRedials && adminStarted.Load() == 0 && idleChangedAt.Load() == 0 && effIdle >= 200*time.Millisecond &&
							dt >= 50*time.Millisecond && dt < effIdle-20*time.Millisecond && cl.Conn.PeerClosed() {
							o.Vio("C17.connection-reaped-while-serving", "op="+stp.Op, "client %d step %d: the server closed the connection %v after a %s call had been sent on it, without answering, although IdleTimeout is %v (the connection was not idle that long: a call had just been read from it)", ci, si, dt, stp.Op, effIdle)
						}
						// a connection that was being served and active is not closed without reason
						if cc.answered && cl.Redials == cc.ansRedials && adminStarted.Load() == 0 && idleChangedAt.Load() == 0 && maxStall == 0 && sentAt-cc.lastAct < effIdle/2 && cc.prevGap < effIdle/2 && sentAt-cc.streakFrom >= 50*time.Millisecond && sentAt-cc.lastAct < 10*time.Second && effIdle >= 100*time.Millisecond {
							// (below 100 ms the scheduler's injected delays - up to 2 ms per unlock - can by themselves
							// keep a request in the server longer than the idle time-out)
							o.Vio("C17.active-connection-closed", "op="+stp.Op, "client %d step %d: connection answered before and active %v ago (IdleTimeout %v) got no reply to %s: %v", ci, si, sentAt-cc.lastAct, effIdle, stp.Op, err)
						}
						return
					}
				}
			})
		}
		for _, ae := range sc.AcceptErrs {
			ae := ae
			simrt.Go("accept-errors", func() {
				simrt.Sleep(time.Duration(ae[0]) * time.Millisecond)
				if l := simrt.ListenerOn(w.Port); l != nil {
					l.InjectAcceptErrors(ae[1])
				}
			})
		}
		for ai, ops := range sc.Admins {
			ai, ops := ai, ops
			simrt.Go(fmt.Sprintf("admin-%d", ai), func() {
				defer simrt.Send("admin.done", done, 100+ai)
				for _, op := range ops {
					if d := time.Duration(op.AtMs)*time.Millisecond - now(); d > 0 {
						simrt.Sleep(d)
					}
					adminStarted.Store(int64(now()) + 1)
					simrt.Event("admin %d %s", ai, op.Op)
					t0 := now()
					switch op.Op {
					case "stop":
						if st.servedOpen() > 0 {
							simrt.Probe("stop_with_served_connections_open")
						}
						inStop[ai].Store(1)
						err := srv.Stop()
						inStop[ai].Store(0)
						o.Tick()
						if err != nil {
							stopTimedOut.Add(1)
							simrt.Fault("stop_timed_out")
							if maxStall < 4*time.Second {
								o.Vio("C17.stop-timed-out", "", "admin %d: Stop returned %v after %v although no backend call is stalled that long", ai, err, now()-t0)
							}
							continue
						}
						live := serverTasks(simrt.LiveTasks())
						if len(live) > 0 {
							// a per-request goroutine that has delivered its result may still be executing its last
							// statements (its final unlock) when Stop returns: give such a tail 10 simulated ms; what is
							// blocked on a connection, a lock or a stalled backend call is still there afterwards
							simrt.Sleep(10 * time.Millisecond)
							live = serverTasks(simrt.LiveTasks())
						}
						if len(live) > 0 {
							o.Vio("C17.goroutine-remains-after-stop", "where="+blockedWhere(live[0]), "admin %d: Stop returned nil at t=%v but server goroutines remain: %v", ai, now(), live)
						}
						if cc, mm := absnfs.VerifConnCounts(srv); cc != 0 || mm != 0 {
							o.Vio("C17.connections-counted-after-stop", "", "admin %d: after Stop returned connCount=%d tracked=%d", ai, cc, mm)
						}
						stopReturned.Store(int64(now()) + 1)
					case "lower-idle":
						// the reaper re-reads the setting at its next tick, i.e. at most one old check interval later
						old := time.Duration(idleNow.Load())
						oldInterval := old / 2
						if oldInterval > time.Minute {
							oldInterval = time.Minute
						}
						nw := 200 * time.Millisecond
						w.NFS.UpdateTuningOptions(func(tu *absnfs.TuningOptions) { tu.IdleTimeout = nw })
						idleNow.Store(int64(nw))
						idleChangedAt.Store(int64(now()) + 1)
						idleSettledAt.Store(int64(now() + oldInterval + 10*time.Millisecond))
						adminStarted.Store(0) // not a shutdown operation
						simrt.Probe("idle_timeout_lowered_at_runtime")
					case "close", "unexport":
						var err error
						inStop[ai].Store(1)
						if op.Op == "close" {
							err = w.NFS.Close()
						} else {
							err = w.NFS.Unexport()
						}
						inStop[ai].Store(0)
						o.Tick()
						if err != nil {
							o.Vio("C17.close-failed", "op="+op.Op, "admin %d: %s returned %v", ai, op.Op, err)
						}
						if sc.Export {
							closeReturned.Store(int64(now()) + 1)
							if err == nil && closeRetStamp.Load() == 0 {
								closeRetStamp.Store(simrt.Stamp())
							}
							// handles released, caches empty (a stalled request may still finish later: judged at quiescence)
							if maxStall == 0 {
								c17Released(o, w, op.Op, "on-return")
							}
						}
					}
				}
			})
		}
		for range len(sc.Clients) + len(sc.Admins) {
			simrt.Recv("actors.wait", done)
		}
		// quiescence: every client has closed; the server notices and uncounts. Injected accept errors delay
		// the accept of connections already in the backlog (the accept loop backs off 100 ms per error)
		settle := maxStall + 200*time.Millisecond
		for _, ae := range sc.AcceptErrs {
			settle += time.Duration(ae[1]) * 110 * time.Millisecond
		}
		simrt.Sleep(settle)
		o.Tick()
		if stopTimedOut.Load() == 0 {
			if cc, mm := absnfs.VerifConnCounts(srv); cc != 0 || mm != 0 {
				o.Vio("C17.connection-still-counted-after-end", "", "all clients closed their connections %v ago but connCount=%d tracked=%d", settle, cc, mm)
			}
		}
		// once a Close/Unexport has returned, the exported server is down: no request is still being served,
		// i.e. no backend call begins afterwards - also when another Close/Unexport was running concurrently.
		// (A request stalled beyond the 5 s stop grace is the recorded known finding and is excluded.)
		if crs := closeRetStamp.Load(); sc.Export && crs != 0 && maxStall < 4*time.Second {
			o.Tick()
			for _, c := range w.FS.CallsSince(0) {
				if c.Start > crs {
					o.Vio("C17.request-running-after-close", "op="+c.Op, "backend call %s(%q) began at stamp %d, after a Close/Unexport had returned nil at stamp %d: a request was still being served", c.Op, c.Path, c.Start, crs)
					break
				}
			}
		}
		if sc.Export && closeReturned.Load() != 0 {
			when := "at-quiescence"
			if maxStall >= 5*time.Second {
				when += ",a-backend-call-outlasted-the-5s-stop-grace"
			}
			c17Released(o, w, "close", when)
		}
		// bounded liveness once the faults have stopped: a server that nobody stopped still accepts and serves
		if adminStarted.Load() == 0 && maxStall < time.Second && time.Duration(idleNow.Load()) >= time.Second {
			// (with an idle time-out of nanoseconds to milliseconds the reaper may legitimately close a connection
			// before its first call has been read)
			o.Tick()
			if pc, err := w.Dial("10.0.0.1:650", RootCred, nil); err != nil {
				o.Vio("C17.not-serving-after-faults", "dial", "after all clients had gone (no Stop/Close issued) a new connection was refused: %v", err)
			} else {
				pc.Timeout = 30 * time.Second
				if rep, err := pc.RawCall(nfsclient.ProgNFS, 3, 0, nil); err != nil || rep == nil {
					o.Vio("C17.not-serving-after-faults", "no-reply", "after all clients had gone (no Stop/Close issued, connCount 0) a new connection's NULL call got no reply: %v", err)
				}
				pc.Close()
				simrt.Sleep(50 * time.Millisecond)
			}
		}
		// final shutdown, twice: repeating is harmless
		err1 := srv.Stop()
		err2 := srv.Stop()
		o.Tick()
		if err1 != nil || err2 != nil {
			o.Vio("C17.stop-timed-out", "final", "final Stop: %v / repeated Stop: %v", err1, err2)
		} else if live := func() []string {
			l := serverTasks(simrt.LiveTasks())
			if len(l) > 0 {
				simrt.Sleep(10 * time.Millisecond)
				l = serverTasks(simrt.LiveTasks())
			}
			return l
		}(); len(live) > 0 {
			o.Vio("C17.goroutine-remains-after-stop", "final,where="+blockedWhere(live[0]), "after the final Stop server goroutines remain: %v", live)
		}
		if e := w.NFS.Close(); e != nil {
			o.Vio("C17.close-failed", "op=close,final", "final Close returned %v", e)
		}
		if e := w.NFS.Close(); e != nil {
			o.Vio("C17.close-failed", "op=close,repeated", "repeated Close returned %v", e)
		}
		if e := w.NFS.Unexport(); e != nil {
			o.Vio("C17.close-failed", "op=unexport,repeated", "Unexport after Close returned %v", e)
		}
		c17Released(o, w, "close", "final")
		if _, err := w.Dial("10.0.0.9:700", RootCred, nil); err == nil {
			o.Vio("C17.accepting-after-stop", "", "a connection attempt after the final Stop was accepted by the listener")
		}
	})
	o.finish(res, "C17")
	if res != nil {
		for _, p := range res.Panics {
			o.Vio("C17.panic", panicFacts(p), "%s", firstLines(p, 14))
		}
		for _, l := range res.Leaked {
			if contains(l, "server.go") || contains(l, "worker_pool.go") {
				o.Vio("C17.goroutine-leaked", "where="+blockedWhere(l), "at the end of the run (after Stop and Close) a server goroutine is still alive: %s", l)
			}
		}
	}
	o.NonTrivial = len(sc.Clients) >= 2
	return o
}

// c17Released checks that handles are released and the caches are empty.
func c17Released(o *Outcome, w *World, op, when string) {
	o.Tick()
	if contains(when, "outlasted") {
		h, a, d := len(absnfs.VerifHandles(absnfs.VerifFileMap(w.NFS))), absnfs.VerifAttrCache(w.NFS).Size(), 0
		if dc := absnfs.VerifDirCache(w.NFS); dc != nil {
			d = dc.Size()
		}
		if h+a+d != 0 {
			o.Vio("C17.state-repopulated-after-close", "a-backend-call-outlasted-the-5s-stop-grace", "after %s returned, a request that was still stalled in the backend when the internal Stop gave up (5 s) completed and re-populated the released state: %d handles, %d attribute-cache entries, %d directory-cache entries", op, h, a, d)
		}
		return
	}
	if n := len(absnfs.VerifHandles(absnfs.VerifFileMap(w.NFS))); n != 0 {
		o.Vio("C17.handles-not-released", "when="+when, "after %s (%s) the handle table still holds %d handles", op, when, n)
	}
	if n := absnfs.VerifAttrCache(w.NFS).Size(); n != 0 {
		o.Vio("C17.cache-not-empty", "cache=attr,when="+when, "after %s (%s) the attribute cache holds %d entries", op, when, n)
	}
	if dc := absnfs.VerifDirCache(w.NFS); dc != nil && dc.Size() != 0 {
		o.Vio("C17.cache-not-empty", "cache=dir,when="+when, "after %s (%s) the directory cache holds %d entries", op, when, dc.Size())
	}
}

func genC17(r *simrt.Rand, tier string) any {
	sc := &C17Scn{MaxConns: 1 + r.Int(4), Export: r.Pct(50), Workers: 1 + r.Int(3), Sched: RandSched(r)}
	sc.IdleNs = []int64{0, 0, 1, 1e6, 200e6, 1e9, 5e9, 40e9, 90e9}[r.Int(9)] // incl. values above the 5 s / 30 s per-read deadlines of the connection loop
	if r.Pct(30) {
		sc.Sched = SeqSched(r.Uint64())
	}
	sc.Sched.HorizonS = 3600
	if r.Pct(30) {
		sc.Allowed = [][]string{{"10.0.0.1", "10.0.0.2"}, {"10.0.0.0/31", "10.0.0.2/32"}}[r.Int(2)]
	}
	nc := 2 + r.Int(5)
	for i := 0; i < nc; i++ {
		c := C17Client{StartMs: []int{0, 0, 1, 50, 700, 3000}[r.Int(6)], Addr: fmt.Sprintf("10.0.0.%d:%d", 1+r.Int(3), 600+i)}
		ns := 1 + r.Int(6)
		for j := 0; j < ns; j++ {
			switch r.Pick([]int{30, 15, 20, 25, 10}) {
			case 0:
				c.Steps = append(c.Steps, C17Step{Op: "null"})
			case 1:
				c.Steps = append(c.Steps, C17Step{Op: "getattr"})
			case 2:
				c.Steps = append(c.Steps, C17Step{Op: "lookup"})
			case 3:
				ms := []int{1, 30, 300, 700, 2500, 12000, 35000}[r.Int(7)]
				if (sc.IdleNs == 0 || sc.IdleNs >= 5e9) && r.Pct(30) {
					// long silences only with long idle timeouts (a 1 ms reaper tick over minutes is all steps, no content)
					ms = []int{100000, 250000, 700000}[r.Int(3)]
				}
				c.Steps = append(c.Steps, C17Step{Op: "idle", Ms: ms})
			case 4:
				c.Steps = append(c.Steps, C17Step{Op: []string{"close", "close", "reset"}[r.Int(3)]})
			}
		}
		sc.Clients = append(sc.Clients, c)
	}
	if r.Pct(25) {
		for i, n := 0, 1+r.Int(2); i < n; i++ {
			sc.AcceptErrs = append(sc.AcceptErrs, [2]int{[]int{0, 1, 40, 600, 2900}[r.Int(5)], 1 + r.Int(6)})
		}
	}
	if r.Pct(20) && sc.IdleNs >= 1e9 {
		// IdleTimeout lowered at runtime, followed by clients that go idle after the change has settled
		sc.Admins = append(sc.Admins, []C17Admin{{AtMs: []int{10, 300}[r.Int(2)], Op: "lower-idle"}})
		for i := range sc.Clients {
			if r.Pct(60) {
				sc.Clients[i].StartMs = 3500 + r.Int(500)
				sc.Clients[i].Steps = []C17Step{{Op: "null"}, {Op: "idle", Ms: []int{700, 1500}[r.Int(2)]}, {Op: "null"}}
			}
		}
	} else if r.Pct(60) {
		na := 1 + r.Int(2)
		for a := 0; a < na; a++ {
			var ops []C17Admin
			at := []int{0, 1, 40, 600, 2000, 9000}[r.Int(6)]
			if r.Pct(40) {
				at = sc.Clients[r.Int(len(sc.Clients))].StartMs // a shutdown racing with a connection being opened
			}
			for k := 0; k < 1+r.Int(2); k++ {
				op := "stop"
				if sc.Export {
					op = []string{"stop", "close", "unexport", "close"}[r.Int(4)]
				} else if r.Pct(20) {
					op = "close"
				}
				ops = append(ops, C17Admin{AtMs: at, Op: op})
				at += []int{0, 1, 500}[r.Int(3)]
			}
			sc.Admins = append(sc.Admins, ops)
		}
	}
	if r.Pct(35) {
		for k := 0; k < 1+r.Int(2); k++ {
			sc.Stalls = append(sc.Stalls, simfs.Fault{Op: []string{"Lstat", "Stat", "ReadDir", ""}[r.Int(4)], Nth: 1 + r.Int(6), Kind: "stall",
				Stall: []time.Duration{5 * time.Millisecond, 800 * time.Millisecond, 3 * time.Second, 7 * time.Second}[r.Int(4)]})
		}
	}
	if r.Pct(10) {
		// shutdown-meets-connect motif: Stop is issued at the very instant a client connects, and that client
		// then says nothing for a long time (the connection must not keep Stop waiting, nor stay counted)
		ci := r.Int(len(sc.Clients))
		sc.Clients[ci].Steps = []C17Step{{Op: "idle", Ms: []int{12000, 35000}[r.Int(2)]}, {Op: "null"}}
		sc.Stalls, sc.AcceptErrs = nil, nil
		op := "stop"
		if sc.Export && r.Pct(50) {
			op = []string{"close", "unexport"}[r.Int(2)]
		}
		sc.Admins = [][]C17Admin{{{AtMs: sc.Clients[ci].StartMs, Op: op}}}
	}
	if r.Pct(10) {
		// slow-request-after-a-quiet-spell motif: a connection that has been answered stays silent for most of
		// IdleTimeout, then sends a call that the backend holds up for longer than one reaper interval but for
		// less than IdleTimeout: the connection is not idle (a call has just been read from it) and must be
		// answered, not reaped
		sc.IdleNs = []int64{1e9, 5e9}[r.Int(2)]
		unit := int(sc.IdleNs / 1e6) // ms
		sc.MaxConns = 2 + r.Int(3)
		sc.Allowed, sc.AcceptErrs, sc.Admins = nil, nil, nil
		sc.Clients = []C17Client{{StartMs: 0, Addr: "10.0.0.1:600", Steps: []C17Step{{Op: "getattr"}, {Op: "idle", Ms: unit * []int{60, 80, 95}[r.Int(3)] / 100}, {Op: "getattr"}, {Op: "null"}}},
			{StartMs: 50, Addr: "10.0.0.2:601", Steps: []C17Step{{Op: "null"}, {Op: "idle", Ms: 30}, {Op: "close"}}}}
		sc.Stalls = []simfs.Fault{{Op: "Lstat", Nth: 2 + r.Int(4), Kind: "stall", Stall: time.Duration(unit*6/10) * time.Millisecond}}
	}
	if sc.Export && r.Pct(15) {
		// concurrent-shutdown motif: a request is held up in the backend (well inside the 5 s stop grace)
		// while two administrators shut the export down almost at the same time
		sc.Stalls = []simfs.Fault{{Op: []string{"Lstat", "ReadDir", ""}[r.Int(3)], Nth: 1 + r.Int(4), Kind: "stall", Stall: time.Duration(800+r.Int(2000)) * time.Millisecond}}
		sc.Clients[0].StartMs = 0
		sc.Clients[0].Steps = []C17Step{{Op: "lookup"}, {Op: "getattr"}}
		sc.AcceptErrs = nil
		at := 20 + r.Int(300)
		ops := []string{"close", "unexport"}
		sc.Admins = [][]C17Admin{{{AtMs: at, Op: ops[r.Int(2)]}}, {{AtMs: at + []int{0, 1, 50, 400}[r.Int(4)], Op: ops[r.Int(2)]}}}
	}
	return sc
}

func shrinkC17(scAny any) []any {
	sc := scAny.(*C17Scn)
	var out []any
	cp := func() *C17Scn {
		c := *sc
		c.Clients = make([]C17Client, len(sc.Clients))
		for i := range sc.Clients {
			c.Clients[i] = sc.Clients[i]
			c.Clients[i].Steps = append([]C17Step(nil), sc.Clients[i].Steps...)
		}
		c.Admins = make([][]C17Admin, len(sc.Admins))
		for i := range sc.Admins {
			c.Admins[i] = append([]C17Admin(nil), sc.Admins[i]...)
		}
		c.Stalls = append([]simfs.Fault(nil), sc.Stalls...)
		return &c
	}
	for i := range sc.Clients {
		c := cp()
		c.Clients = append(c.Clients[:i], c.Clients[i+1:]...)
		out = append(out, c)
	}
	for i := range sc.Admins {
		c := cp()
		c.Admins = append(c.Admins[:i], c.Admins[i+1:]...)
		out = append(out, c)
	}
	for i := range sc.Stalls {
		c := cp()
		c.Stalls = append(c.Stalls[:i], c.Stalls[i+1:]...)
		out = append(out, c)
	}
	for i := range sc.Clients {
		for j := range sc.Clients[i].Steps {
			c := cp()
			c.Clients[i].Steps = append(c.Clients[i].Steps[:j], c.Clients[i].Steps[j+1:]...)
			out = append(out, c)
		}
	}
	for i := range sc.Admins {
		for j := range sc.Admins[i] {
			if len(sc.Admins[i]) > 1 {
				c := cp()
				c.Admins[i] = append(c.Admins[i][:j], c.Admins[i][j+1:]...)
				out = append(out, c)
			}
		}
	}
	if sc.Sched.Policy != simrt.PolDefault {
		c := cp()
		c.Sched = SeqSched(sc.Sched.Seed)
		c.Sched.HorizonS = sc.Sched.HorizonS
		out = append(out, c)
	}
	return out
}

func init() {
	Register(&Prop{ID: "C17", Level: "exploration", Race: true,
		Rule: "one case = 2-6 clients opening connections at drawn instants from 3 addresses and each performing 1-6 of NULL / MNT+GETATTR / LOOKUP+READDIR calls, idle periods of 1 ms-700 s, closes and abrupt resets right after a call was sent; in 25% of runs 1-6 transient accept errors injected into the listener at drawn instants, against a server with MaxConnections 1-4 and IdleTimeout from {default (5 min), 1 ns, 1 ms, 200 ms, 1 s, 5 s, 40 s, 90 s} (in 20% of those with >= 1 s lowered to 200 ms at runtime, idle periods then start after the reaper has had one old check interval to notice), AllowedIPs empty or excluding one of the three client addresses (30%), started through NewServer+Listen or through AbsfsNFS.Export, 0-2 admin actors issuing Stop / Close / Unexport (also repeated and concurrently) at drawn instants, 0-2 backend calls stalled for 5 ms-7 s, every lock/channel/select/network interleaving decided by the seeded scheduler (random, PCT, sticky; 30% sequential), also built with -race; monitors: (a) connections answered at least once and closed on neither side never exceed MaxConnections, (b) a client outside AllowedIPs is never served and never stays counted; connCount equals the tracked set, stays within 0..MaxConnections, covers every served open connection and is 0 once all clients have closed, (c) an answered connection idle for more than 2*IdleTimeout+100 ms has been closed by the server; an active one is not dropped, (d) after Stop returns nil no goroutine created in server.go is alive, the count is 0, later calls are never answered and the listener refuses; Stop only times out when a backend call is stalled beyond its 5 s grace, (e) after Close/Unexport of an exported server the handle table and both caches are empty (on return when nothing is stalled, and at quiescence), repeating Stop/Close/Unexport returns nil, and once one of them has returned no backend call begins any more (no request is still being served, also under concurrent Close/Unexport calls), (f) no panic, no server goroutine alive at the end of the run, (g) bounded liveness after the faults: when nobody stopped the server a fresh connection is accepted and answered; 10% of the cases are the slow-request-after-a-quiet-spell motif (IdleTimeout 1 s or 5 s, a connection silent for 60-95% of it, then a call the backend holds for 60% of it); monitor (h): a registered connection is not closed between 50 ms after a call was sent on it and IdleTimeout-20 ms after that without the call being answered; non-trivial = at least two clients; distinct by event digest",
		Gen:  genC17, New: func() any { return &C17Scn{} }, Run: runC17, Shrink: shrinkC17,
		Real:    []string{"server.go accept loop, connection registry, idle reaper, Stop", "absnfs.go Close, operations.go Unexport/Export", "rpc/nfs handlers, worker pool, caches, handle table"},
		Stubbed: seqStubbed})
}
