// Package simfs is the simulated storage backend: a small POSIX tree that
// implements absfs.SymlinkFileSystem with
//
//   - a call log (every backend call with its arguments and result),
//   - yield points on entry and exit of every call (so calls can be interleaved
//     and stalled on the simulated clock),
//   - a fault plan (EIO, ENOSPC, EACCES, short writes/reads, close/sync errors),
//   - a durability model: namespace operations are durable when they return;
//     file data and size are volatile until Sync on an open handle of that file
//     succeeds (or the handle was opened O_SYNC); Crash discards volatile state
//     (all of it, or an arbitrary page subset survives: torn).
package simfs

import (
	"errors"
	"fmt"
	"io"
	"io/fs"
	"os"
	"path"
	"sort"
	"strings"
	"sync"
	"syscall"
	"time"
	"unsafe"

	"github.com/absfs/absfs"

	"verif/sim/simrt"
)

const pageSize = 4096

// Kind of inode.
const (
	KindFile = iota
	KindDir
	KindSymlink
)

type fileData struct {
	pages map[int64][]byte
	size  int64
}

//go:norace
func (d *fileData) clone() fileData {
	n := fileData{pages: make(map[int64][]byte, len(d.pages)), size: d.size}
	for k, v := range d.pages {
		n.pages[k] = append([]byte(nil), v...)
	}
	return n
}

// Inode is one filesystem object.
type Inode struct {
	Ino      uint64
	Kind     int
	Perm     os.FileMode // permission bits (incl. setuid/setgid/sticky as os.FileMode flags)
	UID, GID uint32
	Mtime    time.Time
	Atime    time.Time
	Target   string
	children map[string]*Inode
	data     fileData
	durable  fileData
	dirty    bool
	nlink    int
}

// Call is one logged backend call.
type Call struct {
	Seq      int
	Task     string
	Op       string
	Path     string
	Path2    string // rename target / symlink target
	Flag     int
	Perm     os.FileMode
	UID, GID int
	Size     int64
	Off      int64
	Len      int
	Err      error
	N        int
	Start    int64 // simrt.Stamp at entry
	End      int64 // simrt.Stamp at return (0 while in progress)
	Mutating bool
	Ctx      any // filled by the OnCall hook (e.g. live policy pointer)
	Epoch    int
	Injected string // kind of the fault rule that fired on this call ("" = none; stalls are not recorded here)
	retStall time.Duration // "stall_ret": the call's result is delivered this much later than it was computed
}

// Fault rule: fires on the Nth matching call (1-based), Count times (0 = once).
type Fault struct {
	Op      string // backend op name ("" = any)
	PathSfx string // path suffix ("" = any)
	Nth     int
	Kind    string // eio enospc eacces short shortok stall stall_ret
	Short   int    // bytes actually transferred for "short"
	Stall   time.Duration
	Repeat  bool
	seen    int
	fired   bool
}

// FS is the shared filesystem state.
type FS struct {
	mu      sync.Mutex
	root    *Inode
	nextIno uint64
	epoch   int
	Calls   []*Call
	faults  []*Fault
	OnCall  func(c Call) any // invoked at entry after logging, outside the lock; its result is stored in Call.Ctx
	OnRet   func(c Call)     // invoked at return
	KeepLog bool
	nseq    int
	// CrashAfter: crash atomically after this many completed backend calls (0 = never)
	CrashAfter int
	CrashTorn  bool
	crashRng   *simrt.Rand
	completed  int
	injected   int // number of error/short fault rules that have fired
	stalled    int // number of stall / stall_ret rules that have fired
	Crashed    bool
	wsync      byte // released by mutating calls, acquired by every call
	rsync      byte // release-merged by read-only calls, acquired by mutating calls
}

// lock/unlock: the backend's own mutex must not teach the race detector any
// happens-before edge; the edges a thread-safe backend provides are published
// explicitly in begin/end (reader/writer discipline like an RWMutex).
//
//go:norace
func (f *FS) lock() {
	simrt.RaceOff()
	f.mu.Lock()
}

//go:norace
func (f *FS) unlock() {
	f.mu.Unlock()
	simrt.RaceOn()
}

// hlock/hunlock are used by harness-side accessors: they behave like a writer
// of the backend (ordered after every earlier call, before every later one).
//
//go:norace
func (f *FS) hlock() {
	simrt.RaceAcquire(unsafe.Pointer(&f.wsync))
	simrt.RaceAcquire(unsafe.Pointer(&f.rsync))
	f.lock()
}

//go:norace
func (f *FS) hunlock() {
	f.unlock()
	simrt.RaceRelease(unsafe.Pointer(&f.wsync))
}

// View is the handle of the filesystem given to one server instance. After a
// crash every call through an old view fails with EIO and changes nothing.
type View struct {
	fs    *FS
	epoch int
	cwd   string
}

// New creates an empty filesystem with a root directory.
//
//go:norace
func New() *FS {
	f := &FS{KeepLog: true}
	f.root = f.newInode(KindDir, 0o755)
	return f
}

//go:norace
func (f *FS) newInode(kind int, perm os.FileMode) *Inode {
	f.nextIno++
	now := time.Now()
	in := &Inode{Ino: f.nextIno, Kind: kind, Perm: perm, Mtime: now, Atime: now, nlink: 1}
	if kind == KindDir {
		in.children = map[string]*Inode{}
	}
	if kind == KindFile {
		in.data.pages = map[int64][]byte{}
		in.durable.pages = map[int64][]byte{}
	}
	return in
}

// View returns a view bound to the current epoch.
//
//go:norace
func (f *FS) View() *View { return &View{fs: f, epoch: f.epoch, cwd: "/"} }

// AddFault appends a fault rule.
//
//go:norace
func (f *FS) AddFault(r Fault) {
	f.hlock()
	f.faults = append(f.faults, &r)
	f.hunlock()
}

// Injected returns how many error/short fault rules have fired so far.
//
//go:norace
func (f *FS) Injected() int {
	f.hlock()
	defer f.hunlock()
	return f.injected
}

// Stalled returns how many stall rules have fired so far.
//
//go:norace
func (f *FS) Stalled() int {
	f.hlock()
	defer f.hunlock()
	return f.stalled
}

// ClearFaults removes all fault rules.
//
//go:norace
func (f *FS) ClearFaults() {
	f.hlock()
	f.faults = nil
	f.hunlock()
}

//go:norace
func pe(op, p string, err error) error { return &os.PathError{Op: op, Path: p, Err: err} }

var mutatingOps = map[string]bool{
	"Mkdir": true, "Remove": true, "Rename": true, "Chmod": true, "Chtimes": true, "Chown": true, "Lchown": true,
	"Create": true, "MkdirAll": true, "RemoveAll": true, "Truncate": true, "Symlink": true,
	"File.Write": true, "File.WriteAt": true, "File.Truncate": true, "File.WriteString": true,
}

// begin logs the call, applies stall/fault rules and yields. It returns the
// call record and an injected error (or nil).
//
//go:norace
func (v *View) begin(c *Call) (*Call, *Fault) {
	f := v.fs
	simrt.Yield(simrt.ClassFS, "fs."+c.Op)
	c.Task = simrt.SelfID()
	c.Start = simrt.Stamp()
	if c.Op == "OpenFile" && c.Flag&(os.O_WRONLY|os.O_RDWR|os.O_APPEND|os.O_CREATE|os.O_TRUNC) != 0 {
		c.Mutating = true
	} else if mutatingOps[c.Op] {
		c.Mutating = true
	}
	f.lock()
	f.nseq++
	c.Seq = f.nseq
	c.Epoch = v.epoch
	if f.KeepLog {
		f.Calls = append(f.Calls, c)
	}
	var hit *Fault
	for _, r := range f.faults {
		if r.fired && !r.Repeat {
			continue
		}
		if r.Op != "" && r.Op != c.Op {
			continue
		}
		if r.PathSfx != "" && !strings.HasSuffix(c.Path, r.PathSfx) {
			continue
		}
		r.seen++
		if r.seen >= r.Nth {
			r.fired = true
			if hit == nil {
				hit = r
			}
		}
	}
	if hit != nil && (hit.Kind == "stall" || hit.Kind == "stall_ret") {
		f.stalled++
	}
	if hit != nil && hit.Kind == "shortok" && c.Op == "File.Readdir" {
		// small directory batches are legal backend behaviour and change nothing for Readdir(-1): counted as an
		// injected fault by Readdir itself, when it actually cuts a batch short
	} else if hit != nil && hit.Kind != "stall" && hit.Kind != "stall_ret" {
		f.injected++
		c.Injected = hit.Kind
	}
	hook := f.OnCall
	f.unlock()
	if hook != nil {
		ctx := hook(*c)
		f.lock()
		c.Ctx = ctx
		f.unlock()
	}
	if hit != nil && hit.Kind == "stall" {
		simrt.Fault("fs.stall")
		simrt.Sleep(hit.Stall)
		hit = nil
	}
	if hit != nil && hit.Kind == "stall_ret" {
		// a slow answer: the backend does its work now, the caller sees the result only later - what it
		// then holds describes the past (widens every "read the backend, then fill a cache" window)
		c.retStall = hit.Stall
		hit = nil
	}
	// reader/writer edges of a thread-safe backend, taken right before the body runs
	// (after any stall: calls that completed meanwhile are ordered before this one)
	simrt.RaceAcquire(unsafe.Pointer(&f.wsync))
	if c.Mutating {
		simrt.RaceAcquire(unsafe.Pointer(&f.rsync))
	}
	return c, hit
}

// TraceCalls makes every backend call an event of the run's log (debugging aid for trace replays only).
var TraceCalls bool

//go:norace
func (v *View) end(c *Call, err error) error {
	f := v.fs
	if TraceCalls {
		simrt.Event("fs %s %s %s off=%d len=%d n=%d inj=%s -> %v", c.Op, c.Path, c.Path2, c.Off, c.Len, c.N, c.Injected, err)
	}
	if c.Mutating {
		simrt.RaceRelease(unsafe.Pointer(&f.wsync))
	} else {
		simrt.RaceReleaseMerge(unsafe.Pointer(&f.rsync))
	}
	stamp := simrt.Stamp()
	f.lock()
	c.Err = err
	c.End = stamp
	f.completed++
	crash := f.CrashAfter > 0 && f.completed == f.CrashAfter && !f.Crashed
	hook := f.OnRet
	f.unlock()
	if crash {
		f.Crash(f.CrashTorn, f.crashRng)
	}
	if hook != nil {
		hook(*c)
	}
	if c.retStall > 0 {
		simrt.Fault("fs.stall_ret")
		simrt.Sleep(c.retStall)
	}
	simrt.Yield(simrt.ClassFS, "fs."+c.Op+".ret")
	return err
}

//go:norace
func faultErr(r *Fault) error {
	switch r.Kind {
	case "eio":
		simrt.Fault("fs.eio")
		return syscall.EIO
	case "enospc":
		simrt.Fault("fs.enospc")
		return syscall.ENOSPC
	case "eacces":
		simrt.Fault("fs.eacces")
		return syscall.EACCES
	}
	return nil
}

// stale reports whether the view is from before the last crash.
//
//go:norace
func (v *View) stale() bool { return v.epoch != v.fs.epoch }

// ---------- path resolution (caller holds f.mu) ----------

//go:norace
func clean(p string) string {
	if !strings.HasPrefix(p, "/") {
		p = "/" + p
	}
	return path.Clean(p)
}

// resolve walks p. follow: follow a symlink in the last component.
// Returns parent dir, last name, inode (nil if absent).
//
//go:norace
func (f *FS) resolve(p string, follow bool, depth int) (parent *Inode, name string, in *Inode, err error) {
	if depth > 40 {
		return nil, "", nil, syscall.ELOOP
	}
	p = clean(p)
	if p == "/" {
		return nil, "", f.root, nil
	}
	parts := strings.Split(strings.TrimPrefix(p, "/"), "/")
	cur := f.root
	curPath := "/"
	for i, part := range parts {
		if cur.Kind != KindDir {
			return nil, "", nil, syscall.ENOTDIR
		}
		if len(part) > 255 {
			return nil, "", nil, syscall.ENAMETOOLONG
		}
		child := cur.children[part]
		last := i == len(parts)-1
		if child == nil {
			if last {
				return cur, part, nil, nil
			}
			return nil, "", nil, syscall.ENOENT
		}
		if child.Kind == KindSymlink && (!last || follow) {
			tgt := child.Target
			if !strings.HasPrefix(tgt, "/") {
				tgt = path.Join(curPath, tgt)
			}
			rest := strings.Join(parts[i+1:], "/")
			return f.resolve(path.Join(tgt, rest), follow, depth+1)
		}
		if last {
			return cur, part, child, nil
		}
		cur = child
		curPath = path.Join(curPath, part)
	}
	return nil, "", nil, syscall.ENOENT
}

//go:norace
func (f *FS) lookup(p string, follow bool) (*Inode, error) {
	_, _, in, err := f.resolve(p, follow, 0)
	if err != nil {
		return nil, err
	}
	if in == nil {
		return nil, syscall.ENOENT
	}
	return in, nil
}

// ---------- FileInfo ----------

type info struct {
	name  string
	size  int64
	mode  os.FileMode
	mtime time.Time
	in    *Stat
}

// Stat is the Sys() value of FileInfo: the raw inode attributes.
type Stat struct {
	Ino      uint64
	Kind     int
	UID, GID uint32
	Nlink    int
}

//go:norace
func (i *info) Name() string { return i.name }

//go:norace
func (i *info) Size() int64 { return i.size }

//go:norace
func (i *info) Mode() os.FileMode { return i.mode }

//go:norace
func (i *info) ModTime() time.Time { return i.mtime }

//go:norace
func (i *info) IsDir() bool { return i.mode.IsDir() }

//go:norace
func (i *info) Sys() any { return i.in }

//go:norace
func (in *Inode) mode() os.FileMode {
	m := in.Perm
	switch in.Kind {
	case KindDir:
		m |= os.ModeDir
	case KindSymlink:
		m |= os.ModeSymlink
	}
	return m
}

//go:norace
func (in *Inode) size() int64 {
	switch in.Kind {
	case KindDir:
		return 4096
	case KindSymlink:
		return int64(len(in.Target))
	}
	return in.data.size
}

//go:norace
func (in *Inode) info(name string) os.FileInfo {
	return &info{name: name, size: in.size(), mode: in.mode(), mtime: in.Mtime, in: &Stat{Ino: in.Ino, Kind: in.Kind, UID: in.UID, GID: in.GID, Nlink: in.nlink}}
}

type dirEntry struct{ fi os.FileInfo }

//go:norace
func (d dirEntry) Name() string { return d.fi.Name() }

//go:norace
func (d dirEntry) IsDir() bool { return d.fi.IsDir() }

//go:norace
func (d dirEntry) Type() fs.FileMode { return d.fi.Mode().Type() }

//go:norace
func (d dirEntry) Info() (fs.FileInfo, error) { return d.fi, nil }

// ---------- data helpers (caller holds f.mu) ----------

//go:norace
func (d *fileData) readAt(b []byte, off int64) int {
	if off >= d.size {
		return 0
	}
	n := int64(len(b))
	if off+n > d.size {
		n = d.size - off
	}
	for i := int64(0); i < n; {
		pg := (off + i) / pageSize
		po := (off + i) % pageSize
		chunk := pageSize - po
		if chunk > n-i {
			chunk = n - i
		}
		if p := d.pages[pg]; p != nil {
			copy(b[i:i+chunk], p[po:po+chunk])
		} else {
			for j := int64(0); j < chunk; j++ {
				b[i+j] = 0
			}
		}
		i += chunk
	}
	return int(n)
}

//go:norace
func (d *fileData) writeAt(b []byte, off int64) {
	n := int64(len(b))
	for i := int64(0); i < n; {
		pg := (off + i) / pageSize
		po := (off + i) % pageSize
		chunk := pageSize - po
		if chunk > n-i {
			chunk = n - i
		}
		p := d.pages[pg]
		if p == nil {
			p = make([]byte, pageSize)
			d.pages[pg] = p
		}
		copy(p[po:po+chunk], b[i:i+chunk])
		i += chunk
	}
	if off+n > d.size {
		d.size = off + n
	}
}

//go:norace
func (d *fileData) truncate(size int64) {
	if size < d.size {
		for pg, p := range d.pages {
			start := pg * pageSize
			if start >= size {
				delete(d.pages, pg)
			} else if start+pageSize > size {
				for j := size - start; j < pageSize; j++ {
					p[j] = 0
				}
			}
		}
	}
	d.size = size
}

// ---------- View: absfs.SymlinkFileSystem ----------

var errStale = syscall.EIO

//go:norace
func (v *View) OpenFile(name string, flag int, perm os.FileMode) (absfs.File, error) {
	c, flt := v.begin(&Call{Op: "OpenFile", Path: name, Flag: flag, Perm: perm})
	file, err := v.openFile(name, flag, perm, flt)
	return file, v.end(c, err)
}

//go:norace
func (v *View) openFile(name string, flag int, perm os.FileMode, flt *Fault) (absfs.File, error) {
	f := v.fs
	if flt != nil {
		if e := faultErr(flt); e != nil {
			return nil, pe("open", name, e)
		}
	}
	f.lock()
	defer f.unlock()
	if v.stale() {
		return nil, pe("open", name, errStale)
	}
	parent, base, in, err := f.resolve(name, true, 0)
	if err != nil {
		return nil, pe("open", name, err)
	}
	wr := flag&(os.O_WRONLY|os.O_RDWR) != 0
	if in == nil {
		if flag&os.O_CREATE == 0 {
			return nil, pe("open", name, syscall.ENOENT)
		}
		in = f.newInode(KindFile, perm.Perm())
		parent.children[base] = in
		parent.Mtime = time.Now()
	} else {
		if flag&os.O_CREATE != 0 && flag&os.O_EXCL != 0 {
			return nil, pe("open", name, syscall.EEXIST)
		}
		if in.Kind == KindDir && (wr || flag&os.O_TRUNC != 0) {
			return nil, pe("open", name, syscall.EISDIR)
		}
		if flag&os.O_TRUNC != 0 && in.Kind == KindFile {
			in.data.truncate(0)
			in.dirty = true
			in.Mtime = time.Now()
		}
	}
	return &File{v: v, in: in, name: clean(name), flag: flag}, nil
}

//go:norace
func (v *View) Open(name string) (absfs.File, error) { return v.OpenFile(name, os.O_RDONLY, 0) }

//go:norace
func (v *View) Create(name string) (absfs.File, error) {
	c, flt := v.begin(&Call{Op: "Create", Path: name})
	file, err := v.openFile(name, os.O_RDWR|os.O_CREATE|os.O_TRUNC, 0o666, flt)
	return file, v.end(c, err)
}

//go:norace
func (v *View) Mkdir(name string, perm os.FileMode) error {
	c, flt := v.begin(&Call{Op: "Mkdir", Path: name, Perm: perm})
	return v.end(c, v.mkdir(name, perm, flt))
}

//go:norace
func (v *View) mkdir(name string, perm os.FileMode, flt *Fault) error {
	f := v.fs
	if flt != nil {
		if e := faultErr(flt); e != nil {
			return pe("mkdir", name, e)
		}
	}
	f.lock()
	defer f.unlock()
	if v.stale() {
		return pe("mkdir", name, errStale)
	}
	parent, base, in, err := f.resolve(name, false, 0)
	if err != nil {
		return pe("mkdir", name, err)
	}
	if in != nil {
		return pe("mkdir", name, syscall.EEXIST)
	}
	if parent == nil {
		return pe("mkdir", name, syscall.EEXIST)
	}
	parent.children[base] = f.newInode(KindDir, perm.Perm())
	parent.Mtime = time.Now()
	return nil
}

//go:norace
func (v *View) MkdirAll(name string, perm os.FileMode) error {
	c, _ := v.begin(&Call{Op: "MkdirAll", Path: name, Perm: perm})
	p := clean(name)
	parts := strings.Split(strings.TrimPrefix(p, "/"), "/")
	cur := ""
	var err error
	for _, part := range parts {
		if part == "" {
			continue
		}
		cur += "/" + part
		if e := v.mkdir(cur, perm, nil); e != nil && !errors.Is(e, syscall.EEXIST) {
			err = e
			break
		}
	}
	return v.end(c, err)
}

//go:norace
func (v *View) Remove(name string) error {
	c, flt := v.begin(&Call{Op: "Remove", Path: name})
	return v.end(c, v.remove(name, flt))
}

//go:norace
func (v *View) remove(name string, flt *Fault) error {
	f := v.fs
	if flt != nil {
		if e := faultErr(flt); e != nil {
			return pe("remove", name, e)
		}
	}
	f.lock()
	defer f.unlock()
	if v.stale() {
		return pe("remove", name, errStale)
	}
	parent, base, in, err := f.resolve(name, false, 0)
	if err != nil {
		return pe("remove", name, err)
	}
	if in == nil {
		return pe("remove", name, syscall.ENOENT)
	}
	if parent == nil {
		return pe("remove", name, syscall.EBUSY)
	}
	if in.Kind == KindDir && len(in.children) > 0 {
		return pe("remove", name, syscall.ENOTEMPTY)
	}
	delete(parent.children, base)
	parent.Mtime = time.Now()
	return nil
}

//go:norace
func (v *View) RemoveAll(name string) error {
	c, _ := v.begin(&Call{Op: "RemoveAll", Path: name})
	f := v.fs
	f.lock()
	var err error
	if v.stale() {
		err = pe("removeall", name, errStale)
	} else if parent, base, in, e := f.resolve(name, false, 0); e == nil && in != nil && parent != nil {
		delete(parent.children, base)
	}
	f.unlock()
	return v.end(c, err)
}

//go:norace
func isAncestor(a, b *Inode) bool { // is a an ancestor-or-self of b
	if a == b {
		return true
	}
	if a.Kind != KindDir {
		return false
	}
	for _, ch := range a.children {
		if isAncestor(ch, b) {
			return true
		}
	}
	return false
}

//go:norace
func (v *View) Rename(oldpath, newpath string) error {
	c, flt := v.begin(&Call{Op: "Rename", Path: oldpath, Path2: newpath})
	return v.end(c, v.rename(oldpath, newpath, flt))
}

//go:norace
func (v *View) rename(oldpath, newpath string, flt *Fault) error {
	f := v.fs
	le := func(e error) error { return &os.LinkError{Op: "rename", Old: oldpath, New: newpath, Err: e} }
	if flt != nil {
		if e := faultErr(flt); e != nil {
			return le(e)
		}
	}
	f.lock()
	defer f.unlock()
	if v.stale() {
		return le(errStale)
	}
	op, ob, oin, err := f.resolve(oldpath, false, 0)
	if err != nil {
		return le(err)
	}
	if oin == nil {
		return le(syscall.ENOENT)
	}
	if op == nil {
		return le(syscall.EBUSY)
	}
	np, nb, nin, err := f.resolve(newpath, false, 0)
	if err != nil {
		return le(err)
	}
	if np == nil {
		return le(syscall.EBUSY)
	}
	if oin == nin {
		return nil
	}
	if oin.Kind == KindDir && isAncestor(oin, np) {
		return le(syscall.EINVAL)
	}
	if nin != nil {
		if oin.Kind == KindDir {
			if nin.Kind != KindDir {
				return le(syscall.ENOTDIR)
			}
			if len(nin.children) > 0 {
				return le(syscall.ENOTEMPTY)
			}
		} else if nin.Kind == KindDir {
			return le(syscall.EISDIR)
		}
	}
	delete(op.children, ob)
	np.children[nb] = oin
	now := time.Now()
	op.Mtime, np.Mtime = now, now
	return nil
}

//go:norace
func (v *View) statCommon(op, name string, follow bool) (os.FileInfo, error) {
	c, flt := v.begin(&Call{Op: op, Path: name})
	f := v.fs
	if flt != nil {
		if e := faultErr(flt); e != nil {
			return nil, v.end(c, pe("stat", name, e))
		}
	}
	f.lock()
	var fi os.FileInfo
	var err error
	if v.stale() {
		err = pe("stat", name, errStale)
	} else if in, e := f.lookup(name, follow); e != nil {
		err = pe("stat", name, e)
	} else {
		fi = in.info(path.Base(clean(name)))
	}
	f.unlock()
	return fi, v.end(c, err)
}

//go:norace
func (v *View) Stat(name string) (os.FileInfo, error) { return v.statCommon("Stat", name, true) }

//go:norace
func (v *View) Lstat(name string) (os.FileInfo, error) { return v.statCommon("Lstat", name, false) }

//go:norace
func (v *View) attrOp(c *Call, name string, follow bool, fn func(in *Inode)) error {
	c, flt := v.begin(c)
	f := v.fs
	if flt != nil {
		if e := faultErr(flt); e != nil {
			return v.end(c, pe(strings.ToLower(c.Op), name, e))
		}
	}
	f.lock()
	var err error
	if v.stale() {
		err = pe(strings.ToLower(c.Op), name, errStale)
	} else if in, e := f.lookup(name, follow); e != nil {
		err = pe(strings.ToLower(c.Op), name, e)
	} else {
		fn(in)
	}
	f.unlock()
	return v.end(c, err)
}

//go:norace
func (v *View) Chmod(name string, mode os.FileMode) error {
	return v.attrOp(&Call{Op: "Chmod", Path: name, Perm: mode}, name, true, func(in *Inode) {
		in.Perm = mode & (os.ModePerm | os.ModeSetuid | os.ModeSetgid | os.ModeSticky)
	})
}

//go:norace
func (v *View) Chtimes(name string, atime, mtime time.Time) error {
	return v.attrOp(&Call{Op: "Chtimes", Path: name}, name, true, func(in *Inode) {
		if !atime.IsZero() {
			in.Atime = atime
		}
		if !mtime.IsZero() {
			in.Mtime = mtime
		}
	})
}

//go:norace
func (v *View) Chown(name string, uid, gid int) error {
	return v.attrOp(&Call{Op: "Chown", Path: name, UID: uid, GID: gid}, name, true, func(in *Inode) {
		if uid >= 0 {
			in.UID = uint32(uid)
		}
		if gid >= 0 {
			in.GID = uint32(gid)
		}
	})
}

//go:norace
func (v *View) Lchown(name string, uid, gid int) error {
	return v.attrOp(&Call{Op: "Lchown", Path: name, UID: uid, GID: gid}, name, false, func(in *Inode) {
		if uid >= 0 {
			in.UID = uint32(uid)
		}
		if gid >= 0 {
			in.GID = uint32(gid)
		}
	})
}

//go:norace
func (v *View) Truncate(name string, size int64) error {
	c, flt := v.begin(&Call{Op: "Truncate", Path: name, Size: size})
	f := v.fs
	if flt != nil {
		if e := faultErr(flt); e != nil {
			return v.end(c, pe("truncate", name, e))
		}
	}
	f.lock()
	var err error
	if v.stale() {
		err = pe("truncate", name, errStale)
	} else if in, e := f.lookup(name, true); e != nil {
		err = pe("truncate", name, e)
	} else if in.Kind == KindDir {
		err = pe("truncate", name, syscall.EISDIR)
	} else if in.Kind != KindFile || size < 0 {
		err = pe("truncate", name, syscall.EINVAL)
	} else {
		in.data.truncate(size)
		in.dirty = true
		in.Mtime = time.Now()
	}
	f.unlock()
	return v.end(c, err)
}

//go:norace
func (v *View) Symlink(oldname, newname string) error {
	c, flt := v.begin(&Call{Op: "Symlink", Path: newname, Path2: oldname})
	f := v.fs
	le := func(e error) error { return &os.LinkError{Op: "symlink", Old: oldname, New: newname, Err: e} }
	if flt != nil {
		if e := faultErr(flt); e != nil {
			return v.end(c, le(e))
		}
	}
	f.lock()
	var err error
	if v.stale() {
		err = le(errStale)
	} else if parent, base, in, e := f.resolve(newname, false, 0); e != nil {
		err = le(e)
	} else if in != nil || parent == nil {
		err = le(syscall.EEXIST)
	} else {
		n := f.newInode(KindSymlink, 0o777)
		n.Target = oldname
		parent.children[base] = n
		parent.Mtime = time.Now()
	}
	f.unlock()
	return v.end(c, err)
}

//go:norace
func (v *View) Readlink(name string) (string, error) {
	c, flt := v.begin(&Call{Op: "Readlink", Path: name})
	f := v.fs
	if flt != nil {
		if e := faultErr(flt); e != nil {
			return "", v.end(c, pe("readlink", name, e))
		}
	}
	f.lock()
	var tgt string
	var err error
	if v.stale() {
		err = pe("readlink", name, errStale)
	} else if in, e := f.lookup(name, false); e != nil {
		err = pe("readlink", name, e)
	} else if in.Kind != KindSymlink {
		err = pe("readlink", name, syscall.EINVAL)
	} else {
		tgt = in.Target
	}
	f.unlock()
	return tgt, v.end(c, err)
}

//go:norace
func (v *View) ReadDir(name string) ([]fs.DirEntry, error) {
	c, _ := v.begin(&Call{Op: "ReadDir", Path: name})
	f := v.fs
	f.lock()
	var out []fs.DirEntry
	var err error
	if v.stale() {
		err = pe("readdir", name, errStale)
	} else if in, e := f.lookup(name, true); e != nil {
		err = pe("readdir", name, e)
	} else if in.Kind != KindDir {
		err = pe("readdir", name, syscall.ENOTDIR)
	} else {
		for _, fi := range listDir(in) {
			out = append(out, dirEntry{fi})
		}
	}
	f.unlock()
	return out, v.end(c, err)
}

//go:norace
func listDir(in *Inode) []os.FileInfo {
	names := make([]string, 0, len(in.children))
	for n := range in.children {
		names = append(names, n)
	}
	sort.Strings(names)
	out := make([]os.FileInfo, 0, len(names))
	for _, n := range names {
		out = append(out, in.children[n].info(n))
	}
	return out
}

//go:norace
func (v *View) ReadFile(name string) ([]byte, error) {
	file, err := v.OpenFile(name, os.O_RDONLY, 0)
	if err != nil {
		return nil, err
	}
	defer file.Close()
	return io.ReadAll(file)
}

//go:norace
func (v *View) Sub(dir string) (fs.FS, error) { return nil, absfs.ErrNotImplemented }

//go:norace
func (v *View) Chdir(dir string) error { v.cwd = clean(dir); return nil }

//go:norace
func (v *View) Getwd() (string, error) { return v.cwd, nil }

//go:norace
func (v *View) TempDir() string { return "/tmp" }

var _ absfs.SymlinkFileSystem = (*View)(nil)

// ---------- File ----------

// File is an open handle.
type File struct {
	v      *View
	in     *Inode
	name   string
	flag   int
	pos    int64
	closed bool
	dirPos int
}

//go:norace
func (fl *File) Name() string { return fl.name }

//go:norace
func (fl *File) call(op string) *Call { return &Call{Op: "File." + op, Path: fl.name, Flag: fl.flag} }

//go:norace
func (fl *File) check(op string) error {
	if fl.closed {
		return pe(op, fl.name, os.ErrClosed)
	}
	if fl.v.stale() {
		return pe(op, fl.name, errStale)
	}
	return nil
}

//go:norace
func (fl *File) Read(b []byte) (int, error) {
	n, err := fl.readAt("Read", b, fl.pos)
	fl.pos += int64(n)
	return n, err
}

//go:norace
func (fl *File) ReadAt(b []byte, off int64) (int, error) { return fl.readAt("ReadAt", b, off) }

//go:norace
func (fl *File) readAt(op string, b []byte, off int64) (int, error) {
	c := fl.call(op)
	c.Off, c.Len = off, len(b)
	c, flt := fl.v.begin(c)
	f := fl.v.fs
	var n int
	var err error
	if flt != nil && flt.Kind != "short" {
		if e := faultErr(flt); e != nil {
			err = pe("read", fl.name, e)
		}
	}
	if err == nil {
		f.lock()
		if e := fl.check("read"); e != nil {
			err = e
		} else if fl.in.Kind == KindDir {
			err = pe("read", fl.name, syscall.EISDIR)
		} else if fl.flag&os.O_WRONLY != 0 {
			err = pe("read", fl.name, syscall.EBADF)
		} else if off < 0 {
			err = pe("read", fl.name, syscall.EINVAL)
		} else {
			want := b
			if flt != nil && flt.Kind == "short" && flt.Short < len(b) {
				want = b[:flt.Short]
				simrt.Fault("fs.short_read")
			}
			n = fl.in.data.readAt(want, off)
			if n < len(b) && (flt == nil || flt.Kind != "short") {
				err = io.EOF
			}
		}
		f.unlock()
	}
	c.N = n
	return n, fl.v.end(c, err)
}

//go:norace
func (fl *File) Write(b []byte) (int, error) {
	off := fl.pos
	if fl.flag&os.O_APPEND != 0 {
		fl.v.fs.lock()
		off = fl.in.data.size
		fl.v.fs.unlock()
	}
	n, err := fl.writeAt("Write", b, off)
	fl.pos = off + int64(n)
	return n, err
}

//go:norace
func (fl *File) WriteString(s string) (int, error) { return fl.Write([]byte(s)) }

//go:norace
func (fl *File) WriteAt(b []byte, off int64) (int, error) { return fl.writeAt("WriteAt", b, off) }

//go:norace
func (fl *File) writeAt(op string, b []byte, off int64) (int, error) {
	c := fl.call(op)
	c.Off, c.Len = off, len(b)
	c, flt := fl.v.begin(c)
	f := fl.v.fs
	var n int
	var err error
	if flt != nil && flt.Kind != "short" && flt.Kind != "shortok" {
		if e := faultErr(flt); e != nil {
			err = pe("write", fl.name, e)
		}
	}
	if err == nil {
		f.lock()
		if e := fl.check("write"); e != nil {
			err = e
		} else if fl.in.Kind != KindFile {
			err = pe("write", fl.name, syscall.EISDIR)
		} else if fl.flag&(os.O_WRONLY|os.O_RDWR) == 0 {
			err = pe("write", fl.name, syscall.EBADF)
		} else if off < 0 {
			err = pe("write", fl.name, syscall.EINVAL)
		} else if off+int64(len(b)) < off {
			err = pe("write", fl.name, syscall.EFBIG)
		} else {
			data := b
			if flt != nil && flt.Kind == "short" && flt.Short < len(b) {
				data = b[:flt.Short]
				err = pe("write", fl.name, syscall.ENOSPC)
				simrt.Fault("fs.short_write")
			}
			if flt != nil && flt.Kind == "shortok" && flt.Short < len(b) {
				// fewer bytes taken and NO error (a backend bending io.WriterAt's contract): the count is all
				// the caller has to go by
				data = b[:flt.Short]
				simrt.Fault("fs.short_write_no_error")
			}
			if len(data) > 0 {
				fl.in.data.writeAt(data, off)
				fl.in.dirty = true
				fl.in.Mtime = time.Now()
			}
			n = len(data)
			if fl.flag&os.O_SYNC != 0 && err == nil {
				fl.in.durable = fl.in.data.clone()
				fl.in.dirty = false
			}
		}
		f.unlock()
	}
	c.N = n
	return n, fl.v.end(c, err)
}

//go:norace
func (fl *File) Seek(offset int64, whence int) (int64, error) {
	fl.v.fs.lock()
	defer fl.v.fs.unlock()
	var base int64
	switch whence {
	case io.SeekStart:
	case io.SeekCurrent:
		base = fl.pos
	case io.SeekEnd:
		base = fl.in.size()
	default:
		return 0, pe("seek", fl.name, syscall.EINVAL)
	}
	if base+offset < 0 {
		return 0, pe("seek", fl.name, syscall.EINVAL)
	}
	fl.pos = base + offset
	return fl.pos, nil
}

//go:norace
func (fl *File) Close() error {
	c, flt := fl.v.begin(fl.call("Close"))
	var err error
	fl.v.fs.lock()
	if fl.closed {
		err = pe("close", fl.name, os.ErrClosed)
	}
	fl.closed = true
	fl.v.fs.unlock()
	if err == nil && flt != nil {
		if e := faultErr(flt); e != nil {
			simrt.Fault("fs.close_err")
			err = pe("close", fl.name, e)
		}
	}
	return fl.v.end(c, err)
}

//go:norace
func (fl *File) Sync() error {
	c, flt := fl.v.begin(fl.call("Sync"))
	var err error
	if flt != nil {
		if e := faultErr(flt); e != nil {
			simrt.Fault("fs.sync_err")
			err = pe("sync", fl.name, e)
		}
	}
	if err == nil {
		fl.v.fs.lock()
		if e := fl.check("sync"); e != nil {
			err = e
		} else if fl.in.Kind == KindFile {
			fl.in.durable = fl.in.data.clone()
			fl.in.dirty = false
		}
		fl.v.fs.unlock()
	}
	return fl.v.end(c, err)
}

//go:norace
func (fl *File) Stat() (os.FileInfo, error) {
	c, flt := fl.v.begin(fl.call("Stat"))
	var fi os.FileInfo
	var err error
	if flt != nil {
		if e := faultErr(flt); e != nil {
			err = pe("stat", fl.name, e)
		}
	}
	if err == nil {
		fl.v.fs.lock()
		if e := fl.check("stat"); e != nil {
			err = e
		} else {
			fi = fl.in.info(path.Base(fl.name))
		}
		fl.v.fs.unlock()
	}
	return fi, fl.v.end(c, err)
}

//go:norace
func (fl *File) Readdir(count int) ([]os.FileInfo, error) {
	c, flt := fl.v.begin(fl.call("Readdir"))
	var out []os.FileInfo
	var err error
	partial, batch := -1, 0
	if flt != nil && flt.Kind == "short" {
		// the directory read breaks off half-way: a prefix of the entries AND an error (os.File.Readdir does that)
		partial = flt.Short
	} else if flt != nil && flt.Kind == "shortok" {
		// a positive count asks for "at most n" entries: this backend hands out small batches (no error, more to
		// come). Readdir(-1) is not affected: it returns everything or an error.
		if count > 0 {
			batch = flt.Short
			if batch < 1 {
				batch = 1
			}
		}
	} else if flt != nil {
		if e := faultErr(flt); e != nil {
			err = pe("readdir", fl.name, e)
		}
	}
	if err == nil {
		fl.v.fs.lock()
		if e := fl.check("readdir"); e != nil {
			err = e
		} else if fl.in.Kind != KindDir {
			err = pe("readdir", fl.name, syscall.ENOTDIR)
		} else {
			all := listDir(fl.in)
			if fl.dirPos > len(all) {
				fl.dirPos = len(all)
			}
			all = all[fl.dirPos:]
			if count > 0 && len(all) > count {
				all = all[:count]
			}
			if batch > 0 && len(all) > batch {
				all = all[:batch]
				fl.v.fs.injected++
				simrt.Fault("fs.short_readdir_batch")
			}
			if partial >= 0 && partial < len(all) {
				all = all[:partial]
				err = pe("readdir", fl.name, syscall.EIO)
				simrt.Fault("fs.partial_readdir")
			}
			fl.dirPos += len(all)
			out = all
			if count > 0 && len(out) == 0 && err == nil {
				err = io.EOF
			}
		}
		fl.v.fs.unlock()
	}
	return out, fl.v.end(c, err)
}

//go:norace
func (fl *File) Readdirnames(n int) ([]string, error) {
	fis, err := fl.Readdir(n)
	names := make([]string, len(fis))
	for i, fi := range fis {
		names[i] = fi.Name()
	}
	return names, err
}

//go:norace
func (fl *File) ReadDir(n int) ([]fs.DirEntry, error) {
	fis, err := fl.Readdir(n)
	out := make([]fs.DirEntry, len(fis))
	for i, fi := range fis {
		out[i] = dirEntry{fi}
	}
	return out, err
}

//go:norace
func (fl *File) Truncate(size int64) error {
	c := fl.call("Truncate")
	c.Size = size
	c, flt := fl.v.begin(c)
	var err error
	if flt != nil {
		if e := faultErr(flt); e != nil {
			err = pe("truncate", fl.name, e)
		}
	}
	if err == nil {
		fl.v.fs.lock()
		if e := fl.check("truncate"); e != nil {
			err = e
		} else if fl.in.Kind != KindFile || size < 0 {
			err = pe("truncate", fl.name, syscall.EINVAL)
		} else {
			fl.in.data.truncate(size)
			fl.in.dirty = true
			fl.in.Mtime = time.Now()
		}
		fl.v.fs.unlock()
	}
	return fl.v.end(c, err)
}

var _ absfs.File = (*File)(nil)

// ---------- crash, inspection, population (harness side; no yields, no log) ----------

// Crash discards volatile state. torn: an arbitrary subset of dirty pages of
// each dirty file survives (chosen from rng); otherwise none of the unsynced
// changes survive. All existing views become stale.
//
//go:norace
func (f *FS) Crash(torn bool, rng *simrt.Rand) {
	f.hlock()
	defer f.hunlock()
	var walk func(in *Inode)
	walk = func(in *Inode) {
		if in.Kind == KindDir {
			names := make([]string, 0, len(in.children))
			for n := range in.children {
				names = append(names, n)
			}
			sort.Strings(names)
			for _, n := range names {
				walk(in.children[n])
			}
			return
		}
		if in.Kind != KindFile || !in.dirty {
			return
		}
		nd := in.durable.clone()
		if torn && rng != nil {
			// each page that differs may or may not have reached the disk; size may be old or new
			pgs := make([]int64, 0, len(in.data.pages))
			for pg := range in.data.pages {
				pgs = append(pgs, pg)
			}
			sort.Slice(pgs, func(i, j int) bool { return pgs[i] < pgs[j] })
			if rng.Pct(50) {
				nd.size = in.data.size
				nd.truncate(nd.size)
			}
			for _, pg := range pgs {
				if pg*pageSize < nd.size && rng.Pct(50) {
					nd.pages[pg] = append([]byte(nil), in.data.pages[pg]...)
				}
			}
			nd.truncate(nd.size)
		}
		in.data = nd
		in.durable = nd.clone()
		in.dirty = false
	}
	walk(f.root)
	f.epoch++
	f.Crashed = true
	if torn {
		simrt.Fault("fs.crash_torn")
	} else {
		simrt.Fault("fs.crash_clean")
	}
}

// ArmCrash schedules a crash right after the n-th backend call from now completes.
//
//go:norace
func (f *FS) ArmCrash(n int, torn bool, rng *simrt.Rand) {
	f.hlock()
	f.CrashAfter = f.completed + n
	f.CrashTorn = torn
	f.crashRng = rng
	f.Crashed = false
	f.hunlock()
}

// Completed returns the number of completed backend calls.
//
//go:norace
func (f *FS) Completed() int {
	f.hlock()
	defer f.hunlock()
	return f.completed
}

// Node is a snapshot of one object for oracles.
type Node struct {
	Path     string
	Kind     int
	Perm     os.FileMode
	UID, GID uint32
	Size     int64
	Target   string
	Ino      uint64
}

// Snapshot returns all objects sorted by path.
//
//go:norace
func (f *FS) Snapshot() []Node {
	f.hlock()
	defer f.hunlock()
	var out []Node
	var walk func(p string, in *Inode)
	walk = func(p string, in *Inode) {
		out = append(out, Node{Path: p, Kind: in.Kind, Perm: in.Perm, UID: in.UID, GID: in.GID, Size: in.size(), Target: in.Target, Ino: in.Ino})
		if in.Kind == KindDir {
			names := make([]string, 0, len(in.children))
			for n := range in.children {
				names = append(names, n)
			}
			sort.Strings(names)
			for _, n := range names {
				walk(path.Join(p, n), in.children[n])
			}
		}
	}
	walk("/", f.root)
	return out
}

// Lookup returns the object at p without following a final symlink (nil if absent).
//
//go:norace
func (f *FS) Lookup(p string) *Node {
	f.hlock()
	defer f.hunlock()
	in, err := f.lookup(p, false)
	if err != nil {
		return nil
	}
	return &Node{Path: clean(p), Kind: in.Kind, Perm: in.Perm, UID: in.UID, GID: in.GID, Size: in.size(), Target: in.Target, Ino: in.Ino}
}

// ReadAll returns the current (volatile) content of a regular file.
//
//go:norace
func (f *FS) ReadAll(p string) ([]byte, bool) {
	f.hlock()
	defer f.hunlock()
	in, err := f.lookup(p, false)
	if err != nil || in.Kind != KindFile {
		return nil, false
	}
	b := make([]byte, in.data.size)
	in.data.readAt(b, 0)
	return b, true
}

// ReadRange reads [off, off+n) of the current content (zeros in holes; short at EOF).
//
//go:norace
func (f *FS) ReadRange(p string, off int64, n int) ([]byte, int64, bool) {
	f.hlock()
	defer f.hunlock()
	in, err := f.lookup(p, false)
	if err != nil || in.Kind != KindFile {
		return nil, 0, false
	}
	b := make([]byte, n)
	k := in.data.readAt(b, off)
	return b[:k], in.data.size, true
}

// Populate helpers (durable immediately, not logged).
//
//go:norace
func (f *FS) MustMkdir(p string, perm os.FileMode) {
	f.hlock()
	defer f.hunlock()
	parent, base, in, err := f.resolve(p, false, 0)
	if err != nil || in != nil || parent == nil {
		panic(fmt.Sprintf("simfs.MustMkdir %s: %v", p, err))
	}
	parent.children[base] = f.newInode(KindDir, perm)
}

//go:norace
func (f *FS) MustWriteFile(p string, data []byte, perm os.FileMode) {
	f.hlock()
	defer f.hunlock()
	parent, base, in, err := f.resolve(p, false, 0)
	if err != nil || parent == nil {
		panic(fmt.Sprintf("simfs.MustWriteFile %s: %v", p, err))
	}
	if in == nil {
		in = f.newInode(KindFile, perm)
		parent.children[base] = in
	}
	in.data.truncate(0)
	in.data.writeAt(data, 0)
	in.durable = in.data.clone()
	in.dirty = false
}

//go:norace
func (f *FS) MustSymlink(target, p string) {
	f.hlock()
	defer f.hunlock()
	parent, base, in, err := f.resolve(p, false, 0)
	if err != nil || in != nil || parent == nil {
		panic(fmt.Sprintf("simfs.MustSymlink %s: %v", p, err))
	}
	n := f.newInode(KindSymlink, 0o777)
	n.Target = target
	parent.children[base] = n
}

// SetOwner sets uid/gid (harness side).
//
//go:norace
func (f *FS) SetOwner(p string, uid, gid uint32, perm os.FileMode) {
	f.hlock()
	defer f.hunlock()
	if in, err := f.lookup(p, false); err == nil {
		in.UID, in.GID, in.Perm = uid, gid, perm
	}
}

// CallsSince returns the logged calls with Seq > seq.
//
//go:norace
func (f *FS) CallsSince(seq int) []*Call {
	f.hlock()
	defer f.hunlock()
	var out []*Call
	for _, c := range f.Calls {
		if c.Seq > seq {
			cp := *c // a copy: the harness must not share memory with server tasks
			out = append(out, &cp)
		}
	}
	return out
}

// LastSeq returns the sequence number of the latest logged call.
//
//go:norace
func (f *FS) LastSeq() int {
	f.hlock()
	defer f.hunlock()
	return f.nseq
}

// Extent is one non-empty page of a file.
type Extent struct {
	Off  int64
	Data []byte
}

// Extents returns the size and the allocated pages of a regular file (sparse-safe).
//
//go:norace
func (f *FS) Extents(p string) (int64, []Extent, bool) {
	f.hlock()
	defer f.hunlock()
	in, err := f.lookup(p, false)
	if err != nil || in.Kind != KindFile {
		return 0, nil, false
	}
	pgs := make([]int64, 0, len(in.data.pages))
	for pg := range in.data.pages {
		pgs = append(pgs, pg)
	}
	sort.Slice(pgs, func(i, j int) bool { return pgs[i] < pgs[j] })
	var out []Extent
	for _, pg := range pgs {
		start := pg * pageSize
		if start >= in.data.size {
			continue
		}
		d := append([]byte(nil), in.data.pages[pg]...)
		if start+pageSize > in.data.size {
			d = d[:in.data.size-start]
		}
		out = append(out, Extent{Off: start, Data: d})
	}
	return in.data.size, out, true
}
