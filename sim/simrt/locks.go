package simrt

import (
	"sync"
	"time"
	"unsafe"
)

// The sim lock types replace sync.Mutex, sync.RWMutex and sync.Once in the
// rewritten package. Under a running simulation waiting is a scheduler state
// (durably blocked in the synctest sense) and who gets a contended lock is a
// scheduler decision. Outside a simulation they fall back to the real types.
//
// Contract reproduced from package sync (see DESIGN.md appendix A): writer
// preference for RWMutex (a pending writer blocks new readers, TryRLock fails
// while a writer holds or is pending), readers queued behind a writer are
// granted when it unlocks before a later writer can take the lock, unlock of
// an unlocked lock is fatal, unlock from another goroutine is allowed.

// Mutex replaces sync.Mutex.
type Mutex struct {
	held bool
	real sync.Mutex
}

//go:norace
func (m *Mutex) Lock() {
	s := cur.Load()
	if s == nil {
		m.real.Lock()
		return
	}
	t := s.selfOrAnon()
	if s.cfg.Mask&ClassLock != 0 || m.heldNow(s) {
		s.park(t, "mutex.lock", wkMutex, m)
	}
	s.lockState()
	if m.held {
		s.unlockState()
		// Only possible if two tasks ran concurrently; retry through the scheduler.
		m.Lock()
		return
	}
	m.held = true
	s.unlockState()
	raceAcquire(unsafe.Pointer(m))
}

//go:norace
func (m *Mutex) heldNow(s *Sched) bool {
	s.lockState()
	h := m.held
	s.unlockState()
	return h
}

//go:norace
func (m *Mutex) TryLock() bool {
	s := cur.Load()
	if s == nil {
		return m.real.TryLock()
	}
	Yield(ClassLock, "mutex.trylock")
	s.lockState()
	if m.held {
		s.unlockState()
		return false
	}
	m.held = true
	s.unlockState()
	raceAcquire(unsafe.Pointer(m))
	return true
}

//go:norace
func (m *Mutex) Unlock() {
	s := cur.Load()
	if s == nil {
		m.real.Unlock()
		return
	}
	raceRelease(unsafe.Pointer(m))
	s.lockState()
	if !m.held {
		s.unlockState()
		panic("sync: unlock of unlocked mutex (fatal error in production)")
	}
	m.held = false
	s.unlockState()
	s.pokeIfDead()
	unlockPoint("mutex.unlocked")
}

//go:norace
func (s *Sched) lockState() {
	raceDisable()
	s.mu.Lock()
}

//go:norace
func (s *Sched) unlockState() {
	s.mu.Unlock()
	raceEnable()
}

//go:norace
func (s *Sched) pokeIfDead() {}

// RWMutex replaces sync.RWMutex.
type RWMutex struct {
	readers int  // read locks held (including granted-but-not-yet-running readers)
	writer  bool // write lock held
	pending int  // writers that announced themselves and wait for readers to drain
	wheld   bool // the internal writer mutex (serialises writers)
	waitR   []*Task
	real    sync.RWMutex
	// race addresses: w for writer release -> everyone, r for reader release -> writer
	rsync byte
}

//go:norace
func (m *RWMutex) RLock() {
	s := cur.Load()
	if s == nil {
		m.real.RLock()
		return
	}
	t := s.selfOrAnon()
	s.lockState()
	blocked := m.writer || m.pending > 0
	if blocked {
		m.waitR = append(m.waitR, t)
	}
	t.granted = false
	s.unlockState()
	if blocked || s.cfg.Mask&ClassLock != 0 {
		s.park(t, "rwmutex.rlock", wkRLock, m)
	}
	s.lockState()
	if t.granted {
		t.granted = false // reader count already incremented by the unlocking writer
	} else {
		m.removeWaiter(t)
		if m.writer || m.pending > 0 {
			s.unlockState()
			m.RLock()
			return
		}
		m.readers++
	}
	s.unlockState()
	raceAcquire(unsafe.Pointer(m))
}

//go:norace
func (m *RWMutex) removeWaiter(t *Task) {
	m.waitR = removeTask(m.waitR, t)
}

//go:norace
func (m *RWMutex) TryRLock() bool {
	s := cur.Load()
	if s == nil {
		return m.real.TryRLock()
	}
	Yield(ClassLock, "rwmutex.tryrlock")
	s.lockState()
	if m.writer || m.pending > 0 {
		s.unlockState()
		return false
	}
	m.readers++
	s.unlockState()
	raceAcquire(unsafe.Pointer(m))
	return true
}

//go:norace
func (m *RWMutex) RUnlock() {
	s := cur.Load()
	if s == nil {
		m.real.RUnlock()
		return
	}
	raceReleaseMerge(unsafe.Pointer(&m.rsync))
	s.lockState()
	if m.readers <= 0 {
		s.unlockState()
		panic("sync: RUnlock of unlocked RWMutex (fatal error in production)")
	}
	m.readers--
	s.unlockState()
	unlockPoint("rwmutex.runlocked")
}

//go:norace
func (m *RWMutex) Lock() {
	s := cur.Load()
	if s == nil {
		m.real.Lock()
		return
	}
	t := s.selfOrAnon()
	// Phase 1: the internal writer mutex.
	if s.cfg.Mask&ClassLock != 0 || m.wheldNow(s) {
		s.park(t, "rwmutex.lock.w", wkFlagFalse, &m.wheld)
	}
	s.lockState()
	if m.wheld {
		s.unlockState()
		m.Lock()
		return
	}
	m.wheld = true
	// Phase 2: announce; new readers now block, TryRLock fails.
	m.pending++
	needWait := m.readers > 0
	s.unlockState()
	if needWait || s.cfg.Mask&ClassLock != 0 {
		s.park(t, "rwmutex.lock.drain", wkWLock, m)
	}
	s.lockState()
	if m.readers > 0 || m.writer {
		// cannot happen under one-at-a-time execution; be safe
		s.unlockState()
		s.park(t, "rwmutex.lock.drain", wkWLock, m)
		s.lockState()
	}
	m.pending--
	m.writer = true
	s.unlockState()
	raceAcquire(unsafe.Pointer(m))
	raceAcquire(unsafe.Pointer(&m.rsync))
}

//go:norace
func (m *RWMutex) wheldNow(s *Sched) bool {
	s.lockState()
	h := m.wheld
	s.unlockState()
	return h
}

//go:norace
func (m *RWMutex) TryLock() bool {
	s := cur.Load()
	if s == nil {
		return m.real.TryLock()
	}
	Yield(ClassLock, "rwmutex.trylock")
	s.lockState()
	if m.wheld || m.writer || m.readers > 0 {
		s.unlockState()
		return false
	}
	m.wheld = true
	m.writer = true
	s.unlockState()
	raceAcquire(unsafe.Pointer(m))
	raceAcquire(unsafe.Pointer(&m.rsync))
	return true
}

//go:norace
func (m *RWMutex) Unlock() {
	s := cur.Load()
	if s == nil {
		m.real.Unlock()
		return
	}
	raceRelease(unsafe.Pointer(m))
	s.lockState()
	if !m.writer {
		s.unlockState()
		panic("sync: Unlock of unlocked RWMutex (fatal error in production)")
	}
	m.writer = false
	// Readers that queued behind this writer hold the read lock from now on
	// (as in package sync, where they were already counted).
	for _, w := range m.waitR {
		w.granted = true
		m.readers++
	}
	m.waitR = m.waitR[:0]
	m.wheld = false
	s.unlockState()
	unlockPoint("rwmutex.unlocked")
}

// RLocker mirrors sync.RWMutex.RLocker.
func (m *RWMutex) RLocker() sync.Locker { return (*rlocker)(m) }

type rlocker RWMutex

func (r *rlocker) Lock()   { (*RWMutex)(r).RLock() }
func (r *rlocker) Unlock() { (*RWMutex)(r).RUnlock() }

const (
	onceIdle = iota
	onceRunning
	onceDone
)

// Once replaces sync.Once.
type Once struct {
	state int
	real  sync.Once
}

//go:norace
func (o *Once) Do(f func()) {
	s := cur.Load()
	if s == nil {
		o.real.Do(f)
		return
	}
	Yield(ClassLock, "once.do")
	s.lockState()
	st := o.state
	if st == onceIdle {
		o.state = onceRunning
	}
	s.unlockState()
	switch st {
	case onceDone:
		raceAcquire(unsafe.Pointer(o))
		return
	case onceRunning:
		t := s.selfOrAnon()
		s.park(t, "once.wait", wkOnce, o)
		raceAcquire(unsafe.Pointer(o))
		return
	}
	defer func() {
		raceRelease(unsafe.Pointer(o))
		s.lockState()
		o.state = onceDone
		s.unlockState()
	}()
	f()
}

// unlockPoint is the decision point after a lock release (class ClassUnlock). Besides letting another runnable
// goroutine overtake, it sometimes holds the releasing goroutine back for a few dozen simulated microseconds:
// only then can the simulated clock advance, so that a message in flight on the simulated network is delivered
// and handled "between the unlock and the next statement" - an overtaking that a pure yield cannot produce,
// because a parked but runnable goroutine keeps the clock from moving. The draw is a logged scheduler decision.
//
//go:norace
func unlockPoint(site string) {
	s := cur.Load()
	if s == nil || (s.cfg.Mask&ClassUnlock == 0 && !s.dead.Load()) {
		return
	}
	if s.dead.Load() {
		Yield(ClassUnlock, site)
		return
	}
	if t := s.selfOrAnon(); t.quiet > 0 {
		return
	}
	switch s.Draw("unlock.delay", 6) {
	case 0:
		Fault("sched.delay_after_unlock")
		Sleep(60 * time.Microsecond)
	case 1:
		Fault("sched.delay_after_unlock")
		Sleep(2 * time.Millisecond)
	default:
		Yield(ClassUnlock, site)
	}
}
