//go:build race

package simrt

import (
	"runtime"
	"unsafe"
)

// RaceEnabled reports whether the binary was built with -race.
const RaceEnabled = true

func raceDisable()                      { runtime.RaceDisable() }
func raceEnable()                       { runtime.RaceEnable() }
func raceAcquire(p unsafe.Pointer)      { runtime.RaceAcquire(p) }
func raceRelease(p unsafe.Pointer)      { runtime.RaceRelease(p) }
func raceReleaseMerge(p unsafe.Pointer) { runtime.RaceReleaseMerge(p) }
