package simrt

import (
	"fmt"
	"io"
	"iter"
	"net"
	"reflect"
	"sort"
	"sync"
	"unsafe"
)

// Recv replaces a receive expression `<-ch`.
func Recv[T any](site string, ch <-chan T) T {
	Yield(ClassChan, site)
	v := <-ch
	Wake(site + ":wake")
	return v
}

// Recv2 replaces `v, ok := <-ch`.
func Recv2[T any](site string, ch <-chan T) (T, bool) {
	Yield(ClassChan, site)
	v, ok := <-ch
	Wake(site + ":wake")
	return v, ok
}

// Send replaces a send statement `ch <- v`.
func Send[T any](site string, ch chan<- T, v T) {
	Yield(ClassChan, site)
	ch <- v
	Wake(site + ":wake")
}

// RangeChan replaces `for v := range ch`.
func RangeChan[T any](site string, ch <-chan T) iter.Seq[T] {
	return func(yield func(T) bool) {
		for {
			Yield(ClassChan, site)
			v, ok := <-ch
			Wake(site + ":wake")
			if !ok || !yield(v) {
				return
			}
		}
	}
}

// WaitWG replaces wg.Wait().
func WaitWG(site string, wg *sync.WaitGroup) {
	Yield(ClassChan, site)
	wg.Wait()
	Wake(site + ":wake")
}

// SortedMap replaces `range m` over a map: deterministic key order, entries
// deleted during iteration are skipped (as the language allows).
func SortedMap[M ~map[K]V, K comparable, V any](m M) iter.Seq2[K, V] {
	return func(yield func(K, V) bool) {
		keys := make([]K, 0, len(m))
		for k := range m {
			keys = append(keys, k)
		}
		sort.Slice(keys, func(i, j int) bool { return keyLess(keys[i], keys[j]) })
		for _, k := range keys {
			v, ok := m[k]
			if !ok {
				continue
			}
			if !yield(k, v) {
				return
			}
		}
	}
}

type simIDer interface{ SimID() string }

func keyString(k any) string {
	switch x := k.(type) {
	case simIDer:
		return x.SimID()
	case interface{ NetConn() net.Conn }: // *tls.Conn
		return keyString(x.NetConn())
	case fmt.Stringer:
		return x.String()
	}
	return fmt.Sprintf("%T:%v", k, k)
}

func keyLess(a, b any) bool {
	va, vb := reflect.ValueOf(a), reflect.ValueOf(b)
	if va.IsValid() && vb.IsValid() && va.Kind() == vb.Kind() {
		switch va.Kind() {
		case reflect.String:
			return va.String() < vb.String()
		case reflect.Int, reflect.Int8, reflect.Int16, reflect.Int32, reflect.Int64:
			return va.Int() < vb.Int()
		case reflect.Uint, reflect.Uint8, reflect.Uint16, reflect.Uint32, reflect.Uint64, reflect.Uintptr:
			return va.Uint() < vb.Uint()
		}
	}
	return keyString(a) < keyString(b)
}

// LogWriter replaces os.Stderr in log.New calls of the rewritten package.
func LogWriter() io.Writer { return logSink{} }

type logSink struct{}

func (logSink) Write(p []byte) (int, error) {
	if w := LogTo; w != nil {
		return w.Write(p)
	}
	return len(p), nil
}

// LogTo, when set (debug runs only), receives the server's log output.
var LogTo io.Writer

// RaceOff / RaceOn bracket harness bookkeeping that is shared between tasks: the
// race detector then sees neither synchronisation (which would hide races of
// the code under test) nor - when the caller is a //go:norace function - the
// accesses themselves.
func RaceOff() { raceDisable() }
func RaceOn()  { raceEnable() }

// Counter is an integer shared by tasks that creates no happens-before edges.
type Counter struct{ v int64 }

//go:norace
func (c *Counter) Add(d int64) int64 { c.v += d; return c.v }

//go:norace
func (c *Counter) Load() int64 { return c.v }

//go:norace
func (c *Counter) Store(v int64) { c.v = v }

// Str is a string shared by tasks that creates no happens-before edges.
type Str struct{ s string }

//go:norace
func (x *Str) Load() string { return x.s }

//go:norace
func (x *Str) Store(s string) { x.s = s }

// Explicit happens-before edges for simulated resources (no-ops without -race).
func RaceAcquire(p unsafe.Pointer)      { raceAcquire(p) }
func RaceRelease(p unsafe.Pointer)      { raceRelease(p) }
func RaceReleaseMerge(p unsafe.Pointer) { raceReleaseMerge(p) }
