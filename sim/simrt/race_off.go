//go:build !race

package simrt

import "unsafe"

// RaceEnabled reports whether the binary was built with -race.
const RaceEnabled = false

func raceDisable()                      {}
func raceEnable()                       {}
func raceAcquire(p unsafe.Pointer)      {}
func raceRelease(p unsafe.Pointer)      {}
func raceReleaseMerge(p unsafe.Pointer) {}
