// Package simrt is the deterministic-simulation runtime linked into the
// overlay-rewritten copy of package absnfs and into the harness.
//
// One Sched exists per simulated run (one testing/synctest bubble). Every
// goroutine that matters is a Task with a deterministic logical id. Tasks park
// at yield points on their own channel; the driver (the bubble's root
// goroutine) waits for quiescence (synctest.Wait), collects the parked tasks
// whose wait condition is satisfied, and releases exactly one of them, chosen
// by the run's policy from a seeded PRNG. The list of choices is the schedule.
//
// Race-detector discipline (see race_on.go): scheduler entry points run with
// race synchronisation events disabled and touch scheduler state only from
// //go:norace functions, so that the scheduler's own channels and mutex do not
// create happens-before edges between the tasks it serialises. The sim lock
// types publish exactly the edges real locks would.
package simrt

import (
	"fmt"
	"runtime"
	"sort"
	"strconv"
	"sync"
	"sync/atomic"
	"testing/synctest"
	"time"
)

// Yield classes (bit mask). A pre-yield whose class is masked off does not park.
const (
	ClassLock = 1 << iota
	ClassChan
	ClassFS
	ClassNet
	ClassGo
	ClassMisc
	// ClassUnlock: a decision point right AFTER a lock is released (the releasing goroutine may be overtaken
	// at once by one that was waiting for, or now tries, the lock). Not part of ClassAll: schedule-exploring
	// configurations switch it on in a drawn fraction of the runs (it roughly doubles the lock yields).
	ClassUnlock
	ClassAll = ClassLock | ClassChan | ClassFS | ClassNet | ClassGo | ClassMisc
)

// wait kinds: data-encoded enabledness predicates (no closures: see package doc).
const (
	wkAlways = iota
	wkMutex
	wkRLock
	wkWLock
	wkOnce
	wkConnRead
	wkConnWrite
	wkAccept
	wkFlag      // enabled when *flag != 0
	wkFlagFalse // enabled when *bool is false
)

// Task is one scheduled goroutine.
type Task struct {
	ID      string
	seq     int
	gid     uint64
	wake    chan struct{}
	tag     string
	wk      int
	wobj    any
	granted bool
	parked  bool
	done    bool
	prio    int
	lastTag string
	kids    []kidCount
	daemon  bool // harness helper that may outlive main without counting as a leak
	quiet   int  // > 0: inside Observe: no decision point after unlocks (the harness is looking, not acting)
}

// Observe runs f - a harness observation that goes through the system's own locks (an accessor reading
// counters under the server's mutex, a snapshot of a table) - without the post-unlock decision points: what f
// reads and what the caller reads right after it then belong to one instant. Waiting for a lock that somebody
// else holds is unaffected.
//
// Quiet is Observe for a whole function body: defer simrt.Quiet()().
//
//go:norace
func Quiet() func() {
	s := cur.Load()
	if s == nil {
		return func() {}
	}
	t := s.selfOrAnon()
	t.quiet++
	return func() { t.quiet-- }
}

//go:norace
func Observe(f func()) {
	s := cur.Load()
	if s == nil {
		f()
		return
	}
	t := s.selfOrAnon()
	t.quiet++
	defer func() { t.quiet-- }()
	f()
}

type kidCount struct {
	site string
	n    int
}

// Decision is one logged choice.
type Decision struct {
	Kind   byte   // 's' schedule, 'o' select order, 'd' draw
	N      int    // number of alternatives
	Choice int    // chosen index / value
	ID     string // chosen task id (schedule decisions)
	Tag    string
}

// Policy kinds.
const (
	PolDefault = iota // keep running the same task while enabled, else lowest id
	PolRandom         // uniform among enabled
	PolPCT            // random priorities with d change points
	PolSticky         // keep running with prob 1-p, else uniform other
)

// Config of one run.
type Config struct {
	Seed        uint64
	Policy      int
	Mask        int           // yield classes that park at pre-yields
	PreemptPct  int           // PolSticky: percent chance to preempt
	PCTDepth    int           // PolPCT: number of priority change points
	PCTSteps    int           // PolPCT: expected run length for change point placement
	RandomUntil int           // after this many schedule steps fall back to PolDefault (0 = never)
	StepCap     int           // abort after this many steps (0 = 200000)
	Horizon     time.Duration // simulated-time bound (0 = 1h)
	KeepTrace   bool          // keep full decision list (otherwise only digest + counters)
}

// Result of one run.
type Result struct {
	Steps       int
	SimTime     time.Duration
	Digest      uint64
	Decisions   []Decision
	Panics      []string // panics that escaped a task
	Leaked      []string // tasks not finished at the end: "id @ where"
	Deadlocked  []string // subset of Leaked parked on a sim lock
	StepCapHit  bool
	HorizonHit  bool
	MainPanic   string
	Events      []string // harness-recorded event log (only with KeepTrace)
	NTasks      int
	Faults      map[string]int
	Probes      map[string]int
	DistinctDec int
}

// Sched is the scheduler of one run.
type Sched struct {
	mu       sync.Mutex
	cfg      Config
	rng      *Rand
	tasks    []*Task
	parked   []*Task
	arrive   chan struct{}
	step     int
	start    time.Time
	last     *Task
	dead     atomic.Bool
	mainDone atomic.Bool
	res      Result
	digest   uint64
	pctChg   []int
	nextPrio int
	gidTab   [gidTabSize]atomic.Pointer[Task]
	evmu     sync.Mutex
	net      *netState
	rootKids []kidCount
	faults   counter
	probes   counter
	stamp    atomic.Int64
	// fault/buggify knobs readable by seams
	Knobs map[string]int
}

const gidTabSize = 1 << 12

var cur atomic.Pointer[Sched]

// Cur returns the active scheduler or nil.
func Cur() *Sched { return cur.Load() }

// Active reports whether a simulation is running.
func Active() bool { return cur.Load() != nil }

//go:norace
func goid() uint64 {
	var buf [64]byte
	n := runtime.Stack(buf[:], false)
	// "goroutine 123 [running]:..."
	var id uint64
	for i := 10; i < n; i++ {
		c := buf[i]
		if c < '0' || c > '9' {
			break
		}
		id = id*10 + uint64(c-'0')
	}
	return id
}

//go:norace
func (s *Sched) bind(t *Task) {
	g := t.gid
	for i := uint64(0); i < gidTabSize; i++ {
		slot := &s.gidTab[(g+i)%gidTabSize]
		if slot.Load() == nil && slot.CompareAndSwap(nil, t) {
			return
		}
	}
	panic("simrt: gid table full")
}

//go:norace
func (s *Sched) unbind(t *Task) {
	g := t.gid
	for i := uint64(0); i < gidTabSize; i++ {
		slot := &s.gidTab[(g+i)%gidTabSize]
		if slot.Load() == t {
			slot.Store(tombstone)
			return
		}
	}
}

var tombstone = &Task{ID: "<dead>"}

//go:norace
func (s *Sched) self() *Task {
	g := goid()
	for i := uint64(0); i < gidTabSize; i++ {
		t := s.gidTab[(g+i)%gidTabSize].Load()
		if t == nil {
			return nil
		}
		if t != tombstone && t.gid == g {
			return t
		}
	}
	return nil
}

// selfOrAnon returns the calling task, registering an anonymous one for
// goroutines the simulator did not start (std-lib callbacks).
//
//go:norace
func (s *Sched) selfOrAnon() *Task {
	if t := s.self(); t != nil {
		return t
	}
	raceDisable()
	defer raceEnable()
	s.mu.Lock()
	id := childID(&s.rootKids, "", "anon")
	t := &Task{ID: id, seq: len(s.tasks), wake: make(chan struct{}, 1), gid: goid(), daemon: true}
	t.prio = s.newPrio()
	s.tasks = append(s.tasks, t)
	s.mu.Unlock()
	s.bind(t)
	return t
}

//go:norace
func childID(kids *[]kidCount, parent, site string) string {
	n := 0
	found := false
	for i := range *kids {
		if (*kids)[i].site == site {
			(*kids)[i].n++
			n = (*kids)[i].n
			found = true
			break
		}
	}
	if !found {
		*kids = append(*kids, kidCount{site, 1})
		n = 1
	}
	return parent + "/" + site + "#" + strconv.Itoa(n)
}

//go:norace
func (s *Sched) newPrio() int {
	if s.cfg.Policy == PolPCT {
		// random priority above the change-point band
		return 1000 + int(s.rng.Intn(1000000))
	}
	return 0
}

// Go starts fn as a scheduled task with a deterministic logical id.
//
//go:norace
func Go(site string, fn func()) {
	s := cur.Load()
	if s == nil || s.dead.Load() {
		go fn()
		return
	}
	raceDisable()
	parent := s.self()
	s.mu.Lock()
	var id string
	if parent == nil {
		id = childID(&s.rootKids, "", site)
	} else {
		id = childID(&parent.kids, parent.ID, site)
	}
	t := &Task{ID: id, seq: len(s.tasks), wake: make(chan struct{}, 1)}
	t.prio = s.newPrio()
	s.tasks = append(s.tasks, t)
	s.mu.Unlock()
	raceEnable()
	go s.taskMain(t, fn) // the go statement itself is the parent->child happens-before edge
}

//go:norace
func (s *Sched) taskMain(t *Task, fn func()) {
	t.gid = goid()
	s.bind(t)
	defer s.taskExit(t)
	s.park(t, "go.start", wkAlways, nil)
	fn()
}

//go:norace
func (s *Sched) taskExit(t *Task) {
	if r := recover(); r != nil {
		buf := make([]byte, 4096)
		buf = buf[:runtime.Stack(buf, false)]
		msg := fmt.Sprintf("task %s: panic: %v\n%s", t.ID, r, buf)
		raceDisable()
		s.mu.Lock()
		s.res.Panics = append(s.res.Panics, msg)
		s.mu.Unlock()
		raceEnable()
	}
	raceDisable()
	s.mu.Lock()
	t.done = true
	s.mu.Unlock()
	s.unbind(t)
	s.poke()
	raceEnable()
}

//go:norace
func (s *Sched) poke() {
	select {
	case s.arrive <- struct{}{}:
	default:
	}
}

// park blocks the calling task until the driver releases it. The driver only
// releases it while its wait condition holds.
//
//go:norace
func (s *Sched) park(t *Task, tag string, wk int, wobj any) {
	if s.dead.Load() {
		select {} // abandoned run: block forever, the bubble is discarded
	}
	raceDisable()
	s.mu.Lock()
	t.tag = tag
	t.wk = wk
	t.wobj = wobj
	t.parked = true
	s.parked = append(s.parked, t)
	s.mu.Unlock()
	s.poke()
	<-t.wake
	raceEnable()
	if s.dead.Load() {
		select {}
	}
}

// Yield is a pre-yield of the given class: an interleaving point.
//
//go:norace
func Yield(class int, site string) {
	s := cur.Load()
	if s == nil {
		return
	}
	if s.cfg.Mask&class == 0 && !s.dead.Load() {
		return
	}
	t := s.selfOrAnon()
	s.park(t, site, wkAlways, nil)
}

// Wake is a post-wake yield: it always parks so that a goroutine woken by a
// native channel/timer/WaitGroup event does not run concurrently with its waker.
//
//go:norace
func Wake(site string) {
	s := cur.Load()
	if s == nil {
		return
	}
	t := s.selfOrAnon()
	s.park(t, site, wkAlways, nil)
}

// Sleep is time.Sleep on the simulated clock followed by a post-wake yield.
func Sleep(d time.Duration) {
	time.Sleep(d)
	Wake("sleep.wake")
}

//go:norace
func (s *Sched) enabled(t *Task) bool {
	switch t.wk {
	case wkAlways:
		return true
	case wkMutex:
		return !t.wobj.(*Mutex).held
	case wkRLock:
		m := t.wobj.(*RWMutex)
		return t.granted || (!m.writer && m.pending == 0)
	case wkWLock:
		m := t.wobj.(*RWMutex)
		return !m.writer && m.readers == 0
	case wkOnce:
		return t.wobj.(*Once).state != onceRunning
	case wkConnRead:
		return t.wobj.(*Conn).readReady()
	case wkConnWrite:
		return t.wobj.(*Conn).writeReady()
	case wkAccept:
		return t.wobj.(*Listener).acceptReady()
	case wkFlag:
		return t.wobj.(*atomic.Int32).Load() != 0
	case wkFlagFalse:
		return !*(t.wobj.(*bool))
	}
	return true
}

// Rand draw logged as a decision (faults, segment sizes ...). n>0; returns [0,n).
//
//go:norace
func (s *Sched) Draw(tag string, n int) int {
	if n <= 1 {
		return 0
	}
	raceDisable()
	s.mu.Lock()
	v := int(s.rng.Intn(uint64(n)))
	s.logDecision(Decision{Kind: 'd', N: n, Choice: v, Tag: tag})
	s.mu.Unlock()
	raceEnable()
	return v
}

// SelectOrder returns the order in which a rewritten multi-case select probes
// its n communication clauses.
//
//go:norace
func SelectOrder(site string, n int) []int {
	order := make([]int, n)
	for i := range order {
		order[i] = i
	}
	s := cur.Load()
	if s == nil || n < 2 {
		return order
	}
	raceDisable()
	s.mu.Lock()
	if s.cfg.Policy != PolDefault && !s.pastRandom() {
		code := 0
		for i := n - 1; i > 0; i-- {
			j := int(s.rng.Intn(uint64(i + 1)))
			order[i], order[j] = order[j], order[i]
			code = code*(i+1) + j
		}
		s.logDecision(Decision{Kind: 'o', N: n, Choice: code, Tag: site})
	}
	s.mu.Unlock()
	raceEnable()
	return order
}

//go:norace
func (s *Sched) pastRandom() bool {
	return s.cfg.RandomUntil > 0 && s.step >= s.cfg.RandomUntil
}

//go:norace
func (s *Sched) logDecision(d Decision) {
	h := s.digest
	h = fnvMix(h, uint64(d.Kind))
	h = fnvMix(h, uint64(d.N))
	h = fnvMix(h, uint64(d.Choice))
	h = fnvStr(h, d.ID)
	h = fnvStr(h, d.Tag)
	s.digest = h
	if s.cfg.KeepTrace {
		s.res.Decisions = append(s.res.Decisions, d)
	}
}

func fnvMix(h, v uint64) uint64 {
	for i := 0; i < 8; i++ {
		h ^= v & 0xff
		h *= 1099511628211
		v >>= 8
	}
	return h
}

func fnvStr(h uint64, s string) uint64 {
	for i := 0; i < len(s); i++ {
		h ^= uint64(s[i])
		h *= 1099511628211
	}
	h ^= 0xff
	h *= 1099511628211
	return h
}

// Event records a harness-level event into the run digest (and the event log
// when KeepTrace is set). It never draws from the PRNG or reads a real clock.
//
//go:norace
func Event(format string, args ...any) {
	s := cur.Load()
	if s == nil {
		return
	}
	msg := fmt.Sprintf(format, args...)
	line := ""
	if s.cfg.KeepTrace {
		line = fmt.Sprintf("t=%v] %s", time.Since(s.start), msg)
	}
	raceDisable()
	s.mu.Lock()
	s.digest = fnvStr(s.digest, msg)
	if s.cfg.KeepTrace {
		s.res.Events = append(s.res.Events, "["+strconv.Itoa(s.step)+" "+line)
	}
	s.mu.Unlock()
	raceEnable()
}

// Tracing reports whether the event log is being kept (debug output may then be richer).
//
//go:norace
func Tracing() bool {
	s := cur.Load()
	return s != nil && s.cfg.KeepTrace
}

// Fault counts a fault that actually fired.
//
//go:norace
func Fault(kind string) {
	s := cur.Load()
	if s == nil {
		return
	}
	raceDisable()
	s.mu.Lock()
	s.faults.inc(kind)
	s.mu.Unlock()
	raceEnable()
}

// Probe counts a rare condition reached.
//
//go:norace
func Probe(name string) {
	s := cur.Load()
	if s == nil {
		return
	}
	raceDisable()
	s.mu.Lock()
	s.probes.inc(name)
	s.mu.Unlock()
	raceEnable()
}

// Step returns the current scheduler step (a global event sequence number).
//
//go:norace
func Step() int {
	s := cur.Load()
	if s == nil {
		return 0
	}
	raceDisable()
	s.mu.Lock()
	v := s.step
	s.mu.Unlock()
	raceEnable()
	return v
}

// Stamp returns a strictly increasing global event sequence number for
// invoke/return stamping of recorded histories.
//
//go:norace
func Stamp() int64 {
	s := cur.Load()
	if s == nil {
		return 0
	}
	return s.stamp.Add(1)
}

// Knob reads a per-run tuning/buggify knob.
func Knob(name string, def int) int {
	s := cur.Load()
	if s == nil || s.Knobs == nil {
		return def
	}
	if v, ok := s.Knobs[name]; ok {
		return v
	}
	return def
}

// Now returns simulated time since run start.
func Now() time.Duration {
	s := cur.Load()
	if s == nil {
		return 0
	}
	return time.Since(s.start)
}

// choose picks the index of the task to run among cands (sorted by seq/ID).
//
//go:norace
func (s *Sched) choose(cands []*Task) int {
	pol := s.cfg.Policy
	if s.pastRandom() {
		pol = PolDefault
	}
	switch pol {
	case PolRandom:
		return int(s.rng.Intn(uint64(len(cands))))
	case PolSticky:
		cur := -1
		for i, t := range cands {
			if t == s.last {
				cur = i
			}
		}
		if cur >= 0 && (len(cands) == 1 || int(s.rng.Intn(100)) >= s.cfg.PreemptPct) {
			return cur
		}
		return int(s.rng.Intn(uint64(len(cands))))
	case PolPCT:
		for len(s.pctChg) > 0 && s.step >= s.pctChg[0] {
			if s.last != nil {
				s.last.prio = len(s.pctChg) // drop below every initial priority
			}
			s.pctChg = s.pctChg[1:]
		}
		best := 0
		for i, t := range cands {
			if t.prio > cands[best].prio {
				best = i
			}
		}
		return best
	}
	for i, t := range cands {
		if t == s.last {
			return i
		}
	}
	return 0
}

// Run executes main as task "/main#1" under the scheduler inside the current
// synctest bubble and drives the run to completion. It must be called from the
// bubble's root goroutine.
//
//go:norace
func Run(cfg Config, knobs map[string]int, main func()) *Result {
	if cfg.StepCap == 0 {
		cfg.StepCap = 200000
	}
	if cfg.Horizon == 0 {
		cfg.Horizon = time.Hour
	}
	s := &Sched{cfg: cfg, rng: NewRand(cfg.Seed ^ 0x9e3779b97f4a7c15), arrive: make(chan struct{}, 1), start: time.Now(),
		digest: 14695981039346656037, Knobs: knobs}
	s.net = newNetState()
	if cfg.Policy == PolPCT {
		n := cfg.PCTSteps
		if n <= 0 {
			n = 2000
		}
		for i := 0; i < cfg.PCTDepth; i++ {
			s.pctChg = append(s.pctChg, 1+int(s.rng.Intn(uint64(n))))
		}
		sort.Ints(s.pctChg)
	}
	if !cur.CompareAndSwap(nil, s) {
		panic("simrt: a simulation is already running in this process")
	}
	horizon := time.NewTimer(cfg.Horizon)
	defer horizon.Stop()
	Go("main", func() { s.runMain(main) })
	raceDisable()

	distinct := map[uint64]struct{}{}
	for {
		synctest.Wait()
		select {
		case <-s.arrive:
		default:
		}
		s.mu.Lock()
		var cands []*Task
		for _, t := range s.parked {
			if s.enabled(t) {
				cands = append(cands, t)
			}
		}
		if len(cands) == 0 {
			s.mu.Unlock()
			if s.mainDone.Load() {
				break
			}
			select {
			case <-s.arrive:
				continue
			case <-horizon.C:
				s.res.HorizonHit = true
			}
			break
		}
		sort.Slice(cands, func(i, j int) bool { return cands[i].seq < cands[j].seq })
		idx := s.choose(cands)
		t := cands[idx]
		s.step++
		s.logDecision(Decision{Kind: 's', N: len(cands), Choice: idx, ID: t.ID, Tag: t.tag})
		if len(cands) > 1 {
			distinct[s.digest] = struct{}{}
		}
		s.parked = removeTask(s.parked, t)
		t.parked = false
		t.lastTag = t.tag
		s.last = t
		capHit := s.step >= cfg.StepCap
		s.mu.Unlock()
		if capHit {
			s.res.StepCapHit = true
			// put it back so it shows up as leaked rather than running wild
			s.mu.Lock()
			t.parked = true
			s.parked = append(s.parked, t)
			s.mu.Unlock()
			break
		}
		t.wake <- struct{}{}
	}
	// End of run: collect what is left, then abandon.
	s.dead.Store(true)
	s.mu.Lock()
	for _, t := range s.tasks {
		if t.done || t.daemon {
			continue
		}
		where := t.lastTag
		if t.parked {
			where = "parked:" + t.tag
		} else {
			where = "blocked-after:" + where
		}
		s.res.Leaked = append(s.res.Leaked, t.ID+" @ "+where)
		if t.parked && t.wk != wkAlways && t.wk != wkConnRead && t.wk != wkAccept && t.wk != wkConnWrite && t.wk != wkFlag {
			// parked on a sim lock / once: a real deadlock or a lock held by a lost goroutine
			s.res.Deadlocked = append(s.res.Deadlocked, t.ID+" @ "+t.tag)
		}
	}
	s.res.Steps = s.step
	s.res.SimTime = time.Since(s.start)
	s.res.Digest = s.digest
	s.res.NTasks = len(s.tasks)
	s.res.Faults = s.faults.toMap()
	s.res.Probes = s.probes.toMap()
	s.res.DistinctDec = len(distinct)
	s.mu.Unlock()
	raceEnable()
	cur.Store(nil)
	return &s.res
}

//go:norace
func (s *Sched) runMain(main func()) {
	defer s.mainDone.Store(true)
	defer func() {
		if r := recover(); r != nil {
			buf := make([]byte, 8192)
			buf = buf[:runtime.Stack(buf, false)]
			msg := fmt.Sprintf("%v\n%s", r, buf)
			raceDisable()
			s.mu.Lock()
			s.res.MainPanic = msg
			s.mu.Unlock()
			raceEnable()
		}
	}()
	main()
}

type counter []kv
type kv struct {
	k string
	v int
}

//go:norace
func (c *counter) inc(k string) { c.add(k, 1) }

//go:norace
func (c *counter) add(k string, n int) {
	for i := range *c {
		if (*c)[i].k == k {
			(*c)[i].v += n
			return
		}
	}
	*c = append(*c, kv{k, n})
}

//go:norace
func (c counter) toMap() map[string]int {
	m := map[string]int{}
	for _, e := range c {
		m[e.k] = e.v
	}
	return m
}

// LiveTasks returns the ids of tasks that have not finished, with where they are.
//
//go:norace
func LiveTasks() []string {
	s := cur.Load()
	if s == nil {
		return nil
	}
	raceDisable()
	s.mu.Lock()
	var out []string
	for _, t := range s.tasks {
		if !t.done && !t.daemon {
			where := "running/blocked-after:" + t.lastTag
			if t.parked {
				where = "parked:" + t.tag
			}
			out = append(out, t.ID+" @ "+where)
		}
	}
	s.mu.Unlock()
	raceEnable()
	return out
}

// TaskIDs returns the ids of all tasks created so far, finished or not.
//
//go:norace
func TaskIDs() []string {
	s := cur.Load()
	if s == nil {
		return nil
	}
	raceDisable()
	s.mu.Lock()
	var out []string
	for _, t := range s.tasks {
		out = append(out, t.ID)
	}
	s.mu.Unlock()
	raceEnable()
	return out
}

// SetDaemon marks the calling task as a harness helper excluded from leak reports.
//
//go:norace
func SetDaemon() {
	s := cur.Load()
	if s == nil {
		return
	}
	if t := s.self(); t != nil {
		t.daemon = true
	}
}

// SelfID returns the logical id of the calling task ("" outside a simulation).
//
//go:norace
func SelfID() string {
	s := cur.Load()
	if s == nil {
		return ""
	}
	if t := s.self(); t != nil {
		return t.ID
	}
	return ""
}

//go:norace
func removeTask(list []*Task, t *Task) []*Task {
	for i, p := range list {
		if p == t {
			for j := i; j+1 < len(list); j++ {
				list[j] = list[j+1]
			}
			list[len(list)-1] = nil
			return list[:len(list)-1]
		}
	}
	return list
}

// appendBytes appends without runtime.slicecopy (which carries race hooks
// even inside //go:norace functions).
//
//go:norace
func appendBytes(dst, src []byte) []byte {
	if cap(dst)-len(dst) < len(src) {
		nd := make([]byte, len(dst), 2*cap(dst)+len(src)+64)
		for i := range dst {
			nd[i] = dst[i]
		}
		dst = nd
	}
	n := len(dst)
	dst = dst[:n+len(src)]
	for i := range src {
		dst[n+i] = src[i]
	}
	return dst
}
