package simrt

// Rand is a small deterministic PRNG (splitmix64 seeding xoshiro256**).
type Rand struct{ s [4]uint64 }

func splitmix(x *uint64) uint64 {
	*x += 0x9e3779b97f4a7c15
	z := *x
	z = (z ^ (z >> 30)) * 0xbf58476d1ce4e5b9
	z = (z ^ (z >> 27)) * 0x94d049bb133111eb
	return z ^ (z >> 31)
}

// NewRand returns a PRNG seeded from seed.
func NewRand(seed uint64) *Rand {
	r := &Rand{}
	x := seed
	for i := range r.s {
		r.s[i] = splitmix(&x)
	}
	return r
}

func rotl(x uint64, k uint) uint64 { return (x << k) | (x >> (64 - k)) }

// Uint64 returns the next value.
//
//go:norace
func (r *Rand) Uint64() uint64 {
	s := &r.s
	res := rotl(s[1]*5, 7) * 9
	t := s[1] << 17
	s[2] ^= s[0]
	s[3] ^= s[1]
	s[1] ^= s[2]
	s[0] ^= s[3]
	s[2] ^= t
	s[3] = rotl(s[3], 45)
	return res
}

// Intn returns a value in [0,n). n must be > 0.
//
//go:norace
func (r *Rand) Intn(n uint64) uint64 {
	if n == 0 {
		return 0
	}
	return r.Uint64() % n
}

// Int returns a value in [0,n) as int.
func (r *Rand) Int(n int) int {
	if n <= 0 {
		return 0
	}
	return int(r.Uint64() % uint64(n))
}

// Range returns a value in [lo,hi].
func (r *Rand) Range(lo, hi int) int {
	if hi <= lo {
		return lo
	}
	return lo + r.Int(hi-lo+1)
}

// Pct returns true with probability p/100.
func (r *Rand) Pct(p int) bool { return r.Int(100) < p }

// Pick returns a random element index weighted by w.
func (r *Rand) Pick(w []int) int {
	t := 0
	for _, x := range w {
		t += x
	}
	if t <= 0 {
		return 0
	}
	v := r.Int(t)
	for i, x := range w {
		if v < x {
			return i
		}
		v -= x
	}
	return len(w) - 1
}

// Fork derives an independent PRNG.
func (r *Rand) Fork() *Rand { return NewRand(r.Uint64()) }

// Hash mixes values into a seed.
func Hash(vals ...uint64) uint64 {
	h := uint64(14695981039346656037)
	for _, v := range vals {
		h = fnvMix(h, v)
	}
	x := h
	return splitmix(&x)
}
