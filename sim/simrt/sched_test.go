package simrt

import (
	"fmt"
	"net"
	"os"
	"testing"
	"testing/synctest"
	"time"
)

// Bubble runs f as one simulated run and survives leaked goroutines.
func bubble(t *testing.T, cfg Config, main func()) (res *Result) {
	defer func() {
		if r := recover(); r != nil {
			if res == nil {
				panic(r)
			}
		}
	}()
	synctest.Test(t, func(t *testing.T) {
		res = Run(cfg, nil, main)
	})
	return res
}

func TestMutexCounter(t *testing.T) {
	var digests []uint64
	for rep := 0; rep < 2; rep++ {
		for seed := uint64(1); seed <= 20; seed++ {
			var mu Mutex
			n := 0
			res := bubble(t, Config{Seed: seed, Policy: PolRandom, Mask: ClassAll}, func() {
				done := make(chan int, 4)
				for i := 0; i < 4; i++ {
					Go("w", func() {
						for j := 0; j < 10; j++ {
							mu.Lock()
							v := n
							Yield(ClassMisc, "mid")
							n = v + 1
							mu.Unlock()
						}
						Send("done", done, 1)
					})
				}
				for i := 0; i < 4; i++ {
					Recv("wait", done)
				}
			})
			if n != 40 {
				t.Fatalf("seed %d: n=%d", seed, n)
			}
			if len(res.Leaked) != 0 || len(res.Panics) != 0 {
				t.Fatalf("leak/panic: %v %v", res.Leaked, res.Panics)
			}
			if rep == 0 {
				digests = append(digests, res.Digest)
			} else if digests[seed-1] != res.Digest {
				t.Fatalf("seed %d nondeterministic", seed)
			}
		}
	}
	if digests[0] == digests[1] {
		t.Fatalf("different seeds gave same schedule")
	}
}

func TestUnsyncRace(t *testing.T) {
	if os.Getenv("SIMRT_EXPECT_RACE") == "" {
		t.Skip("set SIMRT_EXPECT_RACE=1; this test must FAIL under -race")
	}
	n := 0
	bubble(t, Config{Seed: 1, Policy: PolRandom, Mask: ClassAll}, func() {
		done := make(chan int, 2)
		for i := 0; i < 2; i++ {
			Go("w", func() {
				Yield(ClassMisc, "a")
				n++
				Yield(ClassMisc, "b")
				Send("done", done, 1)
			})
		}
		Recv("wait", done)
		Recv("wait", done)
	})
	_ = n
}

func TestRWMutexWriterPreference(t *testing.T) {
	for seed := uint64(1); seed <= 50; seed++ {
		var rw RWMutex
		var order []string
		bubble(t, Config{Seed: seed, Policy: PolRandom, Mask: ClassAll}, func() {
			rw.RLock()
			wdone := make(chan int, 1)
			Go("writer", func() {
				rw.Lock()
				order = append(order, "W")
				rw.Unlock()
				Send("d", wdone, 1)
			})
			// let the writer announce
			for i := 0; i < 50; i++ {
				Yield(ClassMisc, "spin")
			}
			if rw.TryRLock() {
				t.Errorf("seed %d: TryRLock succeeded with pending writer", seed)
			}
			rdone := make(chan int, 1)
			Go("reader2", func() {
				rw.RLock()
				order = append(order, "R2")
				rw.RUnlock()
				Send("d", rdone, 1)
			})
			for i := 0; i < 50; i++ {
				Yield(ClassMisc, "spin")
			}
			order = append(order, "R1done")
			rw.RUnlock()
			Recv("w", wdone)
			Recv("r", rdone)
		})
		if fmt.Sprint(order) != "[R1done W R2]" {
			t.Fatalf("seed %d order %v", seed, order)
		}
	}
}

func TestNetAndClock(t *testing.T) {
	res := bubble(t, Config{Seed: 7, Policy: PolRandom, Mask: ClassAll, KeepTrace: true}, func() {
		l, err := NetListen("tcp", "localhost:0")
		if err != nil {
			t.Error(err)
			return
		}
		port := l.Addr().(*net.TCPAddr).Port
		Go("srv", func() {
			c, err := l.Accept()
			if err != nil {
				t.Error(err)
				return
			}
			buf := make([]byte, 16)
			c.SetReadDeadline(time.Now().Add(30 * time.Second))
			n := 0
			for n < 5 {
				k, err := c.Read(buf[n:])
				if err != nil {
					t.Error(err)
					return
				}
				n += k
			}
			c.Write(append([]byte("echo:"), buf[:n]...))
			// now wait for more: must time out after 30 simulated seconds
			c.SetReadDeadline(time.Now().Add(30 * time.Second))
			t0 := time.Now()
			_, err = c.Read(buf)
			ne, ok := err.(net.Error)
			if !ok || !ne.Timeout() {
				t.Errorf("want timeout, got %v", err)
			}
			if d := time.Since(t0); d != 30*time.Second {
				t.Errorf("timeout after %v", d)
			}
			c.Close()
			l.Close()
		})
		c, err := Dial(&net.TCPAddr{IP: net.IPv4(10, 0, 0, 7), Port: 900}, port, &ConnFaults{Segment: true, Latency: time.Millisecond})
		if err != nil {
			t.Error(err)
			return
		}
		c.Write([]byte("hello"))
		buf := make([]byte, 64)
		got := []byte{}
		for len(got) < 10 {
			n, err := c.Read(buf)
			if err != nil {
				t.Error(err)
				return
			}
			got = append(got, buf[:n]...)
		}
		if string(got) != "echo:hello" {
			t.Errorf("got %q", got)
		}
		n, err := c.Read(buf)
		if n != 0 || err == nil {
			t.Errorf("expected EOF, got %d %v", n, err)
		}
	})
	if len(res.Leaked) != 0 {
		t.Fatalf("leaked %v", res.Leaked)
	}
	if res.SimTime < 30*time.Second {
		t.Fatalf("sim time %v", res.SimTime)
	}
}

func TestLeakAbandon(t *testing.T) {
	for i := 0; i < 3; i++ {
		res := bubble(t, Config{Seed: 3, Policy: PolRandom, Mask: ClassAll}, func() {
			ch := make(chan int)
			Go("stuck", func() { Recv("never", ch) })
			var mu Mutex
			mu.Lock()
			Go("dead", func() { mu.Lock() })
			tk := time.NewTicker(time.Minute)
			Go("ticker", func() {
				for {
					Recv("tick", tk.C)
				}
			})
			Sleep(10 * time.Minute)
		})
		if len(res.Leaked) != 3 || len(res.Deadlocked) != 1 {
			t.Fatalf("leaked=%v deadlocked=%v", res.Leaked, res.Deadlocked)
		}
	}
}
