package simrt

import (
	"crypto/tls"
	"errors"
	"fmt"
	"io"
	"net"
	"os"
	"strconv"
	"sync"
	"syscall"
	"time"
	"unsafe"
)

// simnet: an in-memory TCP-like transport owned by the simulator. The rewritten
// package reaches it through NetListen / TLSListen (the two Listen calls in
// server.go and portmapper.go); harness clients reach it through Dial.
//
// A connection is two byte queues. Every Read/Write/Accept is a yield point;
// reads may return arbitrary segments (a scheduler draw), bytes may be delayed
// on the simulated clock, deadlines are honoured on the simulated clock, and a
// connection can be cut at a byte offset in either direction.

type netState struct {
	mu        sync.Mutex
	listeners []*Listener
	nextPort  int
	nextConn  int
	conns     []*Conn
}

//go:norace
func (ns *netState) lock() {
	raceDisable()
	ns.mu.Lock()
}

//go:norace
func (ns *netState) unlock() {
	ns.mu.Unlock()
	raceEnable()
}

//go:norace
func (ns *netState) find(port int) *Listener {
	for _, l := range ns.listeners {
		if l.addr.Port == port {
			return l
		}
	}
	return nil
}

//go:norace
func (ns *netState) remove(l *Listener) {
	for i, x := range ns.listeners {
		if x == l {
			for j := i; j+1 < len(ns.listeners); j++ {
				ns.listeners[j] = ns.listeners[j+1]
			}
			ns.listeners = ns.listeners[:len(ns.listeners)-1]
			return
		}
	}
}

//go:norace
func newNetState() *netState {
	return &netState{nextPort: 40000}
}

// ConnFaults configures per-connection transport faults (set by the dialer).
type ConnFaults struct {
	Segment     bool          // reads return arbitrary 1..n segments
	Latency     time.Duration // one-way delivery delay
	CutC2SAfter int           // cut client->server stream after this many bytes (0 = never)
	CutS2CAfter int           // cut server->client stream after this many bytes (0 = never)
	StallClient bool          // client never reads: server writes block once the window fills
	Window      int           // bytes in flight per direction (0 = 4 MiB)
}

// Listener is a simulated TCP listener.
type Listener struct {
	ns      *netState
	addr    *net.TCPAddr
	backlog []*Conn
	closed  bool
	// AcceptErrs: number of transient accept errors to inject before the next success.
	AcceptErrs int
}

type half struct {
	buf      []byte // delivered bytes, readable now
	inflight int    // bytes written but not yet delivered (latency)
	wclosed  bool   // writer closed/cut: EOF (or reset) after buf drains
	reset    bool   // deliver ECONNRESET instead of EOF
	total    int    // bytes ever written into this half
	cutAfter int    // cut the stream after this many bytes
	lastDue  time.Duration
	pending  [][]byte // written, not yet delivered (latency); delivered strictly in order
}

// Conn is one endpoint of a simulated connection.
type Conn struct {
	ns         *netState
	id         int
	server     bool
	local      *net.TCPAddr
	remote     *net.TCPAddr
	in         *half // bytes we read
	out        *half // bytes we write (peer's in)
	peer       *Conn
	closed     bool
	rdl, wdl   time.Time
	faults     *ConnFaults
	rdlTimer   *time.Timer
	wdlTimer   *time.Timer
	BytesRead  int
	BytesWrote int
}

// SimID gives deterministic ordering of connections (used by SortedMap).
//
//go:norace
func (c *Conn) SimID() string { return fmt.Sprintf("conn-%06d-%v", c.id, c.server) }

type simAddrErr struct{ msg string }

//go:norace
func (e simAddrErr) Error() string { return e.msg }

// NetListen replaces net.Listen in the rewritten package.
//
//go:norace
func NetListen(network, address string) (net.Listener, error) {
	s := cur.Load()
	if s == nil {
		return net.Listen(network, address)
	}
	host, portStr, err := net.SplitHostPort(address)
	if err != nil {
		return nil, &net.OpError{Op: "listen", Net: network, Err: err}
	}
	port, err := strconv.Atoi(portStr)
	if err != nil || port < 0 || port > 65535 {
		return nil, &net.OpError{Op: "listen", Net: network, Err: simAddrErr{"invalid port " + portStr}}
	}
	ip := net.IPv4(127, 0, 0, 1)
	if host != "" && host != "localhost" {
		if p := net.ParseIP(host); p != nil {
			ip = p
		}
	}
	if host == "" {
		ip = net.IPv4zero
	}
	ns := s.net
	ns.lock()
	if port == 0 {
		for ns.find(ns.nextPort) != nil {
			ns.nextPort++
		}
		port = ns.nextPort
		ns.nextPort++
	}
	if ns.find(port) != nil {
		ns.unlock()
		return nil, &net.OpError{Op: "listen", Net: network, Err: os.NewSyscallError("bind", syscall.EADDRINUSE)}
	}
	l := &Listener{ns: ns, addr: &net.TCPAddr{IP: ip, Port: port}}
	ns.listeners = append(ns.listeners, l)
	ns.unlock()
	Event("net.listen %d", port) // formatted outside the race-disabled region (fmt uses a sync.Pool)
	return l, nil
}

// TLSListen replaces tls.Listen in the rewritten package.
//
//go:norace
func TLSListen(network, address string, cfg *tls.Config) (net.Listener, error) {
	if cur.Load() == nil {
		return tls.Listen(network, address, cfg)
	}
	if cfg == nil || len(cfg.Certificates) == 0 && cfg.GetCertificate == nil && cfg.GetConfigForClient == nil {
		return nil, errors.New("tls: neither Certificates, GetCertificate, nor GetConfigForClient set in Config")
	}
	l, err := NetListen(network, address)
	if err != nil {
		return nil, err
	}
	return tls.NewListener(l, cfg), nil
}

//go:norace
func (l *Listener) acceptReady() bool {
	l.ns.lock()
	defer l.ns.unlock()
	return l.closed || len(l.backlog) > 0 || l.AcceptErrs > 0
}

// Accept implements net.Listener.
//
//go:norace
func (l *Listener) Accept() (net.Conn, error) {
	s := cur.Load()
	if s == nil {
		return nil, net.ErrClosed
	}
	t := s.selfOrAnon()
	s.park(t, "net.accept", wkAccept, l)
	c, err := l.acceptLocked()
	if c != nil {
		raceAcquire(unsafe.Pointer(l)) // outside the race-disabled region
		return c, nil
	}
	return nil, err
}

//go:norace
func (l *Listener) acceptLocked() (*Conn, error) {
	l.ns.lock()
	defer l.ns.unlock()
	if l.closed {
		return nil, &net.OpError{Op: "accept", Net: "tcp", Addr: l.addr, Err: net.ErrClosed}
	}
	if l.AcceptErrs > 0 {
		l.AcceptErrs--
		Fault("net.accept_err")
		return nil, &net.OpError{Op: "accept", Net: "tcp", Addr: l.addr, Err: os.NewSyscallError("accept", syscall.EMFILE)}
	}
	if len(l.backlog) == 0 {
		return nil, &net.OpError{Op: "accept", Net: "tcp", Addr: l.addr, Err: os.NewSyscallError("accept", syscall.ECONNABORTED)}
	}
	c := l.backlog[0]
	l.backlog = l.backlog[1:]
	return c, nil
}

// Close implements net.Listener.
//
//go:norace
func (l *Listener) Close() error {
	l.ns.lock()
	if l.closed {
		l.ns.unlock()
		return &net.OpError{Op: "close", Net: "tcp", Addr: l.addr, Err: net.ErrClosed}
	}
	l.closed = true
	l.ns.remove(l)
	// connections never accepted are reset
	for _, c := range l.backlog {
		c.closeLocked(true)
	}
	l.backlog = nil
	l.ns.unlock()
	Event("net.listener.close %d", l.addr.Port)
	pokeCur()
	return nil
}

// Addr implements net.Listener.
//
//go:norace
func (l *Listener) Addr() net.Addr { return l.addr }

// InjectAcceptErrors makes the next n Accept calls fail with a transient error.
//
//go:norace
func (l *Listener) InjectAcceptErrors(n int) {
	l.ns.lock()
	l.AcceptErrs += n
	l.ns.unlock()
	pokeCur()
}

//go:norace
func pokeCur() {
	if s := cur.Load(); s != nil {
		s.poke()
	}
}

// ListenerOn returns the simulated listener bound to port, if any.
//
//go:norace
func ListenerOn(port int) *Listener {
	s := cur.Load()
	if s == nil {
		return nil
	}
	s.net.lock()
	defer s.net.unlock()
	return s.net.find(port)
}

// Dial opens a simulated connection from the given client address to a local port.
//
//go:norace
func Dial(from *net.TCPAddr, port int, f *ConnFaults) (*Conn, error) {
	s := cur.Load()
	if s == nil {
		return nil, errors.New("simrt: no simulation")
	}
	Yield(ClassNet, "net.dial")
	ns := s.net
	ns.lock()
	l := ns.find(port)
	if l == nil || l.closed {
		ns.unlock()
		return nil, &net.OpError{Op: "dial", Net: "tcp", Err: os.NewSyscallError("connect", syscall.ECONNREFUSED)}
	}
	if f == nil {
		f = &ConnFaults{}
	}
	c2s := &half{cutAfter: f.CutC2SAfter}
	s2c := &half{cutAfter: f.CutS2CAfter}
	ns.nextConn++
	cl := &Conn{ns: ns, id: ns.nextConn, local: from, remote: l.addr, in: s2c, out: c2s, faults: f}
	sv := &Conn{ns: ns, id: ns.nextConn, server: true, local: l.addr, remote: from, in: c2s, out: s2c, faults: f}
	cl.peer, sv.peer = sv, cl
	ns.conns = append(ns.conns, sv)
	l.backlog = append(l.backlog, sv)
	ns.unlock()
	raceReleaseMerge(unsafe.Pointer(l)) // connect happens-before the accept that returns this connection
	Event("net.dial conn=%d from=%v port=%d", cl.id, from, port)
	s.poke()
	return cl, nil
}

// ServerConns returns the server-side endpoints created so far (for ledgers).
//
//go:norace
func ServerConns() []*Conn {
	s := cur.Load()
	if s == nil {
		return nil
	}
	s.net.lock()
	defer s.net.unlock()
	out := make([]*Conn, len(s.net.conns))
	for i, c := range s.net.conns {
		out[i] = c
	}
	return out
}

// Closed reports whether this endpoint has been closed by its owner.
//
//go:norace
func (c *Conn) Closed() bool {
	c.ns.lock()
	defer c.ns.unlock()
	return c.closed
}

// PeerBytesRead reports how many bytes the other endpoint has consumed from this connection so far.
//
//go:norace
func (c *Conn) PeerBytesRead() int {
	c.ns.lock()
	defer c.ns.unlock()
	return c.peer.BytesRead
}

// PeerClosed reports whether the other endpoint has been closed.
//
//go:norace
func (c *Conn) PeerClosed() bool {
	c.ns.lock()
	defer c.ns.unlock()
	return c.peer.closed
}

//go:norace
func (c *Conn) window() int {
	if c.faults.Window > 0 {
		return c.faults.Window
	}
	return 4 << 20
}

//go:norace
func (c *Conn) readReady() bool {
	c.ns.lock()
	defer c.ns.unlock()
	if c.closed || len(c.in.buf) > 0 || (c.in.wclosed && c.in.inflight == 0) {
		return true
	}
	return !c.rdl.IsZero() && !time.Now().Before(c.rdl)
}

//go:norace
func (c *Conn) writeReady() bool {
	c.ns.lock()
	defer c.ns.unlock()
	if c.closed || c.out.wclosed || c.peer.closed {
		return true
	}
	if len(c.out.buf)+c.out.inflight < c.window() {
		return true
	}
	return !c.wdl.IsZero() && !time.Now().Before(c.wdl)
}

//go:norace
func timeoutErr(op string, c *Conn) error {
	return &net.OpError{Op: op, Net: "tcp", Source: c.local, Addr: c.remote, Err: os.ErrDeadlineExceeded}
}

// Read implements net.Conn.
//
//go:norace
func (c *Conn) Read(p []byte) (int, error) {
	s := cur.Load()
	if s == nil {
		return 0, net.ErrClosed
	}
	if len(p) == 0 {
		return 0, nil
	}
	t := s.selfOrAnon()
	if s.cfg.Mask&ClassNet != 0 || !c.readReady() {
		s.park(t, "net.read", wkConnRead, c)
	}
	c.ns.lock()
	if c.closed {
		c.ns.unlock()
		return 0, &net.OpError{Op: "read", Net: "tcp", Source: c.local, Addr: c.remote, Err: net.ErrClosed}
	}
	if len(c.in.buf) == 0 {
		if c.in.wclosed && c.in.inflight == 0 {
			reset := c.in.reset
			c.ns.unlock()
			if reset {
				return 0, &net.OpError{Op: "read", Net: "tcp", Source: c.local, Addr: c.remote, Err: os.NewSyscallError("read", syscall.ECONNRESET)}
			}
			return 0, io.EOF
		}
		c.ns.unlock()
		if !c.rdl.IsZero() && !time.Now().Before(c.rdl) {
			return 0, timeoutErr("read", c)
		}
		return c.Read(p) // spurious release; wait again
	}
	n := len(p)
	if n > len(c.in.buf) {
		n = len(c.in.buf)
	}
	seg := c.faults.Segment
	c.ns.unlock()
	if seg && n > 1 {
		// biased toward tiny segments
		switch s.Draw("net.seg.kind", 3) {
		case 0:
			n = 1
		case 1:
			n = 1 + s.Draw("net.seg", n)
		}
		Fault("net.segment")
	}
	c.ns.lock()
	if n > len(c.in.buf) {
		n = len(c.in.buf)
	}
	for i := 0; i < n; i++ {
		p[i] = c.in.buf[i]
	}
	c.in.buf = c.in.buf[n:]
	if len(c.in.buf) == 0 {
		c.in.buf = nil
	}
	c.BytesRead += n
	c.ns.unlock()
	raceAcquire(unsafe.Pointer(c.in)) // delivery edge, published outside the race-disabled region
	s.poke()                          // a blocked writer may have room now
	return n, nil
}

// Write implements net.Conn.
//
//go:norace
func (c *Conn) Write(p []byte) (int, error) {
	s := cur.Load()
	if s == nil {
		return 0, net.ErrClosed
	}
	written := 0
	// delivery edge: everything the writer did so far happens-before the read that receives
	// these bytes (published here, outside the race-disabled region)
	raceReleaseMerge(unsafe.Pointer(c.out))
	for written < len(p) {
		t := s.selfOrAnon()
		if s.cfg.Mask&ClassNet != 0 || !c.writeReady() {
			s.park(t, "net.write", wkConnWrite, c)
		}
		c.ns.lock()
		if c.closed {
			c.ns.unlock()
			return written, &net.OpError{Op: "write", Net: "tcp", Source: c.local, Addr: c.remote, Err: net.ErrClosed}
		}
		if c.out.wclosed || c.peer.closed {
			c.ns.unlock()
			return written, &net.OpError{Op: "write", Net: "tcp", Source: c.local, Addr: c.remote, Err: os.NewSyscallError("write", syscall.EPIPE)}
		}
		room := c.window() - len(c.out.buf) - c.out.inflight
		if room <= 0 {
			c.ns.unlock()
			if c.server {
				Probe("server_write_blocked_on_full_window")
			}
			if !c.wdl.IsZero() && !time.Now().Before(c.wdl) {
				return written, timeoutErr("write", c)
			}
			continue
		}
		chunk := p[written:]
		if len(chunk) > room {
			chunk = chunk[:room]
		}
		cut := false
		if c.out.cutAfter > 0 && c.out.total+len(chunk) >= c.out.cutAfter {
			chunk = chunk[:c.out.cutAfter-c.out.total]
			cut = true
		}
		c.out.total += len(chunk)
		c.BytesWrote += len(chunk)
		lat := c.faults.Latency
		data := appendBytes(nil, chunk)
		if lat <= 0 {
			c.out.buf = appendBytes(c.out.buf, data)
		} else {
			h := c.out
			h.inflight += len(data)
			due := Now() + lat
			if due < h.lastDue {
				due = h.lastDue
			}
			h.lastDue = due
			h.pending = append(h.pending, data)
			d := &delivery{ns: c.ns, h: h}
			time.AfterFunc(due-Now(), d.fire)
			Fault("net.delay")
		}
		written += len(chunk)
		if cut {
			// the stream is cut here: the peer sees a reset after the delivered prefix,
			// the writer sees a broken pipe on its next write.
			c.out.wclosed = true
			c.out.reset = true
			if c.server {
				Fault("net.cut_s2c")
			} else {
				Fault("net.cut_c2s")
			}
			c.ns.unlock()
			s.poke()
			return written, &net.OpError{Op: "write", Net: "tcp", Source: c.local, Addr: c.remote, Err: os.NewSyscallError("write", syscall.ECONNRESET)}
		}
		c.ns.unlock()
		s.poke()
	}
	return written, nil
}

//go:norace
func (c *Conn) closeLocked(reset bool) {
	if c.closed {
		return
	}
	c.closed = true
	c.out.wclosed = true
	if reset {
		c.out.reset = true
	}
	if c.rdlTimer != nil {
		c.rdlTimer.Stop()
	}
	if c.wdlTimer != nil {
		c.wdlTimer.Stop()
	}
}

// Close implements net.Conn.
//
//go:norace
func (c *Conn) Close() error {
	c.ns.lock()
	if c.closed {
		c.ns.unlock()
		return &net.OpError{Op: "close", Net: "tcp", Source: c.local, Addr: c.remote, Err: net.ErrClosed}
	}
	// unread inbound data at close time turns the FIN into a reset, as TCP does
	c.closeLocked(len(c.in.buf) > 0)
	id, srv := c.id, c.server
	c.ns.unlock()
	Event("net.close conn=%d server=%v", id, srv)
	pokeCur()
	return nil
}

// Reset aborts the connection (RST) without a graceful FIN.
//
//go:norace
func (c *Conn) Reset() {
	c.ns.lock()
	c.closeLocked(true)
	c.in.wclosed = true
	c.in.reset = true
	c.ns.unlock()
	pokeCur()
}

// CloseWrite half-closes the sending direction.
//
//go:norace
func (c *Conn) CloseWrite() error {
	c.ns.lock()
	c.out.wclosed = true
	c.ns.unlock()
	pokeCur()
	return nil
}

//go:norace
func (c *Conn) LocalAddr() net.Addr { return c.local }

//go:norace
func (c *Conn) RemoteAddr() net.Addr { return c.remote }

//go:norace
func (c *Conn) SetDeadline(t time.Time) error {
	if err := c.SetReadDeadline(t); err != nil {
		return err
	}
	return c.SetWriteDeadline(t)
}

//go:norace
func (c *Conn) armTimer(slot **time.Timer, t time.Time) {
	if *slot != nil {
		(*slot).Stop()
		*slot = nil
	}
	if t.IsZero() {
		return
	}
	d := time.Until(t)
	if d < 0 {
		d = 0
	}
	*slot = time.AfterFunc(d, pokeCur)
}

//go:norace
func (c *Conn) SetReadDeadline(t time.Time) error {
	c.ns.lock()
	defer c.ns.unlock()
	if c.closed {
		return &net.OpError{Op: "set", Net: "tcp", Err: net.ErrClosed}
	}
	c.rdl = t
	c.armTimer(&c.rdlTimer, t)
	return nil
}

//go:norace
func (c *Conn) SetWriteDeadline(t time.Time) error {
	c.ns.lock()
	defer c.ns.unlock()
	if c.closed {
		return &net.OpError{Op: "set", Net: "tcp", Err: net.ErrClosed}
	}
	c.wdl = t
	c.armTimer(&c.wdlTimer, t)
	return nil
}

var _ net.Conn = (*Conn)(nil)
var _ net.Listener = (*Listener)(nil)

type delivery struct {
	ns *netState
	h  *half
}

// fire delivers the oldest pending chunk (timers with equal due time may fire
// in any order; the byte stream must not be reordered).
//
//go:norace
func (d *delivery) fire() {
	d.ns.lock()
	if len(d.h.pending) > 0 {
		data := d.h.pending[0]
		d.h.pending[0] = nil
		d.h.pending = d.h.pending[1:]
		d.h.buf = appendBytes(d.h.buf, data)
		d.h.inflight -= len(data)
	}
	d.ns.unlock()
	pokeCur()
}
