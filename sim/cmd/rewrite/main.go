// Command rewrite generates a `go build -overlay` for package absnfs in which
// every source of nondeterminism is routed to verif/sim/simrt.
//
// It type-checks the CURRENT working tree of the repository (go/packages), then
// rewrites each non-test source file by splicing replacement text into the
// original source (comments, build constraints and layout are preserved):
//
//	sync.Mutex / sync.RWMutex / sync.Once        -> simrt.Mutex / RWMutex / Once
//	go f(a, b)                                   -> simrt.Go(site, func(){ f(a', b') })
//	<-ch ; v, ok := <-ch ; ch <- v               -> simrt.Recv / Recv2 / Send
//	for v := range ch                            -> range simrt.RangeChan(site, ch)
//	for k, v := range someMap                    -> range simrt.SortedMap(someMap)
//	wg.Wait()                                    -> simrt.WaitWG(site, &wg)
//	select { ... }                               -> pre-yield, ordered probes of ready
//	                                                cases (>=2 comm clauses), post-wake
//	                                                yield in each clause of a blocking select
//	net.Listen / tls.Listen                      -> simrt.NetListen / simrt.TLSListen
//	time.Sleep                                   -> simrt.Sleep
//	log.New(os.Stderr, ...)                      -> log.New(simrt.LogWriter(), ...)
//
// The rules are generic: they apply to whatever code is in the tree.
package main

import (
	"encoding/json"
	"flag"
	"fmt"
	"go/ast"
	"go/token"
	"go/types"
	"os"
	"path/filepath"
	"sort"
	"strings"

	"golang.org/x/tools/go/packages"
)

const simrtPath = "verif/sim/simrt"

type rewriter struct {
	fset  *token.FileSet
	info  *types.Info
	src   []byte
	file  *token.File
	fname string
	nsel  int
	stats map[string]int
}

func main() {
	repo := flag.String("repo", "/repo", "repository root (package absnfs)")
	out := flag.String("out", "", "output directory for rewritten sources and overlay.json")
	access := flag.String("access", "", "accessor file to add to the package (copied as zz_verif_access.go)")
	flag.Parse()
	if *out == "" {
		fail("need -out")
	}
	cfg := &packages.Config{
		Mode: packages.NeedName | packages.NeedFiles | packages.NeedCompiledGoFiles | packages.NeedSyntax |
			packages.NeedTypes | packages.NeedTypesInfo | packages.NeedImports | packages.NeedDeps,
		Dir:   *repo,
		Env:   os.Environ(),
		Tests: false,
	}
	pkgs, err := packages.Load(cfg, ".")
	if err != nil {
		fail("load: %v", err)
	}
	if len(pkgs) != 1 {
		fail("expected 1 package, got %d", len(pkgs))
	}
	pkg := pkgs[0]
	if len(pkg.Errors) > 0 {
		for _, e := range pkg.Errors {
			fmt.Fprintln(os.Stderr, "rewrite: package error:", e)
		}
		fail("package %s does not type-check", pkg.PkgPath)
	}
	srcDir := filepath.Join(*out, "src")
	if err := os.MkdirAll(srcDir, 0o755); err != nil {
		fail("%v", err)
	}
	overlay := map[string]string{}
	total := map[string]int{}
	for i, f := range pkg.Syntax {
		fname := pkg.CompiledGoFiles[i]
		src, err := os.ReadFile(fname)
		if err != nil {
			fail("%v", err)
		}
		rw := &rewriter{fset: pkg.Fset, info: pkg.TypesInfo, src: src, file: pkg.Fset.File(f.Pos()), fname: filepath.Base(fname), stats: map[string]int{}}
		text, changed := rw.rewriteFile(f)
		for k, v := range rw.stats {
			total[k] += v
		}
		if !changed {
			continue
		}
		dst := filepath.Join(srcDir, filepath.Base(fname))
		if err := os.WriteFile(dst, []byte(text), 0o644); err != nil {
			fail("%v", err)
		}
		overlay[fname] = dst
	}
	if *access != "" {
		data, err := os.ReadFile(*access)
		if err != nil {
			fail("%v", err)
		}
		dst := filepath.Join(srcDir, "zz_verif_access.go")
		if err := os.WriteFile(dst, data, 0o644); err != nil {
			fail("%v", err)
		}
		overlay[filepath.Join(*repo, "zz_verif_access.go")] = dst
	}
	ov, _ := json.MarshalIndent(map[string]any{"Replace": overlay}, "", " ")
	if err := os.WriteFile(filepath.Join(*out, "overlay.json"), ov, 0o644); err != nil {
		fail("%v", err)
	}
	keys := make([]string, 0, len(total))
	for k := range total {
		keys = append(keys, k)
	}
	sort.Strings(keys)
	var parts []string
	for _, k := range keys {
		parts = append(parts, fmt.Sprintf("%s=%d", k, total[k]))
	}
	fmt.Printf("rewrite: %d files rewritten; %s\n", len(overlay), strings.Join(parts, " "))
}

func fail(format string, a ...any) {
	fmt.Fprintf(os.Stderr, "rewrite: "+format+"\n", a...)
	os.Exit(2)
}

func (rw *rewriter) off(p token.Pos) int { return rw.file.Offset(p) }

func (rw *rewriter) text(n ast.Node) string { return string(rw.src[rw.off(n.Pos()):rw.off(n.End())]) }

func (rw *rewriter) site(n ast.Node) string {
	return fmt.Sprintf("%q", fmt.Sprintf("%s:%d", rw.fname, rw.fset.Position(n.Pos()).Line))
}

// pkgOf returns the import path if e is an identifier naming an imported package.
func (rw *rewriter) pkgOf(e ast.Expr) string {
	id, ok := e.(*ast.Ident)
	if !ok {
		return ""
	}
	if pn, ok := rw.info.Uses[id].(*types.PkgName); ok {
		return pn.Imported().Path()
	}
	return ""
}

func (rw *rewriter) isPkgSel(e ast.Expr, pkg, name string) bool {
	sel, ok := e.(*ast.SelectorExpr)
	return ok && sel.Sel.Name == name && rw.pkgOf(sel.X) == pkg
}

// target reports whether n is a node this tool replaces. comm marks nodes that
// are the communication statement of a select clause (never replaced on their own).
func (rw *rewriter) target(n ast.Node, comm map[ast.Node]bool) bool {
	if comm[n] {
		return false
	}
	switch x := n.(type) {
	case *ast.SelectorExpr:
		if rw.pkgOf(x.X) == "sync" {
			switch x.Sel.Name {
			case "Mutex", "RWMutex", "Once":
				return true
			}
		}
		if rw.isPkgSel(x, "net", "Listen") || rw.isPkgSel(x, "crypto/tls", "Listen") || rw.isPkgSel(x, "time", "Sleep") {
			return true
		}
	case *ast.GoStmt, *ast.SelectStmt:
		return true
	case *ast.SendStmt:
		return true
	case *ast.UnaryExpr:
		return x.Op == token.ARROW
	case *ast.AssignStmt:
		if len(x.Lhs) == 2 && len(x.Rhs) == 1 {
			if u, ok := x.Rhs[0].(*ast.UnaryExpr); ok && u.Op == token.ARROW && !comm[u] {
				return true
			}
		}
	case *ast.RangeStmt:
		if tv, ok := rw.info.Types[x.X]; ok {
			switch tv.Type.Underlying().(type) {
			case *types.Chan, *types.Map:
				return true
			}
		}
	case *ast.CallExpr:
		if rw.isWaitGroupWait(x) {
			return true
		}
		if rw.isPkgSel(x.Fun, "log", "New") && len(x.Args) > 0 && rw.isPkgSel(x.Args[0], "os", "Stderr") {
			return true
		}
	}
	return false
}

func (rw *rewriter) isWaitGroupWait(c *ast.CallExpr) bool {
	sel, ok := c.Fun.(*ast.SelectorExpr)
	if !ok || sel.Sel.Name != "Wait" || len(c.Args) != 0 {
		return false
	}
	s := rw.info.Selections[sel]
	if s == nil {
		return false
	}
	fn, ok := s.Obj().(*types.Func)
	if !ok || fn.Pkg() == nil || fn.Pkg().Path() != "sync" {
		return false
	}
	recv := fn.Type().(*types.Signature).Recv()
	return recv != nil && strings.HasSuffix(recv.Type().String(), "sync.WaitGroup")
}

// render returns the source text of n with every replaceable descendant replaced.
func (rw *rewriter) render(n ast.Node) string {
	return rw.renderWith(n, nil)
}

func (rw *rewriter) renderWith(n ast.Node, comm map[ast.Node]bool) string {
	if n == nil {
		return ""
	}
	if rw.target(n, comm) {
		return rw.replace(n)
	}
	type edit struct {
		from, to int
		text     string
	}
	var edits []edit
	// comm statements of select clauses below n are handled by the select itself
	ast.Inspect(n, func(m ast.Node) bool {
		if m == nil {
			return false
		}
		if m != n && rw.target(m, comm) {
			edits = append(edits, edit{rw.off(m.Pos()), rw.off(m.End()), rw.replace(m)})
			return false
		}
		return true
	})
	start, end := rw.off(n.Pos()), rw.off(n.End())
	var b strings.Builder
	pos := start
	for _, e := range edits {
		b.Write(rw.src[pos:e.from])
		b.WriteString(e.text)
		pos = e.to
	}
	b.Write(rw.src[pos:end])
	return b.String()
}

func (rw *rewriter) renderList(stmts []ast.Stmt) string {
	var b strings.Builder
	for _, s := range stmts {
		b.WriteString(rw.render(s))
		b.WriteString("\n")
	}
	return b.String()
}

// replace returns the replacement text for a target node.
func (rw *rewriter) replace(n ast.Node) string {
	switch x := n.(type) {
	case *ast.SelectorExpr:
		switch {
		case rw.pkgOf(x.X) == "sync":
			rw.stats["lock-types"]++
			return "simrt." + x.Sel.Name
		case rw.isPkgSel(x, "net", "Listen"):
			rw.stats["listen"]++
			return "simrt.NetListen"
		case rw.isPkgSel(x, "crypto/tls", "Listen"):
			rw.stats["listen"]++
			return "simrt.TLSListen"
		case rw.isPkgSel(x, "time", "Sleep"):
			rw.stats["sleep"]++
			return "simrt.Sleep"
		}
	case *ast.GoStmt:
		return rw.replaceGo(x)
	case *ast.SendStmt:
		rw.stats["send"]++
		return fmt.Sprintf("simrt.Send(%s, %s, %s)", rw.site(x), rw.render(x.Chan), rw.render(x.Value))
	case *ast.UnaryExpr:
		rw.stats["recv"]++
		return fmt.Sprintf("simrt.Recv(%s, %s)", rw.site(x), rw.render(x.X))
	case *ast.AssignStmt:
		rw.stats["recv"]++
		u := x.Rhs[0].(*ast.UnaryExpr)
		return fmt.Sprintf("%s, %s %s simrt.Recv2(%s, %s)", rw.render(x.Lhs[0]), rw.render(x.Lhs[1]), x.Tok, rw.site(x), rw.render(u.X))
	case *ast.RangeStmt:
		return rw.replaceRange(x)
	case *ast.CallExpr:
		if rw.isWaitGroupWait(x) {
			rw.stats["wg-wait"]++
			sel := x.Fun.(*ast.SelectorExpr)
			recv := rw.render(sel.X)
			if _, isPtr := rw.info.Types[sel.X].Type.(*types.Pointer); !isPtr {
				recv = "&" + recv
			}
			return fmt.Sprintf("simrt.WaitWG(%s, %s)", rw.site(x), recv)
		}
		// log.New(os.Stderr, ...)
		rw.stats["log-sink"]++
		var args []string
		args = append(args, "simrt.LogWriter()")
		for _, a := range x.Args[1:] {
			args = append(args, rw.render(a))
		}
		return fmt.Sprintf("%s(%s)", rw.render(x.Fun), strings.Join(args, ", "))
	case *ast.SelectStmt:
		return rw.replaceSelect(x)
	}
	panic(fmt.Sprintf("no replacement for %T", n))
}

func (rw *rewriter) replaceGo(g *ast.GoStmt) string {
	rw.stats["go"]++
	call := g.Call
	site := rw.site(g)
	if fl, ok := call.Fun.(*ast.FuncLit); ok && len(call.Args) == 0 {
		return fmt.Sprintf("simrt.Go(%s, %s)", site, rw.render(fl))
	}
	// Evaluate function value and arguments at the go statement, as the language requires.
	var b strings.Builder
	b.WriteString("{\n")
	fmt.Fprintf(&b, "_simFn := %s\n", rw.render(call.Fun))
	var args []string
	for i, a := range call.Args {
		tv := rw.info.Types[a]
		if tv.Value != nil || tv.IsNil() { // constants and nil are inlined (keeps untyped conversion rules)
			args = append(args, rw.render(a))
			continue
		}
		name := fmt.Sprintf("_simA%d", i)
		fmt.Fprintf(&b, "%s := %s\n", name, rw.render(a))
		if call.Ellipsis.IsValid() && i == len(call.Args)-1 {
			name += "..."
		}
		args = append(args, name)
	}
	fmt.Fprintf(&b, "simrt.Go(%s, func() { _simFn(%s) })\n}", site, strings.Join(args, ", "))
	return b.String()
}

func (rw *rewriter) replaceRange(r *ast.RangeStmt) string {
	tv := rw.info.Types[r.X]
	var x string
	switch tv.Type.Underlying().(type) {
	case *types.Chan:
		rw.stats["range-chan"]++
		x = fmt.Sprintf("simrt.RangeChan(%s, %s)", rw.site(r), rw.render(r.X))
	default:
		rw.stats["range-map"]++
		x = fmt.Sprintf("simrt.SortedMap(%s)", rw.render(r.X))
	}
	var b strings.Builder
	b.WriteString("for ")
	if r.Key != nil {
		b.WriteString(rw.render(r.Key))
		if r.Value != nil {
			b.WriteString(", " + rw.render(r.Value))
		}
		b.WriteString(" " + r.Tok.String() + " ")
	}
	b.WriteString("range " + x + " ")
	b.WriteString(rw.render(r.Body))
	return b.String()
}

// breakTargets collects unlabeled break statements in stmts that would leave
// the enclosing select (i.e. not nested in an inner for/switch/select).
func breakTargets(stmts []ast.Stmt) map[*ast.BranchStmt]bool {
	out := map[*ast.BranchStmt]bool{}
	var walk func(n ast.Node)
	walk = func(n ast.Node) {
		ast.Inspect(n, func(m ast.Node) bool {
			switch y := m.(type) {
			case *ast.ForStmt, *ast.RangeStmt, *ast.SwitchStmt, *ast.TypeSwitchStmt, *ast.SelectStmt, *ast.FuncLit:
				return false
			case *ast.BranchStmt:
				if y.Tok == token.BREAK && y.Label == nil {
					out[y] = true
				}
			}
			return true
		})
	}
	for _, s := range stmts {
		walk(s)
	}
	return out
}

// terminating approximates the spec's "terminating statement" rules closely
// enough to keep "missing return" analysis unchanged by the select rewrite.
func terminatingList(list []ast.Stmt) bool {
	for len(list) > 0 {
		if _, ok := list[len(list)-1].(*ast.EmptyStmt); ok {
			list = list[:len(list)-1]
			continue
		}
		break
	}
	return len(list) > 0 && terminating(list[len(list)-1])
}

func terminating(s ast.Stmt) bool {
	switch x := s.(type) {
	case *ast.ReturnStmt:
		return true
	case *ast.BranchStmt:
		return x.Tok == token.GOTO
	case *ast.ExprStmt:
		if c, ok := x.X.(*ast.CallExpr); ok {
			if id, ok := c.Fun.(*ast.Ident); ok && id.Name == "panic" {
				return true
			}
		}
	case *ast.BlockStmt:
		return terminatingList(x.List)
	case *ast.IfStmt:
		return x.Else != nil && terminatingList(x.Body.List) && terminating(x.Else)
	case *ast.ForStmt:
		return x.Cond == nil && len(breakTargets(x.Body.List)) == 0 && !hasLabeledBreak(x.Body)
	case *ast.LabeledStmt:
		return terminating(x.Stmt)
	case *ast.SelectStmt:
		for _, c := range x.Body.List {
			cc := c.(*ast.CommClause)
			if !terminatingList(cc.Body) || len(breakTargets(cc.Body)) > 0 || hasLabeledBreak(cc) {
				return false
			}
		}
		return true
	case *ast.SwitchStmt:
		hasDefault := false
		for _, c := range x.Body.List {
			cc := c.(*ast.CaseClause)
			if cc.List == nil {
				hasDefault = true
			}
			if len(breakTargets(cc.Body)) > 0 || hasLabeledBreak(cc) {
				return false
			}
			if !terminatingList(cc.Body) {
				if n := len(cc.Body); n == 0 {
					return false
				} else if b, ok := cc.Body[n-1].(*ast.BranchStmt); !ok || b.Tok != token.FALLTHROUGH {
					return false
				}
			}
		}
		return hasDefault
	}
	return false
}

func hasLabeledBreak(n ast.Node) bool {
	found := false
	ast.Inspect(n, func(m ast.Node) bool {
		if b, ok := m.(*ast.BranchStmt); ok && b.Tok == token.BREAK && b.Label != nil {
			found = true
		}
		_, isFn := m.(*ast.FuncLit)
		return !isFn
	})
	return found
}

func (rw *rewriter) replaceSelect(sel *ast.SelectStmt) string {
	rw.stats["select"]++
	site := rw.site(sel)
	var clauses []*ast.CommClause
	var deflt *ast.CommClause
	comm := map[ast.Node]bool{}
	for _, s := range sel.Body.List {
		cc := s.(*ast.CommClause)
		if cc.Comm == nil {
			deflt = cc
			continue
		}
		clauses = append(clauses, cc)
		// the comm statement and the receive expression inside it stay native
		comm[cc.Comm] = true
		ast.Inspect(cc.Comm, func(m ast.Node) bool {
			if u, ok := m.(*ast.UnaryExpr); ok && u.Op == token.ARROW {
				comm[u] = true
				return false
			}
			return true
		})
	}
	rw.nsel++
	label := fmt.Sprintf("_simSel%d_%d", rw.fset.Position(sel.Pos()).Line, rw.nsel)
	blocking := deflt == nil
	term := terminating(sel)

	// body text of a clause; unlabeled breaks that leave the select become goto label
	usesLabel := false
	body := func(cc *ast.CommClause, wake bool) string {
		brk := breakTargets(cc.Body)
		var b strings.Builder
		if wake {
			fmt.Fprintf(&b, "simrt.Wake(%s)\n", site)
		}
		for _, s := range cc.Body {
			txt := rw.renderBreaks(s, brk, label, &usesLabel)
			b.WriteString(txt)
			b.WriteString("\n")
		}
		return b.String()
	}
	commText := func(cc *ast.CommClause) string { return rw.renderWith(cc.Comm, comm) }

	var b strings.Builder
	b.WriteString("{\n")
	fmt.Fprintf(&b, "simrt.Yield(simrt.ClassChan, %s)\n", site)
	n := len(clauses)
	multi := n >= 2
	if multi {
		rw.stats["select-probed"]++
		fmt.Fprintf(&b, "_simOrd := simrt.SelectOrder(%s, %d)\n", site, n)
		for k := 0; k < n; k++ {
			fmt.Fprintf(&b, "switch _simOrd[%d] {\n", k)
			for i, cc := range clauses {
				jump := "goto " + label + "\n"
				if terminatingList(cc.Body) {
					jump = ""
				} else {
					usesLabel = true
				}
				fmt.Fprintf(&b, "case %d:\nselect {\ncase %s:\n%s%sdefault:\n}\n", i, commText(cc), body(cc, false), jump)
			}
			b.WriteString("}\n")
		}
	}
	// the original statement (reached only if no probed case was ready)
	b.WriteString("select {\n")
	for _, cc := range clauses {
		fmt.Fprintf(&b, "case %s:\n%s", commText(cc), body(cc, blocking))
	}
	if deflt != nil {
		fmt.Fprintf(&b, "default:\n%s", body(deflt, false))
	}
	b.WriteString("}\n")
	if usesLabel {
		if term {
			panic("terminating select with a jump out: " + site)
		}
		fmt.Fprintf(&b, "goto %s\n%s:\n", label, label)
	}
	b.WriteString("}")
	return b.String()
}

// renderBreaks renders s, replacing the given break statements by goto label.
func (rw *rewriter) renderBreaks(s ast.Stmt, brk map[*ast.BranchStmt]bool, label string, used *bool) string {
	if len(brk) == 0 {
		return rw.render(s)
	}
	// Breaks are leaves; splice them at text level after normal rendering is not
	// possible (offsets shift), so handle them as extra targets during rendering.
	type edit struct {
		from, to int
		text     string
	}
	var edits []edit
	var visit func(n ast.Node)
	visit = func(n ast.Node) {
		ast.Inspect(n, func(m ast.Node) bool {
			if m == nil {
				return false
			}
			if bs, ok := m.(*ast.BranchStmt); ok && brk[bs] {
				edits = append(edits, edit{rw.off(m.Pos()), rw.off(m.End()), "goto " + label})
				*used = true
				return false
			}
			if m != n && rw.target(m, nil) {
				// A replaceable node: nested breaks inside it that leave our select can only
				// live in an if/block (not in for/switch/select/func), which are not targets,
				// except go/select statements which breakTargets does not descend into.
				edits = append(edits, edit{rw.off(m.Pos()), rw.off(m.End()), rw.replace(m)})
				return false
			}
			return true
		})
	}
	if rw.target(s, nil) {
		return rw.replace(s)
	}
	visit(s)
	start, end := rw.off(s.Pos()), rw.off(s.End())
	var b strings.Builder
	pos := start
	for _, e := range edits {
		b.Write(rw.src[pos:e.from])
		b.WriteString(e.text)
		pos = e.to
	}
	b.Write(rw.src[pos:end])
	return b.String()
}

func (rw *rewriter) rewriteFile(f *ast.File) (string, bool) {
	// Render every top-level declaration; keep everything between them verbatim.
	var b strings.Builder
	pos := 0
	changed := false
	for _, d := range f.Decls {
		from, to := rw.off(d.Pos()), rw.off(d.End())
		txt := rw.render(d)
		if txt != string(rw.src[from:to]) {
			changed = true
		}
		b.Write(rw.src[pos:from])
		b.WriteString(txt)
		pos = to
	}
	b.Write(rw.src[pos:])
	if !changed {
		return "", false
	}
	out := b.String()
	// add the simrt import right after the package clause
	pkgEnd := rw.off(f.Name.End())
	imp := "\n\nimport simrt \"" + simrtPath + "\"\n"
	out = out[:pkgEnd] + imp + out[pkgEnd:]
	// keep imports used: references we removed may have been the only ones
	var keep []string
	for _, is := range f.Imports {
		path := strings.Trim(is.Path.Value, "\"")
		name := ""
		if is.Name != nil {
			name = is.Name.Name
			if name == "_" || name == "." {
				continue
			}
		}
		var anchor string
		switch path {
		case "sync":
			anchor = "Locker"
		case "net":
			anchor = "Conn"
		case "crypto/tls":
			anchor = "Config"
		case "time":
			anchor = "Duration"
		case "os":
			anchor = "File"
		default:
			continue
		}
		if name == "" {
			name = path[strings.LastIndex(path, "/")+1:]
		}
		keep = append(keep, fmt.Sprintf("var _ *%s.%s", name, anchor))
	}
	if len(keep) > 0 {
		out += "\n// keep imports referenced (inserted by verif rewrite)\n" + strings.Join(keep, "\n") + "\n"
	}
	return out, true
}
